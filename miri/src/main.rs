//! Miri workload (engine M4): drives every `unsafe` line of cgmath that the
//! public API reaches, for element types of size 0, 1, 2, 4, 8, 16 and with
//! padding, and asserts the values seen through every view.
//!
//!   cargo +nightly miri run -- <quick|thorough> <seed> [sb]
//!
//! `sb` (Stacked Borrows advisory run) skips the raw-pointer neighbour reads
//! that only Stacked Borrows rejects (DESIGN O2).

use std::fmt::Debug;

use cgmath::prelude::*;
use cgmath::{Matrix2, Matrix3, Matrix4, Point1, Point2, Point3, Quaternion, Vector1, Vector2, Vector3, Vector4};

struct W {
    ops: u64,
    views: u64,
    sb: bool,
}
impl W {
    fn step(&mut self, name: &str) {
        println!("STEP {name}");
        self.ops += 1;
    }
    fn eq<T: PartialEq + Debug>(&mut self, what: &str, a: T, b: T) {
        self.views += 1;
        if a != b {
            println!("MISMATCH {what}: got {a:?}, expected {b:?}");
        }
    }
}

trait Tag: Copy + PartialEq + Debug {
    const NAME: &'static str;
    fn tag(i: usize, salt: u64) -> Self;
}
macro_rules! int_tag { ($($T:ty),*) => {$( impl Tag for $T { const NAME: &'static str = stringify!($T); fn tag(i: usize, salt: u64) -> $T { (i as u64 + 1 + salt % 50) as $T } } )*}; }
int_tag!(u8, u16, u32, u64, u128, i16);
impl Tag for f32 {
    const NAME: &'static str = "f32";
    fn tag(i: usize, salt: u64) -> f32 {
        i as f32 + 1.5 + (salt % 8) as f32
    }
}
impl Tag for f64 {
    const NAME: &'static str = "f64";
    fn tag(i: usize, salt: u64) -> f64 {
        i as f64 + 1.25 + (salt % 8) as f64
    }
}
impl Tag for () {
    const NAME: &'static str = "()";
    fn tag(_: usize, _: u64) {}
}
impl Tag for bool {
    const NAME: &'static str = "bool";
    fn tag(i: usize, salt: u64) -> bool {
        (i as u64 + salt) % 2 == 0
    }
}
impl Tag for (u8, u16) {
    const NAME: &'static str = "(u8,u16)";
    fn tag(i: usize, salt: u64) -> (u8, u16) {
        (i as u8 + 1, 500 + i as u16 + (salt % 9) as u16)
    }
}
impl Tag for (u64, u8) {
    const NAME: &'static str = "(u64,u8)";
    fn tag(i: usize, salt: u64) -> (u64, u8) {
        (i as u64 + 7 + salt, i as u8)
    }
}

macro_rules! vec_views {
    ($fname:ident, $V:ident, $n:expr, ($($f:ident),+), $Tup:ty, ($($ti:tt),+)) => {
        fn $fname<T: Tag>(w: &mut W, salt: u64) {
            const N: usize = $n;
            let t: [T; N] = std::array::from_fn(|i| T::tag(i, salt));
            let u: [T; N] = std::array::from_fn(|i| T::tag(i + 20, salt));
            let name = format!("{}<{}>", stringify!($V), T::NAME);
            w.step(&format!("{name} AsRef/AsMut/From<&> array and tuple views"));
            let mut v = $V::new($(t[$ti]),+);
            { let r: &[T; N] = v.as_ref(); w.eq("AsRef<[T;n]>", *r, t); }
            { let r: &$Tup = v.as_ref(); w.eq("AsRef<tuple>", [$(r.$ti),+], t); }
            { let m: &mut [T; N] = v.as_mut(); m[N - 1] = u[N - 1]; }
            w.eq("AsMut<[T;n]> write", v[N - 1], u[N - 1]);
            { let m: &mut $Tup = v.as_mut(); $( m.$ti = u[$ti]; )+ }
            w.eq("AsMut<tuple> write", [$(v.$f),+], u);
            let arr = t;
            { let rv: &$V<T> = (&arr).into(); w.eq("From<&[T;n]>", [$(rv.$f),+], t); }
            let mut arr2 = t;
            { let mv: &mut $V<T> = (&mut arr2).into(); mv[0] = u[0]; $( let _ = mv.$f; )+ }
            w.eq("From<&mut [T;n]> write", arr2[0], u[0]);
            let tv: $Tup = ($(t[$ti]),+,);
            { let rv: &$V<T> = (&tv).into(); w.eq("From<&tuple>", [$(rv.$f),+], t); }
            let mut tv2: $Tup = ($(t[$ti]),+,);
            { let mv: &mut $V<T> = (&mut tv2).into(); $( mv.$f = u[$ti]; )+ }
            w.eq("From<&mut tuple> write", [$(tv2.$ti),+], u);
            w.step(&format!("{name} Index usize and ranges"));
            let v = $V::new($(t[$ti]),+);
            for i in 0..N { w.eq("Index", v[i], t[i]); }
            w.eq("Index<RangeFull>", v[..].to_vec(), t.to_vec());
            w.eq("Index<RangeFrom>", v[N - 1..].to_vec(), t[N - 1..].to_vec());
            w.eq("Index<RangeTo>", v[..N].to_vec(), t.to_vec());
            w.eq("Index<Range>", v[0..1].to_vec(), t[0..1].to_vec());
            let mut m = v;
            m[..].copy_from_slice(&u);
            w.eq("IndexMut<RangeFull>", [$(m.$f),+], u);
        }
    };
}
vec_views!(vv1, Vector1, 1, (x), (T,), (0));
vec_views!(vv2, Vector2, 2, (x, y), (T, T), (0, 1));
vec_views!(vv3, Vector3, 3, (x, y, z), (T, T, T), (0, 1, 2));
vec_views!(vv4, Vector4, 4, (x, y, z, w), (T, T, T, T), (0, 1, 2, 3));
vec_views!(pv1, Point1, 1, (x), (T,), (0));
vec_views!(pv2, Point2, 2, (x, y), (T, T), (0, 1));
vec_views!(pv3, Point3, 3, (x, y, z), (T, T, T), (0, 1, 2));

macro_rules! array_ptr {
    ($fname:ident, $V:ident, $n:expr, ($($f:ident),+), $bound:path) => {
        fn $fname<T: Tag + $bound>(w: &mut W, salt: u64, equal_indices: bool) {
            const N: usize = $n;
            let t: [T; N] = std::array::from_fn(|i| T::tag(i, salt));
            let u: [T; N] = std::array::from_fn(|i| T::tag(i + 20, salt));
            let name = format!("{}<{}>", stringify!($V), T::NAME);
            let v: $V<T> = t.into();
            w.step(&format!("{name} Array::as_ptr / as_mut_ptr"));
            let p = Array::as_ptr(&v);
            w.eq("as_ptr[0]", unsafe { *p }, t[0]);
            let mut m = v;
            let p = Array::as_mut_ptr(&mut m);
            unsafe { *p = u[0] };
            w.eq("as_mut_ptr[0] write", m[0], u[0]);
            if !w.sb {
                w.step(&format!("{name} Array::as_ptr neighbour reads"));
                let p = Array::as_ptr(&v);
                for i in 0..N { w.eq("as_ptr + i", unsafe { *p.add(i) }, t[i]); }
                let mut m = v;
                let p = Array::as_mut_ptr(&mut m);
                for i in 0..N { unsafe { *p.add(i) = u[i] }; }
                w.eq("as_mut_ptr + i writes", [$(m.$f),+], u);
            }
            for i in 0..N {
                for j in 0..N {
                    if (i == j) != equal_indices { continue; }
                    w.step(&format!("{name} swap_elements({i},{j})"));
                    let mut m = v;
                    m.swap_elements(i, j);
                    let mut e = t;
                    e.swap(i, j);
                    w.eq("swap_elements", [$(m.$f),+], e);
                }
            }
        }
    };
}
array_ptr!(av1, Vector1, 1, (x), Copy);
array_ptr!(av2, Vector2, 2, (x, y), Copy);
array_ptr!(av3, Vector3, 3, (x, y, z), Copy);
array_ptr!(av4, Vector4, 4, (x, y, z, w), Copy);
array_ptr!(ap1, Point1, 1, (x), cgmath::BaseNum);
array_ptr!(ap2, Point2, 2, (x, y), cgmath::BaseNum);
array_ptr!(ap3, Point3, 3, (x, y, z), cgmath::BaseNum);

macro_rules! mat_views {
    ($fname:ident, $M:ident, $n:expr) => {
        fn $fname<T: Tag>(w: &mut W, salt: u64) {
            const N: usize = $n;
            const NN: usize = $n * $n;
            let flat: [T; NN] = std::array::from_fn(|i| T::tag(i, salt));
            let other: [T; NN] = std::array::from_fn(|i| T::tag(i + 20, salt));
            let nested: [[T; N]; N] = std::array::from_fn(|c| std::array::from_fn(|r| flat[c * N + r]));
            let name = format!("{}<{}>", stringify!($M), T::NAME);
            w.step(&format!("{name} AsRef/AsMut nested and flat, From<&>, Index"));
            let mut m: $M<T> = nested.into();
            { let r: &[[T; N]; N] = m.as_ref(); w.eq("AsRef nested", *r, nested); }
            { let r: &[T; NN] = m.as_ref(); w.eq("AsRef flat", *r, flat); }
            { let r: &mut [T; NN] = m.as_mut(); r[NN - 1] = other[NN - 1]; }
            w.eq("AsMut flat write", m[N - 1][N - 1], other[NN - 1]);
            { let r: &mut [[T; N]; N] = m.as_mut(); r[0][N - 1] = other[N - 1]; }
            w.eq("AsMut nested write", m[0][N - 1], other[N - 1]);
            { let rm: &$M<T> = (&nested).into(); w.eq("From<&nested>", rm[N - 1][0], nested[N - 1][0]); }
            { let rm: &$M<T> = (&flat).into(); w.eq("From<&flat>", rm[N - 1][N - 1], flat[NN - 1]); }
            let mut f2 = flat;
            { let mm: &mut $M<T> = (&mut f2).into(); mm[1][0] = other[N]; }
            w.eq("From<&mut flat> write", f2[N], other[N]);
            let mut n2 = nested;
            { let mm: &mut $M<T> = (&mut n2).into(); mm[1][1] = other[N + 1]; }
            w.eq("From<&mut nested> write", n2[1][1], other[N + 1]);
            let m: $M<T> = nested.into();
            for c in 0..N { for r in 0..N { w.eq("m[c][r]", m[c][r], flat[c * N + r]); } }
            let mut mm = m;
            mm[N - 1][0] = other[0];
            w.eq("IndexMut", mm[N - 1][0], other[0]);
        }
    };
}
mat_views!(mv2, Matrix2, 2);
mat_views!(mv3, Matrix3, 3);
mat_views!(mv4, Matrix4, 4);

macro_rules! mat_float {
    ($fname:ident, $M:ident, $n:expr) => {
        fn $fname<T: Tag + cgmath::BaseFloat>(w: &mut W, salt: u64, equal_indices: bool) {
            const N: usize = $n;
            const NN: usize = $n * $n;
            let flat: [T; NN] = std::array::from_fn(|i| T::tag(i, salt));
            let other: [T; NN] = std::array::from_fn(|i| T::tag(i + 20, salt));
            let rm: &$M<T> = (&flat).into();
            let m = *rm;
            let name = format!("{}<{}>", stringify!($M), T::NAME);
            w.step(&format!("{name} Matrix::as_ptr / as_mut_ptr"));
            w.eq("as_ptr[0]", unsafe { *Matrix::as_ptr(&m) }, flat[0]);
            let mut mm = m;
            unsafe { *Matrix::as_mut_ptr(&mut mm) = other[0] };
            w.eq("as_mut_ptr[0] write", mm[0][0], other[0]);
            if !w.sb {
                w.step(&format!("{name} Matrix::as_ptr neighbour reads"));
                let p = Matrix::as_ptr(&m);
                for i in 0..NN { w.eq("as_ptr + i", unsafe { *p.add(i) }, flat[i]); }
            }
            let model = |f: &[T; NN], c: usize, r: usize| f[c * N + r];
            for a in 0..N {
                for b in 0..N {
                    if (a == b) != equal_indices { continue; }
                    w.step(&format!("{name} swap_rows({a},{b})"));
                    let mut x = m;
                    x.swap_rows(a, b);
                    for c in 0..N { w.eq("swap_rows", x[c][a], model(&flat, c, b)); w.eq("swap_rows", x[c][b], model(&flat, c, a)); }
                    w.step(&format!("{name} swap_columns({a},{b})"));
                    let mut x = m;
                    x.swap_columns(a, b);
                    for r in 0..N { w.eq("swap_columns", x[a][r], model(&flat, b, r)); w.eq("swap_columns", x[b][r], model(&flat, a, r)); }
                }
            }
            for i in 0..NN {
                for j in 0..NN {
                    if (i == j) != equal_indices { continue; }
                    if !equal_indices && (i * 7 + j * 3) % 5 != 0 { continue; } // a fifth of the pairs
                    w.step(&format!("{name} swap_elements(({},{}),({},{}))", i / N, i % N, j / N, j % N));
                    let mut x = m;
                    x.swap_elements((i / N, i % N), (j / N, j % N));
                    let mut e = flat;
                    e.swap(i, j);
                    let r: &[T; NN] = x.as_ref();
                    w.eq("swap_elements", *r, e);
                }
            }
            if !equal_indices {
                w.step(&format!("{name} replace_col / transpose_self / transpose"));
                let mut x = m;
                let col = m[N - 1];
                let old = x.replace_col(0, col);
                w.eq("replace_col returns old", old, m[0]);
                w.eq("replace_col installs", x[0], col);
                let mut x = m;
                x.transpose_self();
                for c in 0..N { for r in 0..N { w.eq("transpose_self", x[c][r], model(&flat, r, c)); } }
                w.eq("transpose", m.transpose(), x);
            }
        }
    };
}
mat_float!(mf2, Matrix2, 2);
mat_float!(mf3, Matrix3, 3);
mat_float!(mf4, Matrix4, 4);

fn det_invert<T: Tag + cgmath::BaseFloat>(w: &mut W) {
    w.step(&format!("Matrix4<{}>::determinant / invert (get_unchecked helper)", T::NAME));
    let f = |x: f64| <T as cgmath::num_traits::NumCast>::from(x).unwrap();
    // integer matrix with determinant 6: exact in f32 and f64
    let m = Matrix4::new(
        f(2.0), f(0.0), f(0.0), f(1.0), f(0.0), f(3.0), f(0.0), f(0.0), f(1.0), f(0.0), f(1.0), f(0.0), f(0.0), f(0.0), f(2.0), f(1.0),
    );
    // Laplace by hand: rows/cols as given (column-major); det computed by an independent expansion below
    let a: [[f64; 4]; 4] = [[2.0, 0.0, 0.0, 1.0], [0.0, 3.0, 0.0, 0.0], [1.0, 0.0, 1.0, 0.0], [0.0, 0.0, 2.0, 1.0]];
    fn det3(m: [[f64; 3]; 3]) -> f64 {
        m[0][0] * (m[1][1] * m[2][2] - m[1][2] * m[2][1]) - m[0][1] * (m[1][0] * m[2][2] - m[1][2] * m[2][0])
            + m[0][2] * (m[1][0] * m[2][1] - m[1][1] * m[2][0])
    }
    let mut d = 0.0;
    for c in 0..4 {
        let mut minor = [[0.0; 3]; 3];
        let mut cc = 0;
        for c2 in 0..4 {
            if c2 == c { continue; }
            for r in 1..4 { minor[cc][r - 1] = a[c2][r]; }
            cc += 1;
        }
        d += if c % 2 == 0 { 1.0 } else { -1.0 } * a[c][0] * det3(minor);
    }
    w.eq("determinant", m.determinant(), f(d));
    let inv = m.invert().expect("invertible");
    let id = m * inv;
    let mut ok = true;
    for c in 0..4 { for r in 0..4 {
        let e = if c == r { 1.0 } else { 0.0 };
        let x: f64 = cgmath::num_traits::ToPrimitive::to_f64(&id[c][r]).unwrap();
        if (x - e).abs() > 1e-5 { ok = false; }
    } }
    w.eq("M * invert(M) = I", ok, true);
    let sing = Matrix4::new(
        f(1.0), f(2.0), f(3.0), f(4.0), f(2.0), f(4.0), f(6.0), f(8.0), f(0.0), f(1.0), f(0.0), f(1.0), f(5.0), f(0.0), f(0.0), f(2.0),
    );
    w.eq("singular invert is None", sing.invert().is_none(), true);
    w.eq("Matrix3 det", Matrix3::new(f(2.0), f(0.0), f(0.0), f(0.0), f(3.0), f(0.0), f(0.0), f(0.0), f(4.0)).determinant(), f(24.0));
    w.eq("Matrix2 det", Matrix2::new(f(2.0), f(1.0), f(1.0), f(3.0)).determinant(), f(5.0));
}

fn quat_views<T: Tag + cgmath::BaseNum>(w: &mut W, salt: u64) {
    let t: [T; 4] = std::array::from_fn(|i| T::tag(i, salt)); // x y z s
    let u: [T; 4] = std::array::from_fn(|i| T::tag(i + 20, salt));
    w.step(&format!("Quaternion<{}> array/tuple views and Index", T::NAME));
    let mut q = Quaternion::new(t[3], t[0], t[1], t[2]);
    { let r: &[T; 4] = q.as_ref(); w.eq("AsRef<[T;4]>", *r, t); }
    { let r: &(T, T, T, T) = q.as_ref(); w.eq("AsRef<tuple>", [r.0, r.1, r.2, r.3], t); }
    { let m: &mut [T; 4] = q.as_mut(); m[3] = u[3]; }
    w.eq("AsMut<[T;4]> write scalar slot", q.s, u[3]);
    { let m: &mut (T, T, T, T) = q.as_mut(); m.0 = u[0]; }
    w.eq("AsMut<tuple> write x", q.v.x, u[0]);
    { let rq: &Quaternion<T> = (&t).into(); w.eq("From<&[T;4]>", [rq.v.x, rq.v.y, rq.v.z, rq.s], t); }
    let tv = (t[0], t[1], t[2], t[3]);
    { let rq: &Quaternion<T> = (&tv).into(); w.eq("From<&tuple>", [rq.v.x, rq.v.y, rq.v.z, rq.s], t); }
    let mut a2 = t;
    { let mq: &mut Quaternion<T> = (&mut a2).into(); mq.s = u[3]; }
    w.eq("From<&mut [T;4]> write", a2[3], u[3]);
    let mut t2 = tv;
    { let mq: &mut Quaternion<T> = (&mut t2).into(); mq.v.y = u[1]; }
    w.eq("From<&mut tuple> write", t2.1, u[1]);
    let q = Quaternion::new(t[3], t[0], t[1], t[2]);
    for i in 0..4 { w.eq("Index", q[i], t[i]); }
    w.eq("Index<RangeFull>", q[..].to_vec(), t.to_vec());
    w.eq("Index<Range>", q[1..3].to_vec(), t[1..3].to_vec());
    let mut m = q;
    m[2] = u[2];
    w.eq("IndexMut", m.v.z, u[2]);
}

// ---------------------------------------------------------------- by-value conversions and re-shaping
// (safe code on the unchanged tree; they are in the workload because a "faster" rewrite of any of
// them with raw reads, MaybeUninit or wide loads is exactly what this engine exists to see)
macro_rules! by_value {
    ($fname:ident, $V:ident, $n:expr, ($($f:ident),+), $Tup:ty, ($($ti:tt),+)) => {
        fn $fname<T: Tag + cgmath::BaseNum>(w: &mut W, salt: u64) {
            const N: usize = $n;
            let t: [T; N] = std::array::from_fn(|i| T::tag(i, salt));
            let u: [T; N] = std::array::from_fn(|i| T::tag(i + 20, salt));
            let name = format!("{}<{}>", stringify!($V), T::NAME);
            w.step(&format!("{name} by-value From/Into array and tuple, from_value, map, zip"));
            let v: $V<T> = t.into();
            w.eq("From<[T;n]>", [$(v.$f),+], t);
            let a: [T; N] = v.into();
            w.eq("Into<[T;n]>", a, t);
            let tv: $Tup = ($(t[$ti]),+,);
            let v2: $V<T> = tv.into();
            w.eq("From<tuple>", [$(v2.$f),+], t);
            let back: $Tup = v2.into();
            w.eq("Into<tuple>", [$(back.$ti),+], t);
            let fv = $V::from_value(t[0]);
            w.eq("from_value", [$(fv.$f),+], [t[0]; N]);
            let mut k = 0usize;
            let mapped = v.map(|x| { k += 1; (x, k) });
            w.eq("map visits the components in order", [$(mapped.$f),+], std::array::from_fn(|i| (t[i], i + 1)));
            let other: $V<T> = u.into();
            let zipped = v.zip(other, |a, b| (a, b));
            w.eq("zip", [$(zipped.$f),+], std::array::from_fn(|i| (t[i], u[i])));
        }
    };
}
by_value!(bv1, Vector1, 1, (x), (T,), (0));
by_value!(bv2, Vector2, 2, (x, y), (T, T), (0, 1));
by_value!(bv3, Vector3, 3, (x, y, z), (T, T, T), (0, 1, 2));
by_value!(bv4, Vector4, 4, (x, y, z, w), (T, T, T, T), (0, 1, 2, 3));
by_value!(bp1, Point1, 1, (x), (T,), (0));
by_value!(bp2, Point2, 2, (x, y), (T, T), (0, 1));
by_value!(bp3, Point3, 3, (x, y, z), (T, T, T), (0, 1, 2));

fn reshape<T: Tag + cgmath::BaseNum>(w: &mut W, salt: u64) {
    let t: [T; 4] = std::array::from_fn(|i| T::tag(i, salt));
    w.step(&format!("Vector<{}> extend / truncate / truncate_n, Quaternion and matrix by-value conversions", T::NAME));
    let v2 = Vector2::new(t[0], t[1]);
    let v3 = v2.extend(t[2]);
    w.eq("Vector2::extend", [v3.x, v3.y, v3.z], [t[0], t[1], t[2]]);
    let v4 = v3.extend(t[3]);
    w.eq("Vector3::extend", [v4.x, v4.y, v4.z, v4.w], t);
    let b3 = v4.truncate();
    w.eq("Vector4::truncate", [b3.x, b3.y, b3.z], [t[0], t[1], t[2]]);
    let b2 = v3.truncate();
    w.eq("Vector3::truncate", [b2.x, b2.y], [t[0], t[1]]);
    for n in 0..4usize {
        let r = v4.truncate_n(n as isize);
        let e: Vec<T> = (0..4).filter(|&i| i != n).map(|i| t[i]).collect();
        w.eq("Vector4::truncate_n", vec![r.x, r.y, r.z], e);
    }
    // quaternion: x, y, z, s order in arrays and tuples
    let q: Quaternion<T> = t.into();
    w.eq("Quaternion From<[T;4]>", [q.v.x, q.v.y, q.v.z, q.s], t);
    let a: [T; 4] = q.into();
    w.eq("Quaternion Into<[T;4]>", a, t);
    let q: Quaternion<T> = (t[0], t[1], t[2], t[3]).into();
    w.eq("Quaternion From<tuple>", [q.v.x, q.v.y, q.v.z, q.s], t);
    let tp: (T, T, T, T) = q.into();
    w.eq("Quaternion Into<tuple>", [tp.0, tp.1, tp.2, tp.3], t);
    let q = Quaternion::from_sv(t[3], Vector3::new(t[0], t[1], t[2]));
    w.eq("Quaternion::from_sv", [q.v.x, q.v.y, q.v.z, q.s], t);
    // matrices by value
    let f: [T; 16] = std::array::from_fn(|i| T::tag(i, salt));
    let n2: [[T; 2]; 2] = [[f[0], f[1]], [f[2], f[3]]];
    let m2: Matrix2<T> = n2.into();
    let o2: [[T; 2]; 2] = m2.into();
    w.eq("Matrix2 From/Into nested", o2, n2);
    let n3: [[T; 3]; 3] = std::array::from_fn(|c| std::array::from_fn(|r| f[c * 3 + r]));
    let m3: Matrix3<T> = n3.into();
    let o3: [[T; 3]; 3] = m3.into();
    w.eq("Matrix3 From/Into nested", o3, n3);
    let n4: [[T; 4]; 4] = std::array::from_fn(|c| std::array::from_fn(|r| f[c * 4 + r]));
    let m4: Matrix4<T> = n4.into();
    let o4: [[T; 4]; 4] = m4.into();
    w.eq("Matrix4 From/Into nested", o4, n4);
    let c4 = Matrix4::from_cols(m4.x, m4.y, m4.z, m4.w);
    w.eq("Matrix4::from_cols", c4, m4);
}

// ---------------------------------------------------------------- out-of-range indices must panic
// (all of these are safe functions: with an index the type does not have, panicking is the only
// defined behaviour; a version that drops the bounds check shows here as undefined behaviour under
// Miri / AddressSanitizer, or as a missing panic)
fn must_panic<R>(w: &mut W, what: &str, f: impl FnOnce() -> R) {
    w.views += 1;
    let r = std::panic::catch_unwind(std::panic::AssertUnwindSafe(f));
    if r.is_ok() {
        println!("MISMATCH {what}: expected a panic for an out-of-range index, the call returned");
    }
}
fn out_of_range<T: Tag + cgmath::BaseFloat>(w: &mut W, salt: u64) {
    let f: [T; 16] = std::array::from_fn(|i| T::tag(i, salt));
    w.step(&format!("out-of-range indices panic <{}>", T::NAME));
    let v2 = Vector2::new(f[0], f[1]);
    let v3 = Vector3::new(f[0], f[1], f[2]);
    let v4 = Vector4::new(f[0], f[1], f[2], f[3]);
    let p3 = Point3::new(f[0], f[1], f[2]);
    let q = Quaternion::new(f[3], f[0], f[1], f[2]);
    must_panic(w, "Vector2[2]", || v2[2]);
    must_panic(w, "Vector3[3]", || v3[3]);
    must_panic(w, "Vector4[4]", || v4[4]);
    must_panic(w, "Point3[3]", || p3[3]);
    must_panic(w, "Quaternion[4]", || q[4]);
    must_panic(w, "Vector4[usize::MAX]", || v4[usize::MAX]);
    must_panic(w, "Vector3 swap_elements(0,3)", || { let mut x = v3; x.swap_elements(0, 3); x });
    must_panic(w, "Vector4 swap_elements(4,1)", || { let mut x = v4; x.swap_elements(4, 1); x });
    must_panic(w, "Point3 swap_elements(1,3)", || { let mut x = p3; x.swap_elements(1, 3); x });
    must_panic(w, "Vector4::truncate_n(4)", || v4.truncate_n(4));
    must_panic(w, "Vector4::truncate_n(-1)", || v4.truncate_n(-1));
    must_panic(w, "Vector4::truncate_n(isize::MIN)", || v4.truncate_n(isize::MIN));
    macro_rules! mat {
        ($M:ident, $n:expr, $nn:expr) => {{
            let flat: [T; $nn] = std::array::from_fn(|i| f[i]);
            let m: $M<T> = *<&$M<T>>::from(&flat);
            let name = stringify!($M);
            for bad in [$n, $n + 1, $nn, usize::MAX] {
                must_panic(w, &format!("{name}[{bad}]"), || m[bad]);
                must_panic(w, &format!("{name}[0][{bad}]"), || m[0][bad]);
                must_panic(w, &format!("{name} write [{bad}][0]"), || { let mut x = m; x[bad][0] = f[0]; x });
                must_panic(w, &format!("{name}::swap_rows(0,{bad})"), || { let mut x = m; x.swap_rows(0, bad); x });
                must_panic(w, &format!("{name}::swap_rows({bad},1)"), || { let mut x = m; x.swap_rows(bad, 1); x });
                must_panic(w, &format!("{name}::swap_columns(0,{bad})"), || { let mut x = m; x.swap_columns(0, bad); x });
                must_panic(w, &format!("{name}::swap_columns({bad},1)"), || { let mut x = m; x.swap_columns(bad, 1); x });
                must_panic(w, &format!("{name}::swap_elements((0,0),({bad},0))"), || { let mut x = m; x.swap_elements((0, 0), (bad, 0)); x });
                must_panic(w, &format!("{name}::swap_elements((0,{bad}),(1,1))"), || { let mut x = m; x.swap_elements((0, bad), (1, 1)); x });
                must_panic(w, &format!("{name}::replace_col({bad},..)"), || { let mut x = m; let c = m[0]; x.replace_col(bad, c) });
                must_panic(w, &format!("{name}::row({bad})"), || m.row(bad));
            }
        }};
    }
    mat!(Matrix2, 2, 4);
    mat!(Matrix3, 3, 9);
    mat!(Matrix4, 4, 16);
}

fn any_type<T: Tag>(w: &mut W, salt: u64) {
    vv1::<T>(w, salt);
    vv2::<T>(w, salt);
    vv3::<T>(w, salt);
    vv4::<T>(w, salt);
    pv1::<T>(w, salt);
    pv2::<T>(w, salt);
    pv3::<T>(w, salt);
    mv2::<T>(w, salt);
    mv3::<T>(w, salt);
    mv4::<T>(w, salt);
}
fn vec_arrays<T: Tag>(w: &mut W, salt: u64, eq: bool) {
    av1::<T>(w, salt, eq);
    av2::<T>(w, salt, eq);
    av3::<T>(w, salt, eq);
    av4::<T>(w, salt, eq);
}
fn point_arrays<T: Tag + cgmath::BaseNum>(w: &mut W, salt: u64, eq: bool) {
    ap1::<T>(w, salt, eq);
    ap2::<T>(w, salt, eq);
    ap3::<T>(w, salt, eq);
}

fn for_by_value<T: Tag + cgmath::BaseNum>(w: &mut W, salt: u64) {
    bv1::<T>(w, salt);
    bv2::<T>(w, salt);
    bv3::<T>(w, salt);
    bv4::<T>(w, salt);
    bp1::<T>(w, salt);
    bp2::<T>(w, salt);
    bp3::<T>(w, salt);
    reshape::<T>(w, salt);
}

fn main() {
    // expected panics (out-of-range indices) are part of the workload: keep them quiet
    std::panic::set_hook(Box::new(|_| {}));
    let args: Vec<String> = std::env::args().collect();
    let thorough = args.get(1).map(|s| s == "thorough").unwrap_or(false);
    let seed: u64 = args.get(2).and_then(|s| s.parse().ok()).unwrap_or(1);
    let sb = args.get(3).map(|s| s == "sb").unwrap_or(false);
    let mut w = W { ops: 0, views: 0, sb };
    let salts: Vec<u64> = if thorough { vec![seed, seed.wrapping_mul(31) + 7, seed + 1000] } else { vec![seed] };
    for &salt in &salts {
        // sizes 0, 1, 2, 4, 8, 16 and two padded element types
        any_type::<()>(&mut w, salt);
        any_type::<u8>(&mut w, salt);
        any_type::<bool>(&mut w, salt);
        any_type::<u16>(&mut w, salt);
        any_type::<f32>(&mut w, salt);
        any_type::<f64>(&mut w, salt);
        any_type::<u128>(&mut w, salt);
        any_type::<(u8, u16)>(&mut w, salt);
        any_type::<(u64, u8)>(&mut w, salt);
        quat_views::<u8>(&mut w, salt);
        quat_views::<i16>(&mut w, salt);
        quat_views::<f32>(&mut w, salt);
        quat_views::<f64>(&mut w, salt);
        quat_views::<u128>(&mut w, salt);
        // distinct-index swaps and raw pointers first ...
        vec_arrays::<()>(&mut w, salt, false);
        vec_arrays::<u8>(&mut w, salt, false);
        vec_arrays::<f32>(&mut w, salt, false);
        vec_arrays::<u128>(&mut w, salt, false);
        vec_arrays::<(u8, u16)>(&mut w, salt, false);
        point_arrays::<u16>(&mut w, salt, false);
        point_arrays::<f64>(&mut w, salt, false);
        mf2::<f32>(&mut w, salt, false);
        mf3::<f32>(&mut w, salt, false);
        mf4::<f32>(&mut w, salt, false);
        mf2::<f64>(&mut w, salt, false);
        mf3::<f64>(&mut w, salt, false);
        mf4::<f64>(&mut w, salt, false);
        det_invert::<f32>(&mut w);
        det_invert::<f64>(&mut w);
        for_by_value::<u8>(&mut w, salt);
        for_by_value::<i16>(&mut w, salt);
        for_by_value::<f32>(&mut w, salt);
        for_by_value::<f64>(&mut w, salt);
        out_of_range::<f32>(&mut w, salt);
        out_of_range::<f64>(&mut w, salt);
    }
    // ... equal-index swaps last (all index values are part of the property)
    let salt = salts[0];
    vec_arrays::<u8>(&mut w, salt, true);
    vec_arrays::<f64>(&mut w, salt, true);
    vec_arrays::<(u8, u16)>(&mut w, salt, true);
    point_arrays::<f32>(&mut w, salt, true);
    mf2::<f64>(&mut w, salt, true);
    mf3::<f32>(&mut w, salt, true);
    mf4::<f64>(&mut w, salt, true);
    println!("MIRI-WORKLOAD ops={} views={}", w.ops, w.views);
}
