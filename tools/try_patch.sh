#!/bin/sh
# usage: tools/try_patch.sh <patch.diff> <ID> [tier]
# Applies a seeded change to /repo, runs the check, and always restores /repo.
set -u
PATCH="$1"; ID="$2"; TIER="${3:-quick}"
cd /repo || exit 2
if ! git diff --quiet; then echo "REPO DIRTY, refusing"; exit 2; fi
if ! git apply --check "$PATCH" 2>/dev/null; then echo "PATCH DOES NOT APPLY: $PATCH"; exit 3; fi
git apply "$PATCH"
cd /verif
OUT=$(./check "$ID" --tier "$TIER" 2>&1); RC=$?
git -C /repo checkout -- . 
echo "$OUT" | grep -E "^VIOLATION|^  clause|^INCONCLUSIVE|^KNOWN|^property=" | head -${LINES_MAX:-4}
echo "RESULT id=$ID patch=$PATCH exit=$RC"
exit $RC
