#!/bin/sh
# usage: tools/try_patch.sh <patch.diff> <ID> [tier]
# Applies a seeded change to /repo, runs the check, and always restores /repo.
set -u
PATCH="$1"; ID="$2"; TIER="${3:-quick}"
cd /repo || exit 2
if ! git diff --quiet; then echo "REPO DIRTY, refusing"; exit 2; fi
if ! git apply --check "$PATCH" 2>/dev/null; then echo "PATCH DOES NOT APPLY: $PATCH"; exit 3; fi
git apply "$PATCH"
cd /verif
LOW=$(echo "$ID" | tr 'A-Z' 'a-z')
cp -f "evidence/$ID.json" "/verif/harness/target/evidence-$ID.keep" 2>/dev/null
OUT=$(./check "$ID" --tier "$TIER" 2>&1); RC=$?
git -C /repo checkout -- .
# never leave a binary built from the patched tree, nor its evidence, behind
(cd /verif/harness && CARGO_NET_OFFLINE=true cargo build --release --offline --quiet --bin "cgv-$LOW" 2>/dev/null)
cp -f "/verif/harness/target/evidence-$ID.keep" "evidence/$ID.json" 2>/dev/null
echo "$OUT" | grep -E "^VIOLATION|^  clause|^INCONCLUSIVE|^KNOWN|^property=" | head -${LINES_MAX:-4}
echo "RESULT id=$ID patch=$PATCH exit=$RC"
exit $RC
