#!/usr/bin/env python3
"""Writes /verif/seeded/INDEX.md from the meta.json files."""
import json, os
ROOT = "/verif/seeded"
rows = []
for n in sorted(os.listdir(ROOT)):
    mp = os.path.join(ROOT, n, "meta.json")
    if not os.path.exists(mp):
        continue
    m = json.load(open(mp))
    d = m.get("detected_by", {})
    first = " / ".join(d.get("first_lines", [])[1:2] or d.get("first_lines", [])[:1])
    first = first.replace("|", "\\|")[:160]
    if not d.get("detected") and m.get("note"):
        first = m["note"].replace("|", "\\|")
    rows.append((n, m["property"], m.get("summary", "").replace("|", "\\|")[:170], m.get("needs", "").replace("|", "\\|")[:150],
                 "yes" if d.get("detected") else ("?" if not d else "NO"), first))
with open(os.path.join(ROOT, "INDEX.md"), "w") as f:
    f.write("# Seeded changes and the checks that catch them\n\n")
    f.write("Each change was written by an independent sub-agent that saw only the property text, was confirmed in a fresh scratch\n"
            "worktree (builds, unedited suite passes, demonstration fails with / passes without).  The last columns record what\n"
            "`./check <ID> --tier quick` does when the change is applied to /repo (`tools/detect_seeds.py`; /repo is restored straight\n"
            "afterwards); the changes marked NO are not reported by design, for the reason given (DESIGN 10.5).\n\n")
    f.write("| seed | property | change | needs | caught | first witness line |\n|---|---|---|---|---|---|\n")
    for r in rows:
        f.write("| " + " | ".join(r) + " |\n")
    det = sum(1 for r in rows if r[4] == "yes")
    f.write(f"\n{det} of {len(rows)} caught by the quick tier.\n")
print(len(rows), "rows")
