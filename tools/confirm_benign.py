#!/usr/bin/env python3
"""Confirms a property-preserving change independently and files it under /verif/benign/.

  tools/confirm_benign.py <ID> <dir with patch.diff meta.json> <name>

In a fresh scratch worktree of /repo (outside /repo and /verif, removed afterwards): the patch
applies, the crate builds with features "swizzle mint serde", and the unedited baseline suite
passes with the patch.  (That the change really keeps the property is the author's argument in
meta.json, reviewed by me; the checks staying silent on it is what tools/run_benign.py records.)
"""
import json
import os
import re
import shutil
import subprocess
import sys
import tempfile

FEATS = ["--features", "swizzle mint serde"]


def run(cmd, cwd, timeout=1800):
    e = dict(os.environ)
    e["CARGO_NET_OFFLINE"] = "true"
    p = subprocess.run(cmd, cwd=cwd, env=e, stdout=subprocess.PIPE, stderr=subprocess.STDOUT, text=True, timeout=timeout)
    return p.returncode, p.stdout


def tests_summary(out):
    passed = sum(int(x) for x in re.findall(r"test result: \w+\. (\d+) passed", out))
    failed = sum(int(x) for x in re.findall(r"test result: \w+\. \d+ passed; (\d+) failed", out))
    return passed, failed


def main():
    pid, src, name = sys.argv[1], sys.argv[2], sys.argv[3]
    patch = os.path.join(src, "patch.diff")
    meta_in = {}
    try:
        meta_in = json.load(open(os.path.join(src, "meta.json")))
    except Exception:
        pass
    wt = tempfile.mkdtemp(prefix="cgben-", dir="/tmp")
    os.rmdir(wt)
    rc, out = run(["git", "-C", "/repo", "worktree", "add", "--detach", "-q", wt, "HEAD"], "/repo")
    if rc != 0:
        print("cannot create worktree", out)
        return 2
    report = {"property": pid, "name": name, "confirmed": False}
    try:
        rc, out = run(["git", "apply", "--check", patch], wt)
        if rc != 0:
            report["error"] = "patch does not apply to /repo HEAD: " + out[-300:]
            print(json.dumps(report))
            return 3
        run(["git", "apply", patch], wt)
        rc_b, _ = run(["cargo", "build", "--offline"] + FEATS, wt)
        rc_t, out_t = run(["cargo", "test", "--workspace", "--no-fail-fast", "--offline"], wt)
        report["build_with_features"] = rc_b
        report["baseline_with_patch"] = {"exit": rc_t, "tests": tests_summary(out_t)}
        report["confirmed"] = rc_b == 0 and rc_t == 0 and report["baseline_with_patch"]["tests"][1] == 0 and report["baseline_with_patch"]["tests"][0] >= 256
    finally:
        run(["git", "-C", "/repo", "worktree", "remove", "--force", wt], "/repo")
        shutil.rmtree(wt, ignore_errors=True)
    if report["confirmed"]:
        dst = os.path.join("/verif/benign", name)
        os.makedirs(dst, exist_ok=True)
        shutil.copy(patch, os.path.join(dst, "patch.diff"))
        meta = {
            "property": pid,
            "kind": meta_in.get("kind", ""),
            "summary": meta_in.get("summary", ""),
            "bit_identical": meta_in.get("bit_identical"),
            "argument": meta_in.get("argument", ""),
            "files": meta_in.get("files", []),
            "author": "independent sub-agent given only the property text and a scratch worktree, asked for a change that keeps the property true",
            "confirmed_by_me": {
                "how": "fresh scratch worktree of /repo HEAD under /tmp (removed afterwards): build with features, unedited baseline suite with the patch",
                "build_with_features_exit": report["build_with_features"],
                "baseline_with_patch": report["baseline_with_patch"],
            },
        }
        with open(os.path.join(dst, "meta.json"), "w") as f:
            json.dump(meta, f, indent=1)
    print(json.dumps(report))
    return 0 if report["confirmed"] else 4


if __name__ == "__main__":
    sys.exit(main())
