#!/usr/bin/env python3
"""Regenerates /verif/MANIFEST.json from the table below (run from /verif)."""
import json
import os

ROOT = os.path.dirname(os.path.dirname(os.path.abspath(__file__)))

# id -> (engines, technique, level text, level note)
P = {
    "C01": ("shadow-q native", "exact-rational shadow execution (cgmath monomorphised at a monitoring scalar) vs array model; native small-integer f32/f64 bit equality; native badly-scaled products vs double-double model",
            "Runs the real generic matrix code at an exact rational scalar on thousands of random matrices/vectors per dimension and compares every element with an independent column-major array model (layout readers, A*v, A*B, embeddings, constructors as transforms, element-wise ops, ring laws, all operand forms). Exact equality: no tolerance, so a refactoring that keeps the property cannot fire and any index/sign/term slip changes a low-degree polynomial and is seen on the first non-trivial case.",
            "Held on the executions explored (small rationals, f32/f64 small integers); i128 arithmetic; not a for-all proof."),
    "C02": ("shadow-q native miri", "exact-rational shadow execution on generic, exactly singular and tiny-determinant matrices; mutation histories vs array model; native scaled integer matrices vs exact i128 determinant, bitwise exchange monitor, f32/f64 twin runs; Miri (Tree Borrows) over swap_*/replace_col/transpose_self/determinant/invert incl. out-of-range indices; thorough: valgrind memcheck + AddressSanitizer",
            "invert() None iff Leibniz determinant = 0 decided exactly on three matrix families, two-sided inverse, determinant laws, transpose laws, swap/replace histories with all index pairs, inverse_transform = invert. Both tiers run the Miri workload over swap_*/replace_col/determinant/invert (out-of-range indices must panic); the thorough tier adds Stacked Borrows, valgrind and AddressSanitizer runs.",
            "Exact rationals in i128; UB only judged by Miri on the workload's executions (Tree Borrows gate)."),
    "C03": ("shadow-q native", "exact-rational shadow execution vs component model; native integer vectors with i128 overflow-free model",
            "All vector operators, 20 ElementWise methods, folds, dot/cross/perp-dot identities for dimensions 1-4 at an exact scalar, and the same component model on i8/u8/i32/u32/i64 where the model proves no overflow (overflow-checks on).",
            "Integer identities only on overflow-free operands; held on explored cases."),
    "C04": ("shadow-q native", "exact-rational shadow execution vs Hamilton multiplication table model; exact rational unit quaternions",
            "Associativity, distributivity, conjugation, norm multiplicativity, inverse, the q*v formula for arbitrary q and the sandwich product / length preservation / action law for exactly unit rational quaternions, all by exact equality.",
            "Exact rationals; held on explored cases."),
    "C05": ("shadow-q native", "exact-rational shadow execution; coverage-directed generation of all four matrix-to-quaternion branches",
            "For exact rational unit quaternions the four representations are compared with the harness' own sandwich-product rotation matrix; composition, orthonormality, det=+1, and the +-q round trip with every one of the four internal cases required to be observed (classes decided from the specification).",
            "Rational unit quaternions make all four square roots rational; held on explored cases."),
    "C06": ("shadow-iv shadow-q native", "rigorous interval shadow execution (enclosure intersection with Rodrigues model) + native f64 containment self-test; native f32/f64 constructors vs f64 Rodrigues on tiny / near-half-turn / many-turn angles; twin runs",
            "Runs the real code at an outward-rounded interval scalar; every constructor's action must intersect the model's Rodrigues enclosure (widths ~1e-12), for Rad and Deg, exact and normalised axes, x/y/z vs axis-angle, 2-D, composition, inverse; the native f64 run must lie inside the enclosures.",
            "IEEE-754 basic ops correctly rounded, glibc trig within 4 ulp; deviations below the enclosure width are not detectable."),
    "C07": ("shadow-iv native", "interval shadow execution vs model Rx*Ry*Rz; extraction monitored on exact rational quaternions incl. gimbal cone and threshold ladder; native f32/f64 from(Euler) vs the crate's own elementary rotations near +-90 degrees and over many turns; twin runs",
            "from(Euler) for four types vs the model product; Euler::from(q) range membership, exact rebuild below |sin y|=0.998, x=0 / y=+-pi/2 / 0.13 bound inside the cone, with inputs on both sides of the threshold down to 1e-9 relative distance.",
            "As C06; zone decided by the model's own sin y, undecidable cases demand nothing."),
    "C08": ("shadow-q native", "exact-rational shadow execution of all five Transform implementations vs function-composition model (affine, projective, zero-translation and scaled-affine 4x4); native similarity transforms in large/small units; twin runs",
            "concat/*/concat_self = composition, one(), transform_vector ignores disp, inverse None/Some by scale or determinant incl. the 1e-6 ladder, inverse_transform_vector, Decomposed->matrix commutes with apply/concat/invert; affine and projective matrices.",
            "Exact rationals; band 0<|scale|<=1e-6 left open as in the statement."),
    "C09": ("shadow-q shadow-iv native", "exact shadow execution on exact look-at configurations + interval shadow execution on arbitrary ones; every look_* entry point incl. deprecated spellings",
            "Every constructor's rotation must be rigid with det +1, send d to -+z|d| per handedness and up into x=0,y>0, send eye to the origin, and agree with the others of its handedness; 2-D variants likewise.",
            "The statement's conditions determine the expected rotation uniquely; handedness-free deprecated spellings accept either sign."),
    "C10": ("shadow-q shadow-iv native", "exact shadow execution (ortho, frustum) / interval shadow execution (perspective, planar) on view-volume corners; panic-event monitor on f32/f64",
            "Corner and interior points of the view volume through transform_point vs the clip cube; perspective vs frustum of the symmetric window; planar window, planes and focal point; each stated precondition violated alone must panic, valid tuples must not.",
            "Panics observed by catch_unwind; tan within 4 ulp."),
    "C11": ("shadow-q shadow-iv native", "exact shadow execution on rational-length vectors + interval shadow execution elsewhere; native scaled integer vectors and closed-form nearly-parallel angles",
            "magnitude/distance/normalize/normalize_to/project_on/angle identities for Vector1-4, Quaternion, Point1-3, 2-D signed angle against a model rotation.",
            "acos evaluated over the reals (clipped enclosure)."),
    "C12": ("shadow-q native", "exact-rational shadow execution vs component model; native integer points (incl. midpoint with truncating division); midpoint near the end of the float range",
            "All affine-space laws verbatim, 20 ElementWise methods, midpoint, centroid of 1-9 points, homogeneous round trip for any k != 0; additive laws on integer scalars without overflow.",
            "Exact rationals; held on explored cases."),
    "C13": ("shadow-q shadow-iv native", "exact shadow execution for modular clauses, interval shadow execution for trigonometry, native f32/f64 range/round-trip monitors (thorough: every finite f32 bit pattern)",
            "normalize/normalize_signed/opposite/bisect/turn_div_k/arithmetics exactly in both units; trig plumbing vs interval functions of the radian measure; native round trip <= 4 eps, constants, range membership incl. adversarial values.",
            "Round-trip bound on the normal range only."),
    "C14": ("shadow-q shadow-iv native", "exact shadow execution for lerp; interval shadow execution for nlerp/slerp with threshold ladder",
            "lerp exactly a+(b-a)t on 8 types; nlerp/slerp unit, in-plane (Gram determinant), on the shorter arc, endpoints, constant angular speed (exact below 0.9995, 1e-5 above).",
            "Angles by 2*atan2(|p-q|,|p+q|); a.b~0 sign not judged."),
    "C15": ("shadow-q shadow-iv native", "exact shadow execution on exact arcs; interval shadow execution on general pairs and ladders; native f64 monitor inside the tolerance zones",
            "between_vectors (Quaternion, Basis3, Basis2) and from_arc: r(a)=b, angle, axis, shorter way, 2-D direction, opposite vectors and fallback axis, exactly h on exact arcs.",
            "Inside the stated zones only closeness is demanded."),
    "C16": ("native miri", "value-exact native monitors over all element types and views; exhaustive 550-name swizzle table; Miri (Tree Borrows) over every unsafe view; thorough: valgrind memcheck + AddressSanitizer on the same workload",
            "Every conversion/view/index form on distinct tags for 12 primitives and non-numeric element types, writes through each mutable view read through all others, panic events for out-of-range indices, all 550 swizzles by an independent generator, and the Miri workload.",
            "Default struct/tuple layout only; Stacked Borrows advisory."),
    "C17": ("native", "bit-equality of operator spellings on native types; scalar-left component model for 12 primitives; random straight-line programs in two spellings",
            "All by-value/by-ref/assign forms agree bitwise; scalar on the left applies the primitive op per component; Sum/Product equal left folds; random programs give identical register files.",
            "Operands chosen overflow-free."),
    "C18": ("native", "per-component-position perturbation sweep vs the scalar approx crate as oracle",
            "For each compound type and each component position a perturbation just inside/outside tolerance must flip abs_diff_eq/relative_eq/ulps_eq exactly as the scalar comparison does; predicates vs their definitions with one perturbed element at every position.",
            "approx crate on f32/f64 trusted."),
    "C19": ("native", "differential check against num_traits::NumCast per component over 12x12 scalar pairs with boundary values planted per position",
            "cast() is None iff some component cast is None, else component-wise NumCast, for vectors, points, matrices, quaternions.",
            "num_traits::NumCast trusted."),
    "C20": ("native", "recording serde Serializer/Deserializer (bit-exact call stream) + serde_json carrier; field permutation/omission/unknown-field events",
            "Round trip bit-for-bit for every serializable type, field names as stated, Decomposed accepted in all 6 orders, rejected on each omission and on an unknown field.",
            "serde data model; JSON only on text-exact values."),
}

ENGINES = [
    {"name": "shadow-q", "path": "harness/src/q.rs", "kind_free_text": "exact rational shadow scalar: real cgmath generics monomorphised at a monitoring scalar; exact-equality oracle; poison on inexact/overflow",
     "serves_properties": [k for k, v in P.items() if "shadow-q" in v[0]]},
    {"name": "shadow-iv", "path": "harness/src/iv.rs", "kind_free_text": "outward-rounded interval shadow scalar; enclosure-intersection oracle; ambiguous comparisons discard the case; native f64 containment self-test",
     "serves_properties": [k for k, v in P.items() if "shadow-iv" in v[0]]},
    {"name": "native", "path": "harness/src/props", "kind_free_text": "monitors on the real primitive scalar types: value-exact component models, bitwise spelling equality, panic events, serde data-model recorder, and accuracy monitors (f32-vs-f64 twin runs of the same generic code, known-exact-answer inputs) with tolerances >= 100x the observed rounding error",
     "serves_properties": [k for k, v in P.items() if "native" in v[0]]},
    {"name": "feature-matrix", "path": "featmat/src/main.rs", "kind_free_text": "differential run of a fixed battery of ~120 core operations (tagged by property, none feature-gated) built against every subset of cgmath's cargo features; output must equal the one under the monitors' feature set; computed once per content hash of /repo/src",
     "serves_properties": [k for k in P if k != "C20"]},
    {"name": "miri", "path": "miri/src/main.rs", "kind_free_text": "cargo +nightly miri run (-Zmiri-tree-borrows gate, Stacked Borrows advisory) over every unsafe view / swap / get_unchecked; thorough tier: the same workload natively under valgrind memcheck and AddressSanitizer; std unsafe-precondition checks (debug assertions) in every native monitor",
     "serves_properties": [k for k, v in P.items() if "miri" in v[0]]},
]


def main():
    have = set()
    for k in P:
        if os.path.exists(os.path.join(ROOT, "harness", "src", "bin", k.lower() + ".rs")):
            have.add(k)
    checks = []
    na = []
    for k, (eng, tech, text, note) in sorted(P.items()):
        if k not in have:
            na.append({"property_id": k, "reason": "monitor not built yet (planned, see DESIGN.md section 5)"})
            continue
        checks.append({
            "property_id": k,
            "quick_cmd": f"./check {k} --tier quick",
            "thorough_cmd": f"./check {k} --tier thorough",
            "evidence_file": f"/verif/evidence/{k}.json",
            "replay_cmd_template": f"./check {k} --replay {{path}}",
            "engine": eng + ("" if k == "C20" else " feature-matrix"),
            "level_claimed": {"category": "exploration", "text": text, "design_ref": f"DESIGN.md §5 {k}"},
            "level_note": note,
            "technique": "runtime monitoring: " + tech,
        })
    m = {
        "version": 1,
        "setup_cmd": "./setup.sh",
        "hooks": {
            "guard": "cgmath_verif",
            "enable": "no hooks needed: the monitors observe through the scalar type parameter (shadow scalars), public fields, panics, serde call streams and Miri; the guard name is reserved and unused",
            "baseline_off_cmd": "cd /repo && cargo test --workspace --no-fail-fast --offline",
            "source_commits": [],
            "add_only": True,
        },
        "engines": ENGINES,
        "checks": checks,
        "not_applicable": na,
        "notes": "All checks are ./check <ID>; exit 0 held / 1 VIOLATION / 2 inconclusive. /repo carries unguarded 'fix:' commits for the genuine defects listed as 'fixed:' in known_findings.txt.",
    }
    with open(os.path.join(ROOT, "MANIFEST.json"), "w") as f:
        json.dump(m, f, indent=1)
    print(f"{len(checks)} checks, {len(na)} not yet claimed")


if __name__ == "__main__":
    main()
