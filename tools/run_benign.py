#!/usr/bin/env python3
"""False-alarm trial: applies each property-preserving change under /verif/benign/<name>/patch.diff
to /repo (restored straight afterwards), rebuilds every monitor from the patched tree, runs ALL
twenty checks (quick tier, several seeds) and records every exit code in the change's meta.json.
A change the checks are silent on shows exit 0 everywhere.  Foreground use only.
  tools/run_benign.py [--own-only] [--seeds 1,2] [name-prefix ...]"""
import json
import os
import subprocess
import sys

ROOT = "/verif/benign"
IDS = ["C%02d" % i for i in range(1, 21)]


def sh(cmd, cwd, timeout=6000, env=None):
    e = dict(os.environ)
    e["CARGO_NET_OFFLINE"] = "true"
    if env:
        e.update(env)
    p = subprocess.run(cmd, cwd=cwd, stdout=subprocess.PIPE, stderr=subprocess.STDOUT, text=True, timeout=timeout, env=e)
    return p.returncode, p.stdout


def main():
    args = sys.argv[1:]
    own_only = "--own-only" in args
    seeds = ["1"]
    if "--seeds" in args:
        seeds = args[args.index("--seeds") + 1].split(",")
        del args[args.index("--seeds"): args.index("--seeds") + 2]
    only = None
    if "--checks" in args:
        only = args[args.index("--checks") + 1].split(",")
        del args[args.index("--checks"): args.index("--checks") + 2]
    args = [a for a in args if not a.startswith("--")]
    names = sorted(os.listdir(ROOT))
    if args:
        names = [n for n in names if any(n.startswith(a) for a in args)]
    keep = {}
    for pid in IDS:
        ev = f"/verif/evidence/{pid}.json"
        if os.path.exists(ev):
            keep[pid] = open(ev).read()
    for n in names:
        d = os.path.join(ROOT, n)
        mp = os.path.join(d, "meta.json")
        patch = os.path.join(d, "patch.diff")
        if not os.path.exists(patch):
            continue
        meta = json.load(open(mp)) if os.path.exists(mp) else {}
        if sh(["git", "diff", "--quiet"], "/repo")[0] != 0:
            print("REPO DIRTY")
            return 2
        if sh(["git", "apply", "--check", patch], "/repo")[0] != 0:
            print(n, "patch does not apply")
            continue
        sh(["git", "apply", patch], "/repo")
        # one parallel build of every monitor from the patched tree (the per-check builds are then no-ops)
        brc, bout = (0, "") if (only or own_only) else sh(["cargo", "build", "--release", "--offline", "--quiet", "--bins"], "/verif/harness")
        results = {}
        alarms = []
        try:
            ids = [meta.get("property", n[:3])] if own_only else (only or IDS)
            for pid in ids:
                for seed in seeds:
                    rc, out = sh(["./check", pid, "--tier", "quick", "--seed", seed], "/verif")
                    results[f"{pid}@{seed}"] = rc
                    if rc != 0:
                        lines = [l.strip() for l in out.splitlines() if l.startswith(("VIOLATION", "  clause", "INCONCLUSIVE"))][:3]
                        alarms.append({"check": pid, "seed": seed, "exit": rc, "lines": lines})
        finally:
            sh(["git", "checkout", "--", "."], "/repo")
        if only or own_only:
            # partial re-run (after a monitor was extended): merge into the recorded trial
            prev = meta.get("silence_trial", {})
            meta["silence_trial"] = {"checks_run": sorted(set(prev.get("checks_run", [])) | set(results)),
                                     "monitors_build_against_the_change": prev.get("monitors_build_against_the_change", True),
                                     "all_exit_0": prev.get("all_exit_0", True) and not alarms, "alarms": prev.get("alarms", []) + alarms,
                                     "rerun_after_monitor_extension": sorted(results)}
        else:
            meta["silence_trial"] = {"checks_run": sorted(results), "monitors_build_against_the_change": brc == 0, "all_exit_0": not alarms, "alarms": alarms}
        json.dump(meta, open(mp, "w"), indent=1)
        print(n, "SILENT" if not alarms else "ALARM " + json.dumps(alarms)[:600], flush=True)
    # rebuild everything from the clean tree and put the clean-tree evidence back
    sh(["cargo", "build", "--release", "--offline", "--quiet", "--bins"], "/verif/harness")
    for pid, txt in keep.items():
        open(f"/verif/evidence/{pid}.json", "w").write(txt)
    return 0


if __name__ == "__main__":
    sys.exit(main())
