#!/usr/bin/env python3
"""Confirms a seeded change independently and files it under /verif/seeded/.

  tools/confirm_seed.py <ID> <dir with patch.diff demo.rs meta.json> <name>

In a fresh scratch worktree of /repo (outside /repo and /verif, removed afterwards):
  (a) the patch applies and the crate builds with features "swizzle mint serde",
  (b) the unedited baseline suite passes with the patch (cargo test --workspace, default features,
      the command of BASELINE.json),
  (c) the demo fails with the patch and passes without it.
Then runs ./check <ID> against /repo with the patch applied (and restores /repo), and writes
/verif/seeded/<name>/{patch.diff, demo.rs, meta.json}.
"""
import json
import os
import re
import shutil
import subprocess
import sys
import tempfile

FEATS = ["--features", "swizzle mint serde"]


def run(cmd, cwd, timeout=1800):
    e = dict(os.environ)
    e["CARGO_NET_OFFLINE"] = "true"
    p = subprocess.run(cmd, cwd=cwd, env=e, stdout=subprocess.PIPE, stderr=subprocess.STDOUT, text=True, timeout=timeout)
    return p.returncode, p.stdout


def tests_summary(out):
    passed = sum(int(x) for x in re.findall(r"test result: \w+\. (\d+) passed", out))
    failed = sum(int(x) for x in re.findall(r"test result: \w+\. \d+ passed; (\d+) failed", out))
    return passed, failed


def main():
    pid, src, name = sys.argv[1], sys.argv[2], sys.argv[3]
    patch = os.path.join(src, "patch.diff")
    demo = os.path.join(src, "demo.rs")
    meta_in = {}
    try:
        meta_in = json.load(open(os.path.join(src, "meta.json")))
    except Exception:
        pass
    wt = tempfile.mkdtemp(prefix="cgseed-", dir="/tmp")
    os.rmdir(wt)
    rc, out = run(["git", "-C", "/repo", "worktree", "add", "--detach", "-q", wt, "HEAD"], "/repo")
    if rc != 0:
        print("cannot create worktree", out)
        return 2
    report = {"property": pid, "confirmed": False}
    try:
        rc, out = run(["git", "apply", "--check", patch], wt)
        if rc != 0:
            report["error"] = "patch does not apply to /repo HEAD: " + out[-300:]
            print(json.dumps(report))
            return 3
        # demo on the clean tree first
        shutil.copy(demo, os.path.join(wt, "tests", "zz_seed_demo.rs"))
        # a demo may name the exact feature set it needs on its first line ("// features: swizzle");
        # seeds that live behind one feature combination only show under that combination
        demo_feats = FEATS
        first = open(demo).readline()
        m = re.match(r"//\s*features:\s*([^(]*)", first)
        if m:
            words = [w for w in re.split(r"[\s,]+", m.group(1).strip()) if w in ("swizzle", "mint", "serde", "bytemuck", "rand")]
            if words or re.search(r"\bnone\b|\bdefault\b", m.group(1)):
                demo_feats = ["--features", " ".join(words)] if words else []
                report["demo_features"] = " ".join(words) or "none"
        demo_cmd = ["cargo", "test", "--offline", "--test", "zz_seed_demo"] + demo_feats
        if os.environ.get("SEED_MIRI") == "1":
            # memory-safety seeds: the demonstration is judged by Miri (Tree Borrows), not by values
            demo_cmd = ["cargo", "+nightly", "miri", "test", "--offline", "--test", "zz_seed_demo"] + demo_feats
            os.environ["MIRIFLAGS"] = "-Zmiri-tree-borrows"
            report["demo_runner"] = "cargo +nightly miri test (MIRIFLAGS=-Zmiri-tree-borrows)"
        rc_clean, out_clean = run(demo_cmd, wt)
        report["demo_clean_tree"] = {"exit": rc_clean, "tests": tests_summary(out_clean)}
        run(["git", "apply", patch], wt)
        rc_b, out_b = run(["cargo", "build", "--offline"] + FEATS, wt)
        report["build_with_features"] = rc_b
        os.remove(os.path.join(wt, "tests", "zz_seed_demo.rs"))
        rc_t, out_t = run(["cargo", "test", "--workspace", "--no-fail-fast", "--offline"], wt)
        report["baseline_with_patch"] = {"exit": rc_t, "tests": tests_summary(out_t)}
        shutil.copy(demo, os.path.join(wt, "tests", "zz_seed_demo.rs"))
        rc_m, out_m = run(demo_cmd, wt)
        report["demo_with_patch"] = {"exit": rc_m, "tests": tests_summary(out_m)}
        ok = (rc_clean == 0 and rc_b == 0 and rc_t == 0 and report["baseline_with_patch"]["tests"][1] == 0
              and report["baseline_with_patch"]["tests"][0] >= 256 and rc_m != 0)
        report["confirmed"] = ok
    finally:
        run(["git", "-C", "/repo", "worktree", "remove", "--force", wt], "/repo")
        shutil.rmtree(wt, ignore_errors=True)
    # detection by the check (against /repo itself, restored afterwards)
    rc_dirty, _ = run(["git", "diff", "--quiet"], "/repo")
    det = {}
    if rc_dirty == 0 and os.environ.get("SEED_DETECT") == "1":
        run(["git", "apply", patch], "/repo")
        try:
            rc_c, out_c = run(["./check", pid, "--tier", "quick"], "/verif", timeout=3000)
        finally:
            run(["git", "checkout", "--", "."], "/repo")
        first = [l for l in out_c.splitlines() if l.startswith("VIOLATION") or l.startswith("  clause") or l.startswith("INCONCLUSIVE")][:2]
        det = {"check": f"./check {pid} --tier quick", "exit": rc_c, "first_lines": first}
    report["detection"] = det
    if report["confirmed"]:
        dst = os.path.join("/verif/seeded", name)
        os.makedirs(dst, exist_ok=True)
        shutil.copy(patch, os.path.join(dst, "patch.diff"))
        shutil.copy(demo, os.path.join(dst, "demo.rs"))
        meta = {
            "property": pid,
            "summary": meta_in.get("summary", ""),
            "needs": meta_in.get("needs", ""),
            "files": meta_in.get("files", []),
            "author": "independent sub-agent given only the property text and a scratch worktree",
            "confirmed_by_me": {
                "how": "fresh scratch worktree of /repo HEAD under /tmp (removed afterwards): demo on clean tree, build with features, baseline suite with patch, demo with patch" + ("; demo run under " + report["demo_runner"] if report.get("demo_runner") else ""),
                "demo_clean_tree": report["demo_clean_tree"],
                "build_with_features_exit": report["build_with_features"],
                "baseline_with_patch": report["baseline_with_patch"],
                "demo_with_patch": report["demo_with_patch"],
            },
            "detected_by": det,
        }
        with open(os.path.join(dst, "meta.json"), "w") as f:
            json.dump(meta, f, indent=1)
    print(json.dumps(report))
    return 0 if report["confirmed"] else 4


if __name__ == "__main__":
    sys.exit(main())
