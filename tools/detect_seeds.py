#!/usr/bin/env python3
"""Runs ./check <ID> against every seeded change in /verif/seeded (applied to /repo, restored
straight afterwards) and records the outcome in each meta.json.  Foreground use only.
  tools/detect_seeds.py [name-prefix ...]"""
import json, os, subprocess, sys
ROOT = "/verif/seeded"
def sh(cmd, cwd, timeout=3000):
    p = subprocess.run(cmd, cwd=cwd, stdout=subprocess.PIPE, stderr=subprocess.STDOUT, text=True, timeout=timeout)
    return p.returncode, p.stdout
names = sorted(os.listdir(ROOT))
if len(sys.argv) > 1:
    names = [n for n in names if any(n.startswith(a) for a in sys.argv[1:])]
for n in names:
    d = os.path.join(ROOT, n)
    mp = os.path.join(d, "meta.json")
    if not os.path.exists(mp):
        continue
    meta = json.load(open(mp))
    pid = meta["property"]
    if sh(["git", "diff", "--quiet"], "/repo")[0] != 0:
        print("REPO DIRTY"); sys.exit(2)
    if sh(["git", "apply", "--check", os.path.join(d, "patch.diff")], "/repo")[0] != 0:
        print(n, "patch does not apply"); continue
    sh(["git", "apply", os.path.join(d, "patch.diff")], "/repo")
    ev = f"/verif/evidence/{pid}.json"
    keep = open(ev).read() if os.path.exists(ev) else None
    try:
        rc, out = sh(["./check", pid, "--tier", "quick"], "/verif")
    finally:
        sh(["git", "checkout", "--", "."], "/repo")
        sh(["cargo", "build", "--release", "--offline", "--quiet", "--bin", "cgv-" + pid.lower()], "/verif/harness")
        if keep is not None:
            open(ev, "w").write(keep)
    first = [l.strip() for l in out.splitlines() if l.startswith("VIOLATION") or l.startswith("  clause") or l.startswith("INCONCLUSIVE")][:2]
    meta["detected_by"] = {"check": f"./check {pid} --tier quick", "exit": rc, "detected": rc == 1, "first_lines": first}
    json.dump(meta, open(mp, "w"), indent=1)
    print(n, "exit", rc, first[:1])
