//! Feature-independence battery: prints one line per core operation, tagged with the property
//! it belongs to.  None of these operations is feature-gated, so the output must be identical
//! whichever cargo features cgmath was built with (`./check` builds this crate against every
//! subset and compares the lines).  Values are printed with `{:?}` (shortest round-trip form).

use cgmath::prelude::*;
use cgmath::*;

macro_rules! p {
    ($prop:expr, $name:expr, $v:expr) => {
        println!("{} {} = {:?}", $prop, $name, $v)
    };
}

fn battery<T: BaseFloat + std::fmt::Debug>(ty: &str) {
    let f = |x: f64| T::from(x).unwrap();
    let v2 = Vector2::new(f(1.5), f(-2.25));
    let v3 = Vector3::new(f(1.5), f(-2.25), f(0.75));
    let w3 = Vector3::new(f(-0.5), f(4.0), f(2.5));
    let v4 = Vector4::new(f(1.5), f(-2.25), f(0.75), f(3.0));
    let p3 = Point3::new(f(0.25), f(-1.0), f(2.0));
    let q3 = Point3::new(f(3.0), f(0.5), f(-4.0));
    let m2 = Matrix2::new(f(2.0), f(1.0), f(-1.0), f(3.0));
    let m3 = Matrix3::new(f(2.0), f(1.0), f(0.0), f(-1.0), f(3.0), f(0.5), f(0.25), f(0.0), f(1.5));
    let m4 = Matrix4::new(
        f(2.0), f(1.0), f(0.0), f(0.5), f(-1.0), f(3.0), f(0.5), f(0.0), f(0.25), f(0.0), f(1.5), f(-0.5), f(1.0), f(-2.0), f(0.75), f(1.0),
    );
    let axis = Vector3::new(f(0.6), f(0.0), f(0.8));
    let ang = Rad(f(0.7));
    let q = Quaternion::from_axis_angle(axis, ang);
    let r = Quaternion::from_axis_angle(Vector3::new(f(0.0), f(1.0), f(0.0)), Rad(f(-1.1)));
    let t = |n: &str| format!("{ty} {n}");
    // C01 / C02
    p!("C01", t("m4*m4"), m4 * m4);
    p!("C01", t("m3*v3"), m3 * v3);
    p!("C01", t("from_translation*from_scale"), Matrix4::from_translation(v3) * Matrix4::from_scale(f(2.0)));
    p!("C01", t("m4.transpose.row(1)"), m4.transpose().row(1));
    p!("C02", t("m4.invert"), m4.invert());
    p!("C02", t("m3.invert"), m3.invert());
    p!("C02", t("m2.invert"), m2.invert());
    p!("C02", t("determinants"), (m2.determinant(), m3.determinant(), m4.determinant()));
    // C03
    p!("C03", t("v3 ops"), (v3 + w3, v3 - w3, v3 * f(2.0), v3 / f(2.0), v3.dot(w3), v3.cross(w3), v2.perp_dot(Vector2::new(f(0.5), f(2.0)))));
    p!("C03", t("elementwise"), (v3.mul_element_wise(w3), v3.div_element_wise(w3), v4.sum(), v4.product()));
    // C04 / C05
    p!("C04", t("q*r"), q * r);
    p!("C04", t("q*v"), q * v3);
    p!("C04", t("invert, conjugate"), (Rotation::invert(&q), q.conjugate()));
    p!("C05", t("Matrix3::from(q)"), Matrix3::from(q));
    p!("C05", t("Matrix4::from(q)"), Matrix4::from(q));
    p!("C05", t("Basis3::from(q) rotate"), Basis3::from(q).rotate_vector(v3));
    p!("C05", t("Quaternion::from(Matrix3)"), Quaternion::from(Matrix3::from(q * r)));
    // C06
    p!("C06", t("Matrix3::from_axis_angle"), Matrix3::from_axis_angle(axis, ang));
    p!("C06", t("Matrix4::from_axis_angle"), Matrix4::from_axis_angle(axis, ang));
    p!("C06", t("Basis3::from_axis_angle"), Basis3::from_axis_angle(axis, ang).rotate_vector(v3));
    p!("C06", t("Quaternion::from_axis_angle"), q);
    p!("C06", t("from_angle_xyz"), (Matrix3::from_angle_x(ang), Matrix3::from_angle_y(ang), Matrix4::from_angle_z(ang)));
    p!("C06", t("quaternion from_angle_xyz"), (Quaternion::from_angle_x(ang), Quaternion::from_angle_y(ang), Quaternion::from_angle_z(ang)));
    p!("C06", t("2-D"), (Matrix2::from_angle(ang), Basis2::from_angle(ang).rotate_vector(v2)));
    p!("C06", t("degrees"), Matrix3::from_axis_angle(axis, Deg(f(40.0))));
    // C07
    let e = Euler::new(Rad(f(0.3)), Rad(f(-0.7)), Rad(f(1.1)));
    p!("C07", t("from Euler"), (Matrix3::from(e), Matrix4::from(e), Quaternion::from(e), Basis3::from(e).rotate_vector(v3)));
    p!("C07", t("Euler::from(q)"), Euler::from(q * r));
    // C08
    let d = Decomposed { scale: f(1.5), rot: q, disp: w3 };
    let d2 = Decomposed { scale: f(0.5), rot: r, disp: v3 };
    p!("C08", t("Decomposed point/vector"), (d.transform_point(p3), d.transform_vector(v3)));
    p!("C08", t("Decomposed concat"), d.concat(&d2).transform_point(p3));
    p!("C08", t("Decomposed inverse"), d.inverse_transform().map(|i| i.transform_point(p3)));
    p!("C08", t("Matrix4::from(Decomposed)"), Matrix4::from(d));
    p!("C08", t("Matrix4 transform_point/vector"), (m4.transform_point(p3), m4.transform_vector(v3)));
    p!("C08", t("Matrix3 transform (3-D)"), (Transform::<Point3<T>>::transform_point(&m3, p3), Transform::<Point3<T>>::transform_vector(&m3, v3)));
    p!("C08", t("Matrix3 transform (2-D)"), (Transform::<Point2<T>>::transform_point(&m3, Point2::new(p3.x, p3.y)), Transform::<Point2<T>>::transform_vector(&m3, v2)));
    p!("C08", t("Matrix4 inverse_transform"), Transform::<Point3<T>>::inverse_transform(&m4));
    p!("C08", t("Matrix4 concat"), Transform::<Point3<T>>::concat(&m4, &Matrix4::from(d)));
    // C09
    let up = Vector3::new(f(0.1), f(1.0), f(-0.2));
    p!("C09", t("Matrix4 look_to_rh/lh"), (Matrix4::look_to_rh(p3, w3, up), Matrix4::look_to_lh(p3, w3, up)));
    p!("C09", t("Matrix4 look_at_rh/lh"), (Matrix4::look_at_rh(p3, q3, up), Matrix4::look_at_lh(p3, q3, up)));
    p!("C09", t("Matrix3 look_to_rh/lh"), (Matrix3::look_to_rh(w3, up), Matrix3::look_to_lh(w3, up)));
    p!("C09", t("Quaternion/Basis3 look_at"), (<Quaternion<T> as Rotation>::look_at(w3, up), <Basis3<T> as Rotation>::look_at(w3, up).rotate_vector(v3)));
    let dl: Decomposed<Vector3<T>, Quaternion<T>> = Transform::look_at_rh(p3, q3, up);
    let dr: Decomposed<Vector3<T>, Quaternion<T>> = Transform::look_at_lh(p3, q3, up);
    p!("C09", t("Decomposed look_at_rh/lh"), (dl, dr));
    p!("C09", t("Matrix2/Basis2 look_at"), (Matrix2::look_at(v2, Vector2::new(f(0.0), f(1.0))), <Basis2<T> as Rotation>::look_at(v2, Vector2::new(f(0.0), f(1.0))).rotate_vector(v2)));
    // C10
    p!("C10", t("perspective"), perspective(Deg(f(60.0)), f(1.5), f(0.1), f(100.0)));
    p!("C10", t("frustum"), frustum(f(-1.0), f(2.0), f(-0.5), f(1.5), f(0.5), f(50.0)));
    p!("C10", t("ortho"), ortho(f(-1.0), f(2.0), f(-0.5), f(1.5), f(0.5), f(50.0)));
    p!("C10", t("planar"), planar(Deg(f(40.0)), f(1.25), f(3.0), f(1.0), f(20.0)));
    // C11
    p!("C11", t("lengths"), (v3.magnitude(), v3.magnitude2(), v3.normalize(), v3.normalize_to(f(2.0)), p3.distance(q3), p3.distance2(q3)));
    p!("C11", t("angles"), (v3.angle(w3), v2.angle(Vector2::new(f(0.5), f(2.0))), v4.angle(Vector4::new(f(0.5), f(2.0), f(-1.0), f(0.25))), v3.project_on(w3)));
    p!("C11", t("quaternion"), (q.magnitude(), (q * f(3.0)).normalize()));
    // C12
    p!("C12", t("points"), (p3 + v3, p3 - q3, p3.midpoint(q3), Point3::centroid(&[p3, q3, p3 + w3]), p3.to_homogeneous(), Point3::from_homogeneous(v4), p3.dot(v3)));
    // C13
    let a = Deg(f(-450.0));
    p!("C13", t("angles"), (a.normalize(), a.normalize_signed(), a.opposite(), Deg(f(10.0)).bisect(Deg(f(80.0))), Rad::from(a), Deg::from(ang)));
    p!("C13", t("trig"), (ang.sin(), ang.cos(), ang.tan(), ang.cot(), ang.sec(), ang.csc(), Rad::atan2(f(1.0), f(-2.0)), Deg::asin(f(0.5))));
    // C14
    p!("C14", t("interpolation"), (v3.lerp(w3, f(0.25)), q.nlerp(r, f(0.25)), q.slerp(r, f(0.25)), q.slerp(q * f(1.0), f(0.5))));
    // C15
    let (ua, ub) = (v3.normalize(), w3.normalize());
    p!("C15", t("between_vectors"), (<Quaternion<T> as Rotation>::between_vectors(ua, ub), <Basis3<T> as Rotation>::between_vectors(ua, ub).rotate_vector(ua), <Basis2<T> as Rotation>::between_vectors(v2.normalize(), Vector2::new(f(0.6), f(0.8))).rotate_vector(v2)));
    p!("C15", t("from_arc"), (Quaternion::from_arc(v3, w3, None), Quaternion::from_arc(v3, -v3, Some(axis)), Quaternion::from_arc(v3, -v3, None)));
    // C16
    let arr: [T; 4] = v4.into();
    let tup: (T, T, T) = v3.into();
    let mut sw = v4;
    sw.swap_elements(0, 3);
    p!("C16", t("views"), (arr, tup, v4.truncate(), v4.truncate_n(1), v3.extend(f(9.0)), v3.truncate(), v2.extend(f(7.0)), sw, v3.map(|x| x + x), m3[1][2], q[3]));
    let flat: &[T; 16] = m4.as_ref();
    p!("C16", t("matrix flat"), flat);
    // C17
    p!("C17", t("spellings"), (&v3 + &w3, &m3 * &m3, &q * &r, -v3, [v3, w3].iter().sum::<Vector3<T>>(), [q, r].iter().product::<Quaternion<T>>()));
    // C18
    p!("C18", t("predicates"), (m3.is_invertible(), m3.is_symmetric(), Matrix3::<T>::identity().is_identity(), m3.is_diagonal(), v3.is_perpendicular(w3), v3.is_finite(), m4.is_finite(), Matrix3::from_value(f(0.0)).is_zero()));
    // C19
    p!("C19", t("casts"), (v3.cast::<i32>(), p3.cast::<u8>(), m3.cast::<f32>(), q.cast::<f64>(), v4.cast::<i8>(), Vector3::new(f(300.0), f(1.0), f(2.0)).cast::<u8>()));
}

fn main() {
    battery::<f64>("f64");
    battery::<f32>("f32");
    // integer element types
    let v = Vector4::new(7i32, -3, 12, 5);
    let w = Vector4::new(2i32, 9, -4, 1);
    p!("C03", "i32 vector ops", (v + w, v - w, v * 3, v / 2, v % 5, v.dot(w), v.sum(), v.product()));
    p!("C16", "i32 views", (v.truncate(), v.truncate_n(2), v.truncate().truncate().extend(4), Vector3::new(1u8, 2, 3).extend(4)));
    p!("C12", "i32 points", (Point3::new(4i32, 9, -6).midpoint(Point3::new(-2, 3, 8)), Point3::new(4i32, 9, -6) + Vector3::new(1, 1, 1), Point3::new(7i64, 2, 3).to_homogeneous()));
    p!("C19", "integer casts", (v.cast::<u8>(), v.cast::<i64>(), Point3::new(300i32, 2, 1).cast::<u8>(), Vector2::new(-1i8, 5).cast::<u32>(), Point2::new(12.75f32, -3.25).cast::<i32>(), Point3::new(1u64 << 60, 2, 3).cast::<f32>()));
}
