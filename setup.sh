#!/bin/sh
# Builds the monitors from files on disk only (offline).  The Miri workload is
# built on first use by ./check (it needs the nightly toolchain's sysroot).
set -e
cd "$(dirname "$0")/harness"
CARGO_NET_OFFLINE=true cargo build --release --offline --quiet --bins
echo "harness built"
