//! Generates the swizzle table used by the `cgv-swz` binary: one call per
//! swizzle name, enumerated here by plain nested loops over the component
//! letters (independent of cgmath's own build script).
use std::fmt::Write as _;

fn words(letters: &str, max_len: usize) -> Vec<String> {
    let ls: Vec<char> = letters.chars().collect();
    let mut out = vec![];
    let mut cur: Vec<String> = vec![String::new()];
    for _ in 0..max_len {
        let mut next = vec![];
        for w in &cur {
            for l in &ls {
                let mut s = w.clone();
                s.push(*l);
                next.push(s);
            }
        }
        out.extend(next.iter().cloned());
        cur = next;
    }
    out
}

fn main() {
    let out_dir = std::env::var("OUT_DIR").unwrap();
    let mut src = String::new();
    let mut total = 0usize;
    let kinds: [(&str, &str, &str, usize, &str); 7] = [
        ("Vector4", "xyzw", "swz_vector4", 4, "cgmath::BaseNum"),
        ("Vector3", "xyz", "swz_vector3", 4, "cgmath::BaseNum"),
        ("Vector2", "xy", "swz_vector2", 4, "cgmath::BaseNum"),
        ("Vector1", "x", "swz_vector1", 4, "cgmath::BaseNum"),
        ("Point3", "xyz", "swz_point3", 3, "Copy"),
        ("Point2", "xy", "swz_point2", 3, "Copy"),
        ("Point1", "x", "swz_point1", 3, "Copy"),
    ];
    for (ty, letters, fname, max_len, bound) in kinds {
        let n = letters.len();
        let ws = words(letters, max_len);
        total += ws.len();
        writeln!(
            src,
            "pub fn {fname}<S: {bound} + PartialEq + std::fmt::Debug>(v: cgmath::{ty}<S>, c: [S; {n}], rec: &mut Rec) {{"
        )
        .unwrap();
        for w in &ws {
            let idx: Vec<String> = w
                .chars()
                .map(|ch| format!("c[{}]", "xyzw".find(ch).unwrap()))
                .collect();
            writeln!(
                src,
                "    {{ let r: [S; {len}] = v.{w}().into(); rec.check(\"{ty}::{w}\", &r, &[{exp}]); }}",
                len = w.len(),
                exp = idx.join(", ")
            )
            .unwrap();
        }
        writeln!(src, "}}").unwrap();
        writeln!(src, "pub const {}_COUNT: usize = {};", fname.to_uppercase(), ws.len()).unwrap();
    }
    writeln!(src, "pub const SWIZZLE_NAMES: usize = {total};").unwrap();
    std::fs::write(format!("{out_dir}/swizzle_table.rs"), src).unwrap();
    println!("cargo:rerun-if-changed=build.rs");
}
