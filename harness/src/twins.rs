//! Twin-run (f32 vs f64) consistency monitors for the properties whose code is
//! generic over the float type.  See `twin.rs` for the idea and DESIGN §10.5.

use cgmath::prelude::*;
use cgmath::{
    Basis2, Basis3, BaseFloat, Decomposed, Deg, Euler, Matrix2, Matrix3, Matrix4, Point3, Quaternion, Rad, Vector2, Vector3,
};
use serde_json::json;

use crate::fw::{catch, Extra, RunCfg};
use crate::gen::{Rng, Tier};
use crate::twin::{short, Twin};

fn t<T: BaseFloat>(x: f64) -> T {
    T::from(x).unwrap()
}
fn push3<T: BaseFloat>(out: &mut Vec<T>, v: Vector3<T>) {
    out.extend_from_slice(&[v.x, v.y, v.z]);
}
fn push_m3<T: BaseFloat>(out: &mut Vec<T>, m: Matrix3<T>) {
    push3(out, m.x);
    push3(out, m.y);
    push3(out, m.z);
}
fn push_m4<T: BaseFloat>(out: &mut Vec<T>, m: Matrix4<T>) {
    for c in [m.x, m.y, m.z, m.w] {
        out.extend_from_slice(&[c.x, c.y, c.z, c.w]);
    }
}

fn cases(cfg: &RunCfg) -> u64 {
    if cfg.tier == Tier::Quick {
        3000
    } else {
        200_000
    }
}

macro_rules! twin_driver {
    ($fname:ident, $name:expr, $tol:expr, $ninputs:expr, $gen:expr, $body:ident) => {
        pub fn $fname(cfg: &RunCfg, extra: &mut Extra) {
            let mut tw = Twin::new($name, $tol);
            for i in 0..cases(cfg) {
                let mut rng = Rng::for_case(cfg.seed, concat!("twin_", $name), i);
                let gen: fn(&mut Rng) -> Option<Vec<f64>> = $gen;
                let Some(inp) = gen(&mut rng) else { continue };
                debug_assert!(inp.len() == $ninputs);
                let r = catch(|| ($body::<f32>(&inp), $body::<f64>(&inp)));
                match r {
                    Err(p) => {
                        tw.cases += 1;
                        if tw.fail.is_none() {
                            tw.fail = Some((format!("unexpected panic on ordinary inputs: {p}"), json!({"inputs": inp})));
                        }
                    }
                    Ok((lo, hi)) => tw.compare($name, &lo, &hi, &|| json!({"inputs": inp, "index": i})),
                }
                if tw.fail.is_some() {
                    break;
                }
            }
            tw.finish(extra);
        }
    };
}

// ---------------------------------------------------------------- C06
fn c06_gen(rng: &mut Rng) -> Option<Vec<f64>> {
    let a = [short(rng, -2.0, 2.0), short(rng, -2.0, 2.0), short(rng, -2.0, 2.0)];
    if a[0] * a[0] + a[1] * a[1] + a[2] * a[2] < 0.25 {
        return None;
    }
    let angle = short(rng, -6.5, 6.5);
    Some(vec![a[0], a[1], a[2], angle, short(rng, -4.0, 4.0), short(rng, -4.0, 4.0), short(rng, -4.0, 4.0), short(rng, -6.5, 6.5)])
}
fn c06_body<T: BaseFloat>(i: &[f64]) -> Vec<T> {
    let axis = Vector3::new(t::<T>(i[0]), t(i[1]), t(i[2])).normalize();
    let (ang, ang2) = (Rad(t::<T>(i[3])), Rad(t::<T>(i[7])));
    let v = Vector3::new(t::<T>(i[4]), t(i[5]), t(i[6]));
    let mut o = vec![];
    push3(&mut o, Matrix3::from_axis_angle(axis, ang) * v);
    push3(&mut o, (Matrix4::from_axis_angle(axis, ang) * v.extend(T::zero())).truncate());
    push3(&mut o, Basis3::from_axis_angle(axis, ang).rotate_vector(v));
    push3(&mut o, Quaternion::from_axis_angle(axis, ang) * v);
    push3(&mut o, Matrix3::from_angle_x(ang) * v);
    push3(&mut o, Matrix3::from_angle_y(ang) * v);
    push3(&mut o, Matrix3::from_angle_z(ang) * v);
    push3(&mut o, Quaternion::from_angle_y(ang) * v);
    let deg = Deg(t::<T>(i[3] * 32.0));
    push3(&mut o, Matrix3::from_axis_angle(axis, deg) * v);
    let m2 = Matrix2::from_angle(ang) * Vector2::new(v.x, v.y);
    o.extend_from_slice(&[m2.x, m2.y]);
    let b2 = (Basis2::from_angle(ang) * Basis2::from_angle(ang2)).rotate_vector(Vector2::new(v.y, v.z));
    o.extend_from_slice(&[b2.x, b2.y]);
    push3(&mut o, (Quaternion::from_axis_angle(axis, ang) * Quaternion::from_axis_angle(axis, ang2)) * v);
    push3(&mut o, Rotation::invert(&Basis3::from_axis_angle(axis, ang)).rotate_vector(v));
    push3(&mut o, Rotation::invert(&Quaternion::from_axis_angle(axis, ang)) * v);
    o
}
twin_driver!(c06, "c06_rotations", 2e-4, 8, c06_gen, c06_body);

// ---------------------------------------------------------------- C07
fn c07_gen(rng: &mut Rng) -> Option<Vec<f64>> {
    Some(vec![
        short(rng, -3.1, 3.1),
        short(rng, -1.1, 1.1), // |sin y| < 0.9: away from the gimbal cone, where extraction is well conditioned
        short(rng, -3.1, 3.1),
        short(rng, -4.0, 4.0),
        short(rng, -4.0, 4.0),
        short(rng, -4.0, 4.0),
    ])
}
fn c07_body<T: BaseFloat>(i: &[f64]) -> Vec<T> {
    let e = Euler::new(Rad(t::<T>(i[0])), Rad(t::<T>(i[1])), Rad(t::<T>(i[2])));
    let v = Vector3::new(t::<T>(i[3]), t(i[4]), t(i[5]));
    let mut o = vec![];
    push3(&mut o, Matrix3::from(e) * v);
    push3(&mut o, (Matrix4::from(e) * v.extend(T::zero())).truncate());
    push3(&mut o, Basis3::from(e).rotate_vector(v));
    let q = Quaternion::from(e);
    push3(&mut o, q * v);
    // extraction and rebuild
    let e2 = Euler::from(q);
    push3(&mut o, Matrix3::from(e2) * v);
    push3(&mut o, Quaternion::from(e2) * v);
    let ed = Euler::new(Deg(t::<T>(i[0] * 32.0)), Deg(t::<T>(i[1] * 32.0)), Deg(t::<T>(i[2] * 32.0)));
    push3(&mut o, Matrix3::from(ed) * v);
    o
}
twin_driver!(c07, "c07_euler", 2e-4, 6, c07_gen, c07_body);

// ---------------------------------------------------------------- C08
fn c08_gen(rng: &mut Rng) -> Option<Vec<f64>> {
    let mut v = vec![];
    for _ in 0..2 {
        let q = [short(rng, -2.0, 2.0), short(rng, -2.0, 2.0), short(rng, -2.0, 2.0), short(rng, -2.0, 2.0)];
        if q.iter().map(|x| x * x).sum::<f64>() < 0.25 {
            return None;
        }
        let s = short(rng, 0.25, 4.0) * if rng.chance(1, 4) { -1.0 } else { 1.0 };
        v.push(s);
        v.extend_from_slice(&q);
        v.extend_from_slice(&[short(rng, -4.0, 4.0), short(rng, -4.0, 4.0), short(rng, -4.0, 4.0)]);
    }
    v.extend_from_slice(&[short(rng, -4.0, 4.0), short(rng, -4.0, 4.0), short(rng, -4.0, 4.0)]);
    Some(v)
}
fn c08_body<T: BaseFloat>(i: &[f64]) -> Vec<T> {
    let mk = |k: usize| -> Decomposed<Vector3<T>, Quaternion<T>> {
        Decomposed {
            scale: t(i[k]),
            rot: Quaternion::new(t::<T>(i[k + 1]), t(i[k + 2]), t(i[k + 3]), t(i[k + 4])).normalize(),
            disp: Vector3::new(t(i[k + 5]), t(i[k + 6]), t(i[k + 7])),
        }
    };
    let (a, b) = (mk(0), mk(8));
    let p = Point3::new(t::<T>(i[16]), t(i[17]), t(i[18]));
    let mut o = vec![];
    push3(&mut o, a.transform_point(p).to_vec());
    push3(&mut o, a.transform_vector(p.to_vec()));
    push3(&mut o, a.concat(&b).transform_point(p).to_vec());
    push3(&mut o, a.inverse_transform().unwrap().transform_point(p).to_vec());
    push3(&mut o, a.inverse_transform_vector(p.to_vec()).unwrap());
    let m: Matrix4<T> = a.into();
    push3(&mut o, m.transform_point(p).to_vec());
    push3(&mut o, m.inverse_transform().unwrap().transform_point(p).to_vec());
    let db: Decomposed<Vector3<T>, Basis3<T>> = Decomposed { scale: a.scale, rot: a.rot.into(), disp: a.disp };
    push3(&mut o, db.inverse_transform().unwrap().transform_point(p).to_vec());
    let mut c = a;
    c.concat_self(&b);
    push3(&mut o, c.transform_vector(p.to_vec()));
    o
}
twin_driver!(c08, "c08_transforms", 2e-4, 19, c08_gen, c08_body);

// ---------------------------------------------------------------- C09
fn c09_gen(rng: &mut Rng) -> Option<Vec<f64>> {
    let s = |rng: &mut Rng| [short(rng, -4.0, 4.0), short(rng, -4.0, 4.0), short(rng, -4.0, 4.0)];
    let (eye, d, up, v) = (s(rng), s(rng), s(rng), s(rng));
    let n = |a: &[f64; 3]| (a[0] * a[0] + a[1] * a[1] + a[2] * a[2]).sqrt();
    let cr = [d[1] * up[2] - d[2] * up[1], d[2] * up[0] - d[0] * up[2], d[0] * up[1] - d[1] * up[0]];
    if n(&d) < 0.5 || n(&up) < 0.5 || n(&cr) < 0.3 * n(&d) * n(&up) {
        return None;
    }
    let mut o = vec![];
    o.extend_from_slice(&eye);
    o.extend_from_slice(&d);
    o.extend_from_slice(&up);
    o.extend_from_slice(&v);
    Some(o)
}
fn c09_body<T: BaseFloat>(i: &[f64]) -> Vec<T> {
    let eye = Point3::new(t::<T>(i[0]), t(i[1]), t(i[2]));
    let d = Vector3::new(t::<T>(i[3]), t(i[4]), t(i[5]));
    let up = Vector3::new(t::<T>(i[6]), t(i[7]), t(i[8]));
    let v = Vector3::new(t::<T>(i[9]), t(i[10]), t(i[11]));
    let mut o = vec![];
    push_m4(&mut o, Matrix4::look_to_rh(eye, d, up));
    push_m4(&mut o, Matrix4::look_at_lh(eye, eye + d, up));
    push_m3(&mut o, Matrix3::look_to_lh(d, up));
    push_m3(&mut o, Matrix3::look_to_rh(d, up));
    push3(&mut o, <Quaternion<T> as Rotation>::look_at(d, up) * v);
    push3(&mut o, <Basis3<T> as Rotation>::look_at(d, up).rotate_vector(v));
    let dq: Decomposed<Vector3<T>, Quaternion<T>> = Transform::look_at_rh(eye, eye + d, up);
    push3(&mut o, dq.transform_point(Point3::from_vec(v)).to_vec());
    let m2 = Matrix2::look_at(Vector2::new(d.x, d.y + t(5.0)), Vector2::new(up.x, up.y));
    o.extend_from_slice(&[m2.x.x, m2.x.y, m2.y.x, m2.y.y]);
    // the usual call pattern: a direction normalised in the type at hand (its squared length is
    // then exactly 1 in roughly every other case) and a coordinate axis as `up`
    let dn = d.normalize();
    let axis = if i[7].abs() >= i[6].abs() { Vector3::unit_y() } else { Vector3::unit_z() };
    if dn.cross(axis).magnitude2() > t(0.05) {
        push_m4(&mut o, Matrix4::look_to_rh(eye, dn, axis));
        push_m4(&mut o, Matrix4::look_to_lh(eye, dn, axis));
        push_m3(&mut o, Matrix3::look_to_lh(dn, axis));
        push3(&mut o, <Quaternion<T> as Rotation>::look_at(dn, axis) * v);
        let un = up.normalize();
        push_m4(&mut o, Matrix4::look_to_rh(eye, dn, un));
    } else {
        for _ in 0..(16 * 3 + 9 + 3) {
            o.push(T::zero());
        }
    }
    o
}
twin_driver!(c09, "c09_look_at", 5e-4, 12, c09_gen, c09_body);

// ---------------------------------------------------------------- C02 (well-conditioned inverses) and C04
fn c02_gen(rng: &mut Rng) -> Option<Vec<f64>> {
    // diagonally dominant: entries in [-1,1] plus 4 on the diagonal
    Some((0..16).map(|k| short(rng, -1.0, 1.0) + if k % 5 == 0 { 4.0 } else { 0.0 }).collect())
}
fn c02_body<T: BaseFloat>(i: &[f64]) -> Vec<T> {
    let m4 = Matrix4::new(
        t::<T>(i[0]), t(i[1]), t(i[2]), t(i[3]), t(i[4]), t(i[5]), t(i[6]), t(i[7]), t(i[8]), t(i[9]), t(i[10]), t(i[11]), t(i[12]), t(i[13]),
        t(i[14]), t(i[15]),
    );
    let m3 = Matrix3::new(t::<T>(i[0]), t(i[1]), t(i[2]), t(i[4]), t(i[5]), t(i[6]), t(i[8]), t(i[9]), t(i[10]));
    let m2 = Matrix2::new(t::<T>(i[0]), t(i[1]), t(i[4]), t(i[5]));
    let mut o = vec![];
    push_m4(&mut o, m4.invert().unwrap());
    push_m3(&mut o, m3.invert().unwrap());
    let n2 = m2.invert().unwrap();
    o.extend_from_slice(&[n2.x.x, n2.x.y, n2.y.x, n2.y.y, m4.determinant(), m3.determinant(), m2.determinant()]);
    push_m4(&mut o, m4 * m4.invert().unwrap());
    o
}
twin_driver!(c02, "c02_inverse", 2e-4, 16, c02_gen, c02_body);

fn c04_gen(rng: &mut Rng) -> Option<Vec<f64>> {
    let v: Vec<f64> = (0..11).map(|_| short(rng, -3.0, 3.0)).collect();
    if v[..4].iter().map(|x| x * x).sum::<f64>() < 0.25 {
        return None;
    }
    Some(v)
}
fn c04_body<T: BaseFloat>(i: &[f64]) -> Vec<T> {
    let p = Quaternion::new(t::<T>(i[0]), t(i[1]), t(i[2]), t(i[3]));
    let q = Quaternion::new(t::<T>(i[4]), t(i[5]), t(i[6]), t(i[7]));
    let v = Vector3::new(t::<T>(i[8]), t(i[9]), t(i[10]));
    let mut o = vec![];
    let pq = p * q;
    o.extend_from_slice(&[pq.s, pq.v.x, pq.v.y, pq.v.z]);
    push3(&mut o, p * v);
    let inv = Rotation::invert(&p);
    o.extend_from_slice(&[inv.s, inv.v.x, inv.v.y, inv.v.z]);
    let one = p * inv;
    o.extend_from_slice(&[one.s, one.v.x, one.v.y, one.v.z]);
    let n = p.normalize();
    push3(&mut o, n * v);
    push3(&mut o, Matrix3::from(n) * v);
    o.push(pq.magnitude2());
    o
}
twin_driver!(c04, "c04_quaternions", 2e-4, 11, c04_gen, c04_body);
