//! M2 — rigorous interval shadow scalar `Iv`.
//!
//! Every operation returns an interval that contains the exact real result for
//! every choice of real arguments inside the argument intervals (outward
//! rounding by one ulp after each round-to-nearest operation).  Comparisons are
//! three-valued: when the intervals do not decide the outcome the thread-local
//! *ambiguous* counter is bumped and the case is later discarded as
//! inconclusive by the harness.

use std::cell::Cell;
use std::cmp::Ordering;
use std::fmt;
use std::ops::*;

use num_traits::{Float, Num, NumCast, One, ToPrimitive, Zero};

use crate::q::{next_down, next_up};

thread_local! {
    static AMBIG: Cell<u32> = const { Cell::new(0) };
    static DOMAIN: Cell<u32> = const { Cell::new(0) };
    static SIG: Cell<u64> = const { Cell::new(0xcbf29ce484222325) };
    static OPS: Cell<u64> = const { Cell::new(0) };
    static TRIG: Cell<u64> = const { Cell::new(0) };
    static MAXW: Cell<f64> = const { Cell::new(0.0) };
}

pub fn reset() {
    AMBIG.with(|c| c.set(0));
    DOMAIN.with(|c| c.set(0));
    SIG.with(|c| c.set(0xcbf29ce484222325));
}
pub fn ambiguous() -> u32 {
    AMBIG.with(|c| c.get())
}
pub fn domain_errors() -> u32 {
    DOMAIN.with(|c| c.get())
}
pub fn signature() -> u64 {
    SIG.with(|c| c.get())
}
pub fn ops() -> u64 {
    OPS.with(|c| c.get())
}
pub fn trig_ops() -> u64 {
    TRIG.with(|c| c.get())
}
pub fn max_width() -> f64 {
    MAXW.with(|c| c.get())
}
pub fn note_width(w: f64) {
    MAXW.with(|c| {
        if w > c.get() && w.is_finite() {
            c.set(w)
        }
    });
}
#[inline]
fn amb() {
    AMBIG.with(|c| c.set(c.get() + 1));
}
#[inline]
fn dom() {
    DOMAIN.with(|c| c.set(c.get() + 1));
}
#[inline]
fn sig(o: u8) {
    SIG.with(|c| c.set((c.get() ^ o as u64).wrapping_mul(0x100000001b3)));
}
#[inline]
fn op() {
    OPS.with(|c| c.set(c.get().wrapping_add(1)));
}
#[inline]
fn trig() {
    TRIG.with(|c| c.set(c.get().wrapping_add(1)));
}

#[derive(Clone, Copy)]
pub struct Iv {
    pub lo: f64,
    pub hi: f64,
}

pub const PI_LO: f64 = std::f64::consts::PI; // PI_f64 < pi
pub fn pi_hi() -> f64 {
    next_up(std::f64::consts::PI) // > pi
}

#[inline]
fn nz(x: f64) -> f64 {
    if x == 0.0 {
        0.0
    } else {
        x
    }
}

impl Iv {
    #[inline]
    pub fn pt(x: f64) -> Iv {
        let x = nz(x);
        Iv { lo: x, hi: x }
    }
    #[inline]
    pub fn new(lo: f64, hi: f64) -> Iv {
        debug_assert!(!(lo > hi), "bad interval {lo} {hi}");
        Iv { lo: nz(lo), hi: nz(hi) }
    }
    pub fn whole() -> Iv {
        Iv {
            lo: f64::NEG_INFINITY,
            hi: f64::INFINITY,
        }
    }
    /// enclosure of the real number pi
    pub fn pi() -> Iv {
        Iv {
            lo: PI_LO,
            hi: pi_hi(),
        }
    }
    #[inline]
    pub fn is_point(&self) -> bool {
        self.lo == self.hi
    }
    #[inline]
    pub fn width(&self) -> f64 {
        self.hi - self.lo
    }
    #[inline]
    pub fn mid(&self) -> f64 {
        if self.lo.is_infinite() || self.hi.is_infinite() {
            if self.lo.is_infinite() && self.hi.is_infinite() {
                0.0
            } else if self.lo.is_infinite() {
                self.hi
            } else {
                self.lo
            }
        } else {
            0.5 * self.lo + 0.5 * self.hi
        }
    }
    #[inline]
    pub fn contains(&self, x: f64) -> bool {
        self.lo <= x && x <= self.hi
    }
    #[inline]
    pub fn intersects(&self, o: &Iv) -> bool {
        self.lo <= o.hi && o.lo <= self.hi
    }
    #[inline]
    pub fn is_bounded(&self) -> bool {
        self.lo.is_finite() && self.hi.is_finite()
    }
    /// widen by `k` ulps on both sides
    pub fn widen(self, k: u32) -> Iv {
        let (mut lo, mut hi) = (self.lo, self.hi);
        for _ in 0..k {
            lo = next_down(lo);
            hi = next_up(hi);
        }
        Iv { lo, hi }
    }
    pub fn hull(self, o: Iv) -> Iv {
        Iv {
            lo: self.lo.min(o.lo),
            hi: self.hi.max(o.hi),
        }
    }
    fn out(lo: f64, hi: f64) -> Iv {
        // outward rounding of a round-to-nearest result
        if lo.is_nan() || hi.is_nan() {
            dom();
            return Iv::whole();
        }
        Iv {
            lo: nz(next_down(lo)),
            hi: nz(next_up(hi)),
        }
    }
    pub fn abs_iv(self) -> Iv {
        if self.lo >= 0.0 {
            self
        } else if self.hi <= 0.0 {
            Iv::new(-self.hi, -self.lo)
        } else {
            Iv::new(0.0, (-self.lo).max(self.hi))
        }
    }
    pub fn sqr(self) -> Iv {
        let a = self.abs_iv();
        if a.is_point() && a.lo == 0.0 {
            return a;
        }
        let lo = a.lo * a.lo;
        let hi = a.hi * a.hi;
        let r = Iv::out(lo, hi);
        Iv::new(r.lo.max(0.0), r.hi)
    }
    /// monotone increasing libm function evaluated at the end points, widened
    fn mono_inc(self, f: fn(f64) -> f64, ulps: u32) -> Iv {
        Iv::new(f(self.lo), f(self.hi)).widen(ulps)
    }
}

impl fmt::Debug for Iv {
    fn fmt(&self, f: &mut fmt::Formatter) -> fmt::Result {
        if self.is_point() {
            write!(f, "{:?}", self.lo)
        } else {
            write!(f, "[{:?}, {:?}]", self.lo, self.hi)
        }
    }
}
impl fmt::Display for Iv {
    fn fmt(&self, f: &mut fmt::Formatter) -> fmt::Result {
        fmt::Debug::fmt(self, f)
    }
}

// ---------------------------------------------------------------- arithmetic

impl Add for Iv {
    type Output = Iv;
    #[inline]
    fn add(self, o: Iv) -> Iv {
        op();
        if o.is_point() && o.lo == 0.0 {
            return self;
        }
        if self.is_point() && self.lo == 0.0 {
            return o;
        }
        if self.is_point() && o.is_point() {
            // TwoSum: the rounded sum of two points is exact iff the error term is 0
            let (a, b) = (self.lo, o.lo);
            let s = a + b;
            let bb = s - a;
            let e = (a - (s - bb)) + (b - bb);
            if e == 0.0 && s.is_finite() {
                return Iv::pt(s);
            }
        }
        Iv::out(self.lo + o.lo, self.hi + o.hi)
    }
}
impl Neg for Iv {
    type Output = Iv;
    #[inline]
    fn neg(self) -> Iv {
        Iv {
            lo: nz(-self.hi),
            hi: nz(-self.lo),
        }
    }
}
impl Sub for Iv {
    type Output = Iv;
    #[inline]
    fn sub(self, o: Iv) -> Iv {
        self + (-o)
    }
}
impl Mul for Iv {
    type Output = Iv;
    fn mul(self, o: Iv) -> Iv {
        op();
        if (self.is_point() && self.lo == 0.0) || (o.is_point() && o.lo == 0.0) {
            return Iv::pt(0.0);
        }
        if self.is_point() && self.lo == 1.0 {
            return o;
        }
        if o.is_point() && o.lo == 1.0 {
            return self;
        }
        if self.is_point() && self.lo == -1.0 {
            return -o;
        }
        if o.is_point() && o.lo == -1.0 {
            return -self;
        }
        if self.is_point() && o.is_point() {
            let p = self.lo * o.lo;
            // fused multiply-add gives the exact residual of the rounded product
            if p.is_finite() && self.lo.mul_add(o.lo, -p) == 0.0 && p.abs() > 1e-280 {
                return Iv::pt(p);
            }
        }
        let c = [
            self.lo * o.lo,
            self.lo * o.hi,
            self.hi * o.lo,
            self.hi * o.hi,
        ];
        // inf * 0 = NaN can appear for unbounded operands: treat as whole line
        if c.iter().any(|x| x.is_nan()) {
            return Iv::whole();
        }
        let lo = c.iter().cloned().fold(f64::INFINITY, f64::min);
        let hi = c.iter().cloned().fold(f64::NEG_INFINITY, f64::max);
        Iv::out(lo, hi)
    }
}
impl Div for Iv {
    type Output = Iv;
    fn div(self, o: Iv) -> Iv {
        op();
        if o.lo <= 0.0 && o.hi >= 0.0 {
            // divisor may be zero
            amb();
            return Iv::whole();
        }
        if o.is_point() && o.lo == 1.0 {
            return self;
        }
        if self.is_point() && self.lo == 0.0 {
            return Iv::pt(0.0);
        }
        if self.is_point() && o.is_point() {
            let q = self.lo / o.lo;
            // exact quotient iff q*b == a with zero residual
            if q.is_finite() && q.abs() > 1e-280 && self.lo.abs() > 1e-280 && q.mul_add(o.lo, -self.lo) == 0.0 {
                return Iv::pt(q);
            }
        }
        let c = [
            self.lo / o.lo,
            self.lo / o.hi,
            self.hi / o.lo,
            self.hi / o.hi,
        ];
        if c.iter().any(|x| x.is_nan()) {
            return Iv::whole();
        }
        let lo = c.iter().cloned().fold(f64::INFINITY, f64::min);
        let hi = c.iter().cloned().fold(f64::NEG_INFINITY, f64::max);
        Iv::out(lo, hi)
    }
}
impl Rem for Iv {
    type Output = Iv;
    fn rem(self, o: Iv) -> Iv {
        // a - b*trunc(a/b); trunc must be the same integer over the whole quotient
        let q = self / o;
        if !q.is_bounded() {
            return Iv::whole();
        }
        let (tl, th) = (q.lo.trunc(), q.hi.trunc());
        if tl != th {
            amb();
            return (self - o * Iv::pt(tl)).hull(self - o * Iv::pt(th));
        }
        if tl == 0.0 {
            return self;
        }
        self - o * Iv::pt(tl)
    }
}
impl AddAssign for Iv {
    fn add_assign(&mut self, o: Iv) {
        *self = *self + o
    }
}
impl SubAssign for Iv {
    fn sub_assign(&mut self, o: Iv) {
        *self = *self - o
    }
}
impl MulAssign for Iv {
    fn mul_assign(&mut self, o: Iv) {
        *self = *self * o
    }
}
impl DivAssign for Iv {
    fn div_assign(&mut self, o: Iv) {
        *self = *self / o
    }
}
impl RemAssign for Iv {
    fn rem_assign(&mut self, o: Iv) {
        *self = *self % o
    }
}

// ---------------------------------------------------------------- comparison

#[derive(Clone, Copy, PartialEq, Eq, Debug)]
pub enum Tri {
    True,
    False,
    Unknown,
}

impl Iv {
    pub fn tri_lt(&self, o: &Iv) -> Tri {
        if self.hi < o.lo {
            Tri::True
        } else if self.lo >= o.hi {
            Tri::False
        } else {
            Tri::Unknown
        }
    }
    pub fn tri_le(&self, o: &Iv) -> Tri {
        if self.hi <= o.lo {
            Tri::True
        } else if self.lo > o.hi {
            Tri::False
        } else {
            Tri::Unknown
        }
    }
    pub fn tri_eq(&self, o: &Iv) -> Tri {
        if self.is_point() && o.is_point() && self.lo == o.lo {
            Tri::True
        } else if !self.intersects(o) {
            Tri::False
        } else {
            Tri::Unknown
        }
    }
}

#[inline]
fn decide(t: Tri, fallback: bool, code: u8) -> bool {
    let r = match t {
        Tri::True => true,
        Tri::False => false,
        Tri::Unknown => {
            amb();
            fallback
        }
    };
    sig(code + r as u8);
    r
}

impl PartialEq for Iv {
    fn eq(&self, o: &Iv) -> bool {
        decide(self.tri_eq(o), self.mid() == o.mid(), 20)
    }
}
impl PartialOrd for Iv {
    fn partial_cmp(&self, o: &Iv) -> Option<Ordering> {
        let r = if self.hi < o.lo {
            Ordering::Less
        } else if self.lo > o.hi {
            Ordering::Greater
        } else if self.is_point() && o.is_point() && self.lo == o.lo {
            Ordering::Equal
        } else {
            amb();
            self.mid().partial_cmp(&o.mid()).unwrap_or(Ordering::Equal)
        };
        sig(match r {
            Ordering::Less => 30,
            Ordering::Equal => 31,
            Ordering::Greater => 32,
        });
        Some(r)
    }
    fn lt(&self, o: &Iv) -> bool {
        decide(self.tri_lt(o), self.mid() < o.mid(), 40)
    }
    fn le(&self, o: &Iv) -> bool {
        decide(self.tri_le(o), self.mid() <= o.mid(), 42)
    }
    fn gt(&self, o: &Iv) -> bool {
        decide(o.tri_lt(self), self.mid() > o.mid(), 44)
    }
    fn ge(&self, o: &Iv) -> bool {
        decide(o.tri_le(self), self.mid() >= o.mid(), 46)
    }
}

// ---------------------------------------------------------------- num-traits

impl Zero for Iv {
    fn zero() -> Iv {
        Iv::pt(0.0)
    }
    fn is_zero(&self) -> bool {
        decide(self.tri_eq(&Iv::pt(0.0)), self.mid() == 0.0, 48)
    }
}
impl One for Iv {
    fn one() -> Iv {
        Iv::pt(1.0)
    }
}
impl Num for Iv {
    type FromStrRadixErr = ();
    fn from_str_radix(_: &str, _: u32) -> Result<Iv, ()> {
        Err(())
    }
}
impl ToPrimitive for Iv {
    fn to_i64(&self) -> Option<i64> {
        self.mid().to_i64()
    }
    fn to_u64(&self) -> Option<u64> {
        self.mid().to_u64()
    }
    fn to_f64(&self) -> Option<f64> {
        Some(self.mid())
    }
}
impl NumCast for Iv {
    fn from<T: ToPrimitive>(n: T) -> Option<Iv> {
        // Every primitive the crate casts from (f64 literals, small integers,
        // usize lengths) is exactly representable in f64.
        n.to_f64().filter(|f| !f.is_nan()).map(Iv::pt)
    }
}

const TRIG_ULPS: u32 = 4;

fn sin_like(x: Iv, f: fn(f64) -> f64) -> Iv {
    trig();
    if !x.is_bounded() {
        return Iv::new(-1.0, 1.0);
    }
    let (a, b) = (f(x.lo), f(x.hi));
    let w = if x.is_point() { 0.0 } else { next_up(x.hi - x.lo) };
    let lo = next_down(a.min(b) - w);
    let hi = next_up(a.max(b) + w);
    // libm error: 4 ulps relative plus a tiny absolute term
    let e = 4.0 * f64::EPSILON * a.abs().max(b.abs()) + f64::MIN_POSITIVE;
    Iv::new((lo - e).max(-1.0), (hi + e).min(1.0))
}

impl Float for Iv {
    fn nan() -> Iv {
        dom();
        Iv::whole()
    }
    fn infinity() -> Iv {
        Iv {
            lo: f64::INFINITY,
            hi: f64::INFINITY,
        }
    }
    fn neg_infinity() -> Iv {
        Iv {
            lo: f64::NEG_INFINITY,
            hi: f64::NEG_INFINITY,
        }
    }
    fn neg_zero() -> Iv {
        Iv::pt(0.0)
    }
    fn min_value() -> Iv {
        Iv::pt(f64::MIN)
    }
    fn min_positive_value() -> Iv {
        Iv::pt(f64::MIN_POSITIVE)
    }
    fn max_value() -> Iv {
        Iv::pt(f64::MAX)
    }
    fn is_nan(self) -> bool {
        false
    }
    fn is_infinite(self) -> bool {
        self.lo.is_infinite() && self.hi.is_infinite() && self.lo == self.hi
    }
    fn is_finite(self) -> bool {
        self.is_bounded()
    }
    fn is_normal(self) -> bool {
        self.is_bounded()
    }
    fn classify(self) -> std::num::FpCategory {
        self.mid().classify()
    }
    fn floor(self) -> Iv {
        let (a, b) = (self.lo.floor(), self.hi.floor());
        if a != b {
            amb();
        }
        Iv::new(a, b)
    }
    fn ceil(self) -> Iv {
        let (a, b) = (self.lo.ceil(), self.hi.ceil());
        if a != b {
            amb();
        }
        Iv::new(a, b)
    }
    fn round(self) -> Iv {
        let (a, b) = (self.lo.round(), self.hi.round());
        if a != b {
            amb();
        }
        Iv::new(a, b)
    }
    fn trunc(self) -> Iv {
        let (a, b) = (self.lo.trunc(), self.hi.trunc());
        if a != b {
            amb();
        }
        Iv::new(a.min(b), a.max(b))
    }
    fn fract(self) -> Iv {
        self - Float::trunc(self)
    }
    fn abs(self) -> Iv {
        self.abs_iv()
    }
    fn signum(self) -> Iv {
        if self.lo >= 0.0 {
            Iv::pt(1.0)
        } else if self.hi < 0.0 {
            Iv::pt(-1.0)
        } else {
            amb();
            Iv::new(-1.0, 1.0)
        }
    }
    fn is_sign_positive(self) -> bool {
        decide(Iv::pt(0.0).tri_le(&self), self.mid() >= 0.0, 50)
    }
    fn is_sign_negative(self) -> bool {
        decide(self.tri_lt(&Iv::pt(0.0)), self.mid() < 0.0, 52)
    }
    fn mul_add(self, a: Iv, b: Iv) -> Iv {
        self * a + b
    }
    fn recip(self) -> Iv {
        Iv::pt(1.0) / self
    }
    fn powi(self, n: i32) -> Iv {
        let mut r = Iv::pt(1.0);
        let base = if n < 0 { Iv::pt(1.0) / self } else { self };
        for _ in 0..n.unsigned_abs() {
            r = r * base;
        }
        r
    }
    fn powf(self, n: Iv) -> Iv {
        if n.is_point() && n.lo.fract() == 0.0 && n.lo.abs() < 64.0 {
            return self.powi(n.lo as i32);
        }
        dom();
        Iv::whole()
    }
    fn sqrt(self) -> Iv {
        op();
        if self.hi < 0.0 {
            dom();
            return Iv::whole();
        }
        if self.is_point() && self.lo > 0.0 {
            let s = self.lo.sqrt();
            if self.lo > 1e-280 && s.mul_add(s, -self.lo) == 0.0 {
                return Iv::pt(s); // exact square root
            }
        }
        let lo = if self.lo <= 0.0 {
            // partially outside the domain: the exact real argument lies in
            // the interval and is >= 0 wherever the real function is defined
            0.0
        } else {
            next_down(self.lo.sqrt()).max(0.0)
        };
        let hi = if self.hi == 0.0 { 0.0 } else { next_up(self.hi.sqrt()) };
        Iv::new(lo, hi)
    }
    fn exp(self) -> Iv {
        self.mono_inc(f64::exp, 4)
    }
    fn exp2(self) -> Iv {
        self.mono_inc(f64::exp2, 4)
    }
    fn ln(self) -> Iv {
        if self.lo <= 0.0 {
            dom();
            return Iv::whole();
        }
        self.mono_inc(f64::ln, 4)
    }
    fn log(self, _b: Iv) -> Iv {
        dom();
        Iv::whole()
    }
    fn log2(self) -> Iv {
        if self.lo <= 0.0 {
            dom();
            return Iv::whole();
        }
        self.mono_inc(f64::log2, 4)
    }
    fn log10(self) -> Iv {
        if self.lo <= 0.0 {
            dom();
            return Iv::whole();
        }
        self.mono_inc(f64::log10, 4)
    }
    fn max(self, o: Iv) -> Iv {
        // exact interval extension of max; no branch involved
        Iv::new(self.lo.max(o.lo), self.hi.max(o.hi))
    }
    fn min(self, o: Iv) -> Iv {
        Iv::new(self.lo.min(o.lo), self.hi.min(o.hi))
    }
    fn abs_sub(self, o: Iv) -> Iv {
        Float::max(self - o, Iv::pt(0.0))
    }
    fn cbrt(self) -> Iv {
        self.mono_inc(f64::cbrt, 4)
    }
    fn hypot(self, o: Iv) -> Iv {
        Float::sqrt(self.sqr() + o.sqr())
    }
    fn sin(self) -> Iv {
        if self.is_point() && self.lo == 0.0 {
            trig();
            return Iv::pt(0.0);
        }
        sin_like(self, f64::sin)
    }
    fn cos(self) -> Iv {
        if self.is_point() && self.lo == 0.0 {
            trig();
            return Iv::pt(1.0);
        }
        sin_like(self, f64::cos)
    }
    fn tan(self) -> Iv {
        let (s, c) = (Float::sin(self), Float::cos(self));
        s / c
    }
    fn asin(self) -> Iv {
        trig();
        if self.lo > 1.0 || self.hi < -1.0 {
            dom();
            return Iv::whole();
        }
        if self.is_point() && self.lo == 0.0 {
            return Iv::pt(0.0);
        }
        let x = Iv::new(self.lo.max(-1.0), self.hi.min(1.0));
        let r = x.mono_inc(f64::asin, TRIG_ULPS);
        let h = next_up(pi_hi() / 2.0);
        Iv::new(r.lo.max(-h), r.hi.min(h))
    }
    fn acos(self) -> Iv {
        trig();
        if self.lo > 1.0 || self.hi < -1.0 {
            dom();
            return Iv::whole();
        }
        if self.is_point() && self.lo == 1.0 {
            return Iv::pt(0.0);
        }
        let x = Iv::new(self.lo.max(-1.0), self.hi.min(1.0));
        // decreasing
        let r = Iv::new(x.hi.acos(), x.lo.acos()).widen(TRIG_ULPS);
        Iv::new(r.lo.max(0.0), r.hi.min(next_up(pi_hi())))
    }
    fn atan(self) -> Iv {
        trig();
        if self.is_point() && self.lo == 0.0 {
            return Iv::pt(0.0);
        }
        self.mono_inc(f64::atan, TRIG_ULPS)
    }
    fn atan2(self, x: Iv) -> Iv {
        trig();
        let y = self;
        let pi = pi_hi();
        if y.is_point() && y.lo == 0.0 {
            if x.lo > 0.0 {
                return Iv::pt(0.0);
            }
            if x.hi < 0.0 {
                return Iv::pi();
            }
            amb();
            return Iv::new(0.0, next_up(pi));
        }
        // box touches or crosses the branch cut (negative x axis) or the origin
        if y.lo <= 0.0 && y.hi >= 0.0 && x.lo <= 0.0 {
            amb();
            return Iv::new(-next_up(pi), next_up(pi));
        }
        let c = [
            y.lo.atan2(x.lo),
            y.lo.atan2(x.hi),
            y.hi.atan2(x.lo),
            y.hi.atan2(x.hi),
        ];
        let lo = c.iter().cloned().fold(f64::INFINITY, f64::min);
        let hi = c.iter().cloned().fold(f64::NEG_INFINITY, f64::max);
        let r = Iv::new(lo, hi).widen(TRIG_ULPS);
        Iv::new(r.lo.max(-next_up(pi)), r.hi.min(next_up(pi)))
    }
    fn sin_cos(self) -> (Iv, Iv) {
        (Float::sin(self), Float::cos(self))
    }
    fn exp_m1(self) -> Iv {
        self.mono_inc(f64::exp_m1, 4)
    }
    fn ln_1p(self) -> Iv {
        if self.lo <= -1.0 {
            dom();
            return Iv::whole();
        }
        self.mono_inc(f64::ln_1p, 4)
    }
    fn sinh(self) -> Iv {
        self.mono_inc(f64::sinh, 4)
    }
    fn cosh(self) -> Iv {
        dom();
        Iv::whole()
    }
    fn tanh(self) -> Iv {
        self.mono_inc(f64::tanh, 4)
    }
    fn asinh(self) -> Iv {
        self.mono_inc(f64::asinh, 4)
    }
    fn acosh(self) -> Iv {
        dom();
        Iv::whole()
    }
    fn atanh(self) -> Iv {
        dom();
        Iv::whole()
    }
    fn integer_decode(self) -> (u64, i16, i8) {
        self.mid().integer_decode()
    }
}

// ---------------------------------------------------------------- approx

impl approx::AbsDiffEq for Iv {
    type Epsilon = Iv;
    fn default_epsilon() -> Iv {
        Iv::pt(f64::EPSILON)
    }
    fn abs_diff_eq(&self, o: &Iv, eps: Iv) -> bool {
        let d = (*self - *o).abs_iv();
        decide(d.tri_le(&eps), d.mid() <= eps.mid(), 60)
    }
}
impl approx::RelativeEq for Iv {
    fn default_max_relative() -> Iv {
        Iv::pt(f64::EPSILON)
    }
    fn relative_eq(&self, o: &Iv, eps: Iv, max_rel: Iv) -> bool {
        if self.tri_eq(o) == Tri::True {
            sig(63);
            return true;
        }
        let d = (*self - *o).abs_iv();
        let largest = Float::max(self.abs_iv(), o.abs_iv());
        let bound = Float::max(eps, largest * max_rel);
        decide(d.tri_le(&bound), d.mid() <= bound.mid(), 62)
    }
}
impl approx::UlpsEq for Iv {
    fn default_max_ulps() -> u32 {
        4
    }
    fn ulps_eq(&self, o: &Iv, eps: Iv, max_ulps: u32) -> bool {
        // real-number reading of the f64 definition: |a-b| <= eps, or same
        // sign and |a-b| <= max_ulps ulps, where an ulp of x lies between
        // 2^-53 |x| and 2^-52 |x| (that factor of two is the only grey zone)
        if self.tri_eq(o) == Tri::True {
            sig(65);
            return true;
        }
        let d = (*self - *o).abs_iv();
        let largest = Float::max(self.abs_iv(), o.abs_iv());
        let t = match d.tri_le(&eps) {
            Tri::True => Tri::True,
            Tri::Unknown => Tri::Unknown,
            Tri::False => {
                let opposite = (self.hi < 0.0 && o.lo > 0.0) || (self.lo > 0.0 && o.hi < 0.0);
                let maybe_opposite = !opposite && ((self.lo < 0.0 && o.hi > 0.0) || (self.hi > 0.0 && o.lo < 0.0));
                let k = max_ulps as f64;
                let lo_bound = largest * Iv::pt(k * f64::EPSILON * 0.5);
                let hi_bound = largest * Iv::pt(k * f64::EPSILON);
                if opposite {
                    Tri::False
                } else if d.tri_le(&lo_bound) == Tri::True && !maybe_opposite {
                    Tri::True
                } else if hi_bound.tri_lt(&d) == Tri::True {
                    Tri::False
                } else {
                    Tri::Unknown
                }
            }
        };
        let bound = Float::max(eps, largest * Iv::pt(f64::EPSILON * max_ulps as f64));
        decide(t, d.mid() <= bound.mid(), 64)
    }
}
