//! Double-double reference arithmetic for the native accuracy monitors: sums of
//! products of f64 values evaluated with error-free transformations (TwoSum,
//! TwoProduct via fma), i.e. to about 2^-100 of the sum of the magnitudes of
//! the terms.  Used as the "model" next to native f32/f64 runs of cgmath on
//! badly scaled inputs, where the exact-rational engine would overflow.

#[derive(Clone, Copy, Debug, Default)]
pub struct Dd {
    pub hi: f64,
    pub lo: f64,
}

fn two_sum(a: f64, b: f64) -> (f64, f64) {
    let s = a + b;
    let bb = s - a;
    let e = (a - (s - bb)) + (b - bb);
    (s, e)
}
fn two_prod(a: f64, b: f64) -> (f64, f64) {
    let p = a * b;
    let e = a.mul_add(b, -p);
    (p, e)
}

impl Dd {
    pub fn new(x: f64) -> Dd {
        Dd { hi: x, lo: 0.0 }
    }
    pub fn add(self, o: Dd) -> Dd {
        let (s, e) = two_sum(self.hi, o.hi);
        let e = e + (self.lo + o.lo);
        let (hi, lo) = two_sum(s, e);
        Dd { hi, lo }
    }
    pub fn neg(self) -> Dd {
        Dd { hi: -self.hi, lo: -self.lo }
    }
    pub fn sub(self, o: Dd) -> Dd {
        self.add(o.neg())
    }
    pub fn mul_f(self, b: f64) -> Dd {
        let (p, e) = two_prod(self.hi, b);
        let e = e + self.lo * b;
        let (hi, lo) = two_sum(p, e);
        Dd { hi, lo }
    }
    pub fn mul(self, o: Dd) -> Dd {
        let (p, e) = two_prod(self.hi, o.hi);
        let e = e + (self.hi * o.lo + self.lo * o.hi);
        let (hi, lo) = two_sum(p, e);
        Dd { hi, lo }
    }
    pub fn prod(a: f64, b: f64) -> Dd {
        let (hi, lo) = two_prod(a, b);
        Dd { hi, lo }
    }
    pub fn val(self) -> f64 {
        self.hi + self.lo
    }
}

/// sum_k a[k]*b[k] in double-double, and sum_k |a[k]*b[k]| (the condition scale)
pub fn dot(a: &[f64], b: &[f64]) -> (f64, f64) {
    let mut s = Dd::default();
    let mut m = 0.0f64;
    for (x, y) in a.iter().zip(b.iter()) {
        s = s.add(Dd::prod(*x, *y));
        m += (x * y).abs();
    }
    (s.val(), m)
}

#[cfg(test)]
mod tests {
    use super::*;
    #[test]
    fn cancellation() {
        let (v, m) = dot(&[1e30, 1.0, -1e30], &[1.0, 1.0, 1.0]);
        assert_eq!(v, 1.0);
        assert!(m >= 2e30);
    }
}
