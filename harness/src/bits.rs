//! Bit patterns of components, in field order (used for bit-exact comparisons).

use cgmath::{
    Basis2, Basis3, Deg, Matrix2, Matrix3, Matrix4, Point1, Point2, Point3, Quaternion, Rad, Vector1, Vector2, Vector3,
    Vector4,
};

/// bit pattern of every component, in field order
pub trait Bits {
    fn bits(&self) -> Vec<u64>;
}
macro_rules! prim_bits {
    ($($T:ty),*) => {$( impl Bits for $T { fn bits(&self) -> Vec<u64> { vec![*self as i128 as u64] } } )*};
}
prim_bits!(u8, u16, u32, u64, usize, i8, i16, i32, i64, isize);
impl Bits for f32 {
    fn bits(&self) -> Vec<u64> {
        vec![self.to_bits() as u64]
    }
}
impl Bits for f64 {
    fn bits(&self) -> Vec<u64> {
        vec![self.to_bits()]
    }
}
macro_rules! comp_bits {
    ($T:ident { $($f:ident),+ }) => {
        impl<S: Bits> Bits for $T<S> {
            fn bits(&self) -> Vec<u64> {
                let mut v = vec![];
                $( v.extend(self.$f.bits()); )+
                v
            }
        }
    };
}
comp_bits!(Vector1 { x });
comp_bits!(Vector2 { x, y });
comp_bits!(Vector3 { x, y, z });
comp_bits!(Vector4 { x, y, z, w });
comp_bits!(Point1 { x });
comp_bits!(Point2 { x, y });
comp_bits!(Point3 { x, y, z });
comp_bits!(Matrix2 { x, y });
comp_bits!(Matrix3 { x, y, z });
comp_bits!(Matrix4 { x, y, z, w });
comp_bits!(Quaternion { v, s });
impl<S: Bits> Bits for Rad<S> {
    fn bits(&self) -> Vec<u64> {
        self.0.bits()
    }
}
impl<S: Bits> Bits for Deg<S> {
    fn bits(&self) -> Vec<u64> {
        self.0.bits()
    }
}
impl<S: Bits + cgmath::BaseFloat> Bits for Basis2<S> {
    fn bits(&self) -> Vec<u64> {
        let m: &Matrix2<S> = self.as_ref();
        m.bits()
    }
}
impl<S: Bits> Bits for Basis3<S> {
    fn bits(&self) -> Vec<u64> {
        let m: &Matrix3<S> = self.as_ref();
        m.bits()
    }
}

