//! Clause runner: generates cases, runs them on the engines, applies the
//! three-valued verdict discipline, collects evidence, writes replays.

use std::collections::{BTreeMap, HashSet};
use std::panic::{catch_unwind, AssertUnwindSafe};
use std::time::Instant;

use serde_json::{json, Value};

use crate::gen::{hash_str, Rng, Tier};
use crate::iv::Iv;
use crate::q::Q;
use crate::sc::{Ck, Engine, Rat, Sc};

/// Inputs of one case.
#[derive(Clone, Debug, Default)]
pub struct Case {
    pub r: Vec<Rat>,
    pub f: Vec<f64>,
    pub k: Vec<i64>,
    pub nontrivial: bool,
    /// coverage class decided by the generator from the *spec* (e.g. which
    /// branch the case is aimed at)
    pub class: u16,
}

impl Case {
    pub fn new() -> Case {
        Case::default()
    }
    pub fn rd(&self) -> Rd<'_> {
        Rd {
            c: self,
            ri: 0,
            fi: 0,
            ki: 0,
        }
    }
    pub fn push_r(&mut self, v: &[Rat]) -> &mut Self {
        self.r.extend_from_slice(v);
        self
    }
    pub fn push_f(&mut self, v: &[f64]) -> &mut Self {
        self.f.extend_from_slice(v);
        self
    }
    pub fn push_k(&mut self, v: &[i64]) -> &mut Self {
        self.k.extend_from_slice(v);
        self
    }
    pub fn render(&self) -> Value {
        json!({
            "rationals": self.r.iter().map(|r| r.show()).collect::<Vec<_>>(),
            "reals_hex": self.f.iter().map(|x| format!("{:?}(0x{:016x})", x, x.to_bits())).collect::<Vec<_>>(),
            "ints": self.k,
            "class": self.class,
        })
    }
    pub fn hash(&self) -> u64 {
        let mut h: u64 = 0xcbf29ce484222325;
        let mut mix = |x: u64| {
            h = (h ^ x).wrapping_mul(0x100000001b3);
            h ^= h >> 29;
        };
        for r in &self.r {
            mix(r.n as u64);
            mix(r.d as u64);
        }
        for f in &self.f {
            mix(f.to_bits());
        }
        for k in &self.k {
            mix(*k as u64);
        }
        h
    }
}

/// Cursor over the inputs of a case; the generic body reads its inputs in the
/// order the generator pushed them.
pub struct Rd<'a> {
    c: &'a Case,
    ri: usize,
    fi: usize,
    ki: usize,
}
impl<'a> Rd<'a> {
    pub fn s<S: Sc>(&mut self) -> S {
        let r = self.c.r[self.ri];
        self.ri += 1;
        S::rat(r)
    }
    pub fn arr<S: Sc, const N: usize>(&mut self) -> [S; N] {
        let mut o = [S::i(0); N];
        for x in o.iter_mut() {
            *x = self.s();
        }
        o
    }
    pub fn mat<S: Sc, const N: usize>(&mut self) -> [[S; N]; N] {
        let mut o = [[S::i(0); N]; N];
        for c in o.iter_mut() {
            *c = self.arr();
        }
        o
    }
    /// real (f64) input as an exact point
    pub fn x<S: Sc>(&mut self) -> S {
        let f = self.c.f[self.fi];
        self.fi += 1;
        S::f(f)
    }
    pub fn xarr<S: Sc, const N: usize>(&mut self) -> [S; N] {
        let mut o = [S::i(0); N];
        for x in o.iter_mut() {
            *x = self.x();
        }
        o
    }
    pub fn raw_f(&mut self) -> f64 {
        let f = self.c.f[self.fi];
        self.fi += 1;
        f
    }
    pub fn k(&mut self) -> i64 {
        let k = self.c.k[self.ki];
        self.ki += 1;
        k
    }
}

pub type Body<S> = fn(&Case, &mut Ck<S>);

pub struct Clause {
    pub name: &'static str,
    pub entry_points: &'static [&'static str],
    pub gen: fn(&mut Rng, Tier) -> Case,
    pub q: Option<Body<Q>>,
    pub iv: Option<Body<Iv>>,
    pub nat: Option<Body<f64>>,
    /// relative number of cases (1 = the tier's base count)
    pub weight: f64,
    /// number of coverage classes the generator distinguishes (0 = none);
    /// every class must be observed for the clause to be conclusive
    pub classes: u16,
}

/// all three engines share one generic body
#[macro_export]
macro_rules! clause {
    ($name:expr, $eps:expr, $gen:path, $body:ident) => {
        $crate::fw::Clause {
            name: $name,
            entry_points: $eps,
            gen: $gen,
            q: Some($body::<$crate::q::Q>),
            iv: Some($body::<$crate::iv::Iv>),
            nat: Some($body::<f64>),
            weight: 1.0,
            classes: 0,
        }
    };
    ($name:expr, $eps:expr, $gen:path, $body:ident, weight = $w:expr, classes = $c:expr) => {
        $crate::fw::Clause {
            name: $name,
            entry_points: $eps,
            gen: $gen,
            q: Some($body::<$crate::q::Q>),
            iv: Some($body::<$crate::iv::Iv>),
            nat: Some($body::<f64>),
            weight: $w,
            classes: $c,
        }
    };
}
/// interval (+ native containment) only: inputs are reals
#[macro_export]
macro_rules! clause_iv {
    ($name:expr, $eps:expr, $gen:path, $body:ident) => {
        $crate::fw::Clause {
            name: $name,
            entry_points: $eps,
            gen: $gen,
            q: None,
            iv: Some($body::<$crate::iv::Iv>),
            nat: Some($body::<f64>),
            weight: 1.0,
            classes: 0,
        }
    };
    ($name:expr, $eps:expr, $gen:path, $body:ident, weight = $w:expr, classes = $c:expr) => {
        $crate::fw::Clause {
            name: $name,
            entry_points: $eps,
            gen: $gen,
            q: None,
            iv: Some($body::<$crate::iv::Iv>),
            nat: Some($body::<f64>),
            weight: $w,
            classes: $c,
        }
    };
}
/// exact engine only (no interval fallback: the clause is purely rational)
#[macro_export]
macro_rules! clause_q {
    ($name:expr, $eps:expr, $gen:path, $body:ident) => {
        $crate::fw::Clause {
            name: $name,
            entry_points: $eps,
            gen: $gen,
            q: Some($body::<$crate::q::Q>),
            iv: None,
            nat: None,
            weight: 1.0,
            classes: 0,
        }
    };
    ($name:expr, $eps:expr, $gen:path, $body:ident, weight = $w:expr, classes = $c:expr) => {
        $crate::fw::Clause {
            name: $name,
            entry_points: $eps,
            gen: $gen,
            q: Some($body::<$crate::q::Q>),
            iv: None,
            nat: None,
            weight: $w,
            classes: $c,
        }
    };
}

#[derive(Clone, Debug, PartialEq)]
pub enum Verdict {
    Held(Engine),
    Violated(Engine, String),
    Inconclusive(String),
    /// the monitor contradicted itself (native value outside its enclosure)
    MonitorBug(String),
}

thread_local! {
    static LAST_PANIC: std::cell::RefCell<String> = const { std::cell::RefCell::new(String::new()) };
    static CATCH_DEPTH: std::cell::Cell<u32> = const { std::cell::Cell::new(0) };
}

pub fn install_panic_hook() {
    std::panic::set_hook(Box::new(|info| {
        let msg = if let Some(s) = info.payload().downcast_ref::<&str>() {
            s.to_string()
        } else if let Some(s) = info.payload().downcast_ref::<String>() {
            s.clone()
        } else {
            "<non-string panic>".to_string()
        };
        let loc = info
            .location()
            .map(|l| format!("{}:{}", l.file(), l.line()))
            .unwrap_or_default();
        if CATCH_DEPTH.with(|d| d.get()) == 0 {
            eprintln!("HARNESS PANIC (outside a monitored call): {msg} @ {loc}");
        } else if msg.contains("unsafe precondition") {
            // the standard library's UB check (debug assertions are on): it aborts the process
            // right after this hook, so say what happened; ./check turns it into a verdict
            eprintln!("UNSAFE-PRECONDITION inside a monitored cgmath call: {msg} @ {loc}");
        }
        LAST_PANIC.with(|p| *p.borrow_mut() = format!("{msg} @ {loc}"));
    }));
}
pub fn last_panic() -> String {
    LAST_PANIC.with(|p| p.borrow().clone())
}

/// Run `f`, returning Err(message) if it panicked.
pub fn catch<T>(f: impl FnOnce() -> T) -> Result<T, String> {
    CATCH_DEPTH.with(|d| d.set(d.get() + 1));
    let r = catch_unwind(AssertUnwindSafe(f));
    CATCH_DEPTH.with(|d| d.set(d.get() - 1));
    match r {
        Ok(v) => Ok(v),
        Err(_) => Err(last_panic()),
    }
}

pub struct CaseRun {
    pub verdict: Verdict,
    pub q_sig: Option<u64>,
    pub iv_sig: Option<u64>,
    pub q_fallback: bool,
    pub native_contained: Option<bool>,
    pub checks: u32,
    pub notes: Vec<String>,
}

pub fn run_case(cl: &Clause, case: &Case, verbose: bool) -> CaseRun {
    let mut out = CaseRun {
        verdict: Verdict::Inconclusive("no engine".into()),
        q_sig: None,
        iv_sig: None,
        q_fallback: false,
        native_contained: None,
        checks: 0,
        notes: vec![],
    };
    let mut q_reason = String::new();
    let mut q_domain_only = false;
    if let Some(fq) = cl.q {
        crate::q::reset();
        let mut ck = Ck::<Q>::new(verbose);
        if verbose {
            eprintln!("engine Q:");
        }
        let r = catch(|| fq(case, &mut ck));
        let poison = crate::q::poisoned();
        if poison == 0 {
            out.q_sig = Some(crate::q::signature());
            out.checks = ck.checks;
            out.notes = ck.notes.clone();
            out.verdict = match (r, ck.fail) {
                (Err(p), _) => Verdict::Violated(Engine::Q, format!("unexpected panic: {p}")),
                (Ok(()), Some(f)) => Verdict::Violated(Engine::Q, f),
                (Ok(()), None) => Verdict::Held(Engine::Q),
            };
            return out;
        }
        q_reason = format!("Q poisoned ({})", poison_name(poison));
        q_domain_only = poison == crate::q::P_DOMAIN;
        if verbose {
            eprintln!("  {q_reason}; falling back to Iv");
        }
        out.q_fallback = true;
    }
    let Some(fiv) = cl.iv else {
        out.verdict = Verdict::Inconclusive(format!("{q_reason}, no interval engine"));
        return out;
    };
    crate::iv::reset();
    let mut ck = Ck::<Iv>::new(verbose);
    if verbose {
        eprintln!("engine Iv:");
    }
    let r = catch(|| fiv(case, &mut ck));
    let amb = crate::iv::ambiguous();
    let dom = crate::iv::domain_errors();
    out.iv_sig = Some(crate::iv::signature());
    out.checks = ck.checks;
    out.notes = ck.notes.clone();
    if amb > 0 || dom > 0 {
        out.verdict = Verdict::Inconclusive(format!(
            "Iv: {amb} ambiguous comparisons, {dom} domain events{}",
            if r.is_err() { " (panicked)" } else { "" }
        ));
        // The exact engine hit a division by exactly zero / a square root of a
        // negative number (and nothing else): over a field the computation is
        // undefined on this input.  The native run shows what that means for the
        // real type: a non-finite value handed to an oracle is a violation.
        if q_domain_only {
            if let Some(fnat) = cl.nat {
                let mut ckn = Ck::<f64>::new(false);
                let rn = catch(|| fnat(case, &mut ckn));
                let bad = ckn.trace.iter().position(|(lo, hi)| !lo.is_finite() || !hi.is_finite());
                if let Some(i) = bad {
                    out.verdict = Verdict::Violated(
                        Engine::Native,
                        format!("the exact engine divided by zero (or took the square root of a negative number) on this input and the native f64 run produces a non-finite value at oracle value #{i}"),
                    );
                } else if let Err(p) = rn {
                    out.verdict = Verdict::Violated(Engine::Native, format!("the exact engine divided by zero on this input and the native f64 run panicked: {p}"));
                }
            }
        }
        return out;
    }
    out.verdict = match (r, ck.fail.clone()) {
        (Err(p), _) => Verdict::Violated(Engine::Iv, format!("unexpected panic: {p}")),
        (Ok(()), Some(f)) => Verdict::Violated(Engine::Iv, f),
        (Ok(()), None) => {
            for (lo, hi) in &ck.trace {
                crate::iv::note_width(hi - lo);
            }
            Verdict::Held(Engine::Iv)
        }
    };
    // (N) native containment self-test: the native f64 run must stay inside
    // the enclosures along the same (certain) path.
    if let Some(fnat) = cl.nat {
        let mut ckn = Ck::<f64>::new(false);
        let rn = catch(|| fnat(case, &mut ckn));
        if rn.is_ok() && ckn.trace.len() == ck.trace.len() {
            let mut ok = true;
            let mut bad = String::new();
            for (i, ((lo, hi), (x, _))) in ck.trace.iter().zip(ckn.trace.iter()).enumerate() {
                // IEEE signed zeros put atan2(-0, x<0) at -pi where the real
                // function has +pi: accept the mirror image at the branch cut only
                let at_cut = x.abs() > 3.141592 && x.abs() < 3.141593 && *lo <= -x && -x <= *hi;
                // A native NaN where the reals have a value is a rounding artefact the
                // interval engine cannot mirror (e.g. acos of 1+1ulp for exactly parallel
                // inputs, DESIGN O4): not comparable, neither a monitor bug nor a verdict.
                if x.is_nan() {
                    continue;
                }
                if !(lo <= x && x <= hi) && !at_cut {
                    ok = false;
                    bad = format!("oracle value #{i}: native {x:?} outside [{lo:?}, {hi:?}]");
                    break;
                }
            }
            out.native_contained = Some(ok);
            if !ok {
                if let Verdict::Held(_) = out.verdict {
                    out.verdict = Verdict::MonitorBug(bad);
                }
            }
        } else if rn.is_err() {
            if let Verdict::Held(_) = out.verdict {
                // the enclosure run was fine and certain, but the native run panicked
                out.verdict = Verdict::Violated(
                    Engine::Native,
                    format!("native f64 run panicked: {}", rn.unwrap_err()),
                );
            }
        }
    }
    out
}

fn poison_name(p: u32) -> String {
    let mut v = vec![];
    if p & crate::q::P_INEXACT != 0 {
        v.push("inexact");
    }
    if p & crate::q::P_OVERFLOW != 0 {
        v.push("overflow");
    }
    if p & crate::q::P_DOMAIN != 0 {
        v.push("domain");
    }
    v.join("+")
}

#[derive(Default)]
pub struct ClauseStats {
    pub attempted: u64,
    pub held_q: u64,
    pub held_iv: u64,
    pub violated: u64,
    pub inconclusive: u64,
    pub monitor_bugs: u64,
    pub q_fallbacks: u64,
    pub native_contained: u64,
    pub native_checked: u64,
    pub oracle_checks: u64,
    pub sigs: HashSet<u64>,
    pub class_counts: BTreeMap<u16, u64>,
    pub nontrivial: HashSet<u64>,
    pub samples: Vec<Value>,
    pub violations: Vec<(u64, Case, String, String)>, // index, case, engine, message
    pub incon_reasons: BTreeMap<String, u64>,
    pub bug_msgs: Vec<String>,
    pub ev: [u64; 8], // q add, mul, div, sqrt, irrational, cmp, iv ops, iv trig
    pub iv_maxw: f64,
}

impl ClauseStats {
    fn merge(&mut self, o: ClauseStats) {
        self.attempted += o.attempted;
        self.held_q += o.held_q;
        self.held_iv += o.held_iv;
        self.violated += o.violated;
        self.inconclusive += o.inconclusive;
        self.monitor_bugs += o.monitor_bugs;
        self.q_fallbacks += o.q_fallbacks;
        self.native_contained += o.native_contained;
        self.native_checked += o.native_checked;
        self.oracle_checks += o.oracle_checks;
        self.sigs.extend(o.sigs);
        for (k, v) in o.class_counts {
            *self.class_counts.entry(k).or_default() += v;
        }
        self.nontrivial.extend(o.nontrivial);
        for s in o.samples {
            if self.samples.len() < 3 {
                self.samples.push(s);
            }
        }
        self.violations.extend(o.violations);
        for (k, v) in o.incon_reasons {
            *self.incon_reasons.entry(k).or_default() += v;
        }
        self.bug_msgs.extend(o.bug_msgs);
        for i in 0..8 {
            self.ev[i] += o.ev[i];
        }
        self.iv_maxw = self.iv_maxw.max(o.iv_maxw);
    }
}

pub struct RunCfg {
    pub property: &'static str,
    pub tier: Tier,
    pub seed: u64,
    pub threads: usize,
    pub base_cases: u64,
}

fn run_range(cl: &Clause, cfg: &RunCfg, lo: u64, hi: u64, step: u64) -> ClauseStats {
    let mut st = ClauseStats::default();
    let e0 = crate::q::events();
    let (o0, t0) = (crate::iv::ops(), crate::iv::trig_ops());
    let mut i = lo;
    while i < hi {
        let mut rng = Rng::for_case(cfg.seed, cl.name, i);
        let case = (cl.gen)(&mut rng, cfg.tier);
        let run = run_case(cl, &case, false);
        st.attempted += 1;
        st.oracle_checks += run.checks as u64;
        if run.q_fallback {
            st.q_fallbacks += 1;
        }
        if let Some(s) = run.q_sig {
            if st.sigs.len() < 4096 {
                st.sigs.insert(s);
            }
        }
        if let Some(s) = run.iv_sig {
            if st.sigs.len() < 4096 {
                st.sigs.insert(s ^ 0x5555);
            }
        }
        if let Some(c) = run.native_contained {
            st.native_checked += 1;
            if c {
                st.native_contained += 1;
            }
        }
        match &run.verdict {
            Verdict::Held(e) => {
                if *e == Engine::Q {
                    st.held_q += 1
                } else {
                    st.held_iv += 1
                }
                *st.class_counts.entry(case.class).or_default() += 1;
                if case.nontrivial {
                    st.nontrivial.insert(case.hash() ^ hash_str(cl.name));
                }
                if st.samples.len() < 2 {
                    st.samples.push(json!({
                        "clause": cl.name, "index": i, "engine": format!("{e:?}"),
                        "inputs": case.render(), "observed": run.notes,
                    }));
                }
            }
            Verdict::Violated(e, msg) => {
                st.violated += 1;
                if st.violations.len() < 50 {
                    st.violations
                        .push((i, case.clone(), format!("{e:?}"), msg.clone()));
                }
            }
            Verdict::Inconclusive(why) => {
                st.inconclusive += 1;
                let key: String = why.chars().take(60).collect();
                *st.incon_reasons.entry(key).or_default() += 1;
            }
            Verdict::MonitorBug(m) => {
                st.monitor_bugs += 1;
                if st.bug_msgs.len() < 5 {
                    st.bug_msgs
                        .push(format!("clause {} index {i}: {m}", cl.name));
                }
            }
        }
        i += step;
    }
    let e1 = crate::q::events();
    st.ev = [
        e1.add - e0.add,
        e1.mul - e0.mul,
        e1.div - e0.div,
        e1.sqrt - e0.sqrt,
        e1.trig - e0.trig,
        e1.cmp - e0.cmp,
        crate::iv::ops() - o0,
        crate::iv::trig_ops() - t0,
    ];
    st.iv_maxw = crate::iv::max_width();
    st
}

pub fn run_clause(cl: &Clause, cfg: &RunCfg) -> ClauseStats {
    let n = ((cfg.base_cases as f64) * cl.weight).ceil().max(1.0) as u64;
    let t = cfg.threads.max(1) as u64;
    if t == 1 || n < 64 {
        return run_range(cl, cfg, 0, n, 1);
    }
    let mut total = ClauseStats::default();
    std::thread::scope(|s| {
        let hs: Vec<_> = (0..t)
            .map(|k| s.spawn(move || run_range(cl, cfg, k, n, t)))
            .collect();
        for h in hs {
            total.merge(h.join().expect("worker thread panicked"));
        }
    });
    total
}

/// Known findings file: `finding: property=<ID> clause=<c> signature=<sig> — text`
pub struct Known {
    pub findings: Vec<(String, String, String, String)>, // property, clause, signature, text
}
impl Known {
    pub fn load() -> Known {
        let mut findings = vec![];
        let path = format!("{}/known_findings.txt", crate::verif_root());
        if let Ok(s) = std::fs::read_to_string(path) {
            for line in s.lines() {
                let line = line.trim();
                if let Some(rest) = line.strip_prefix("finding:") {
                    let rest = rest.trim();
                    let (head, text) = match rest.split_once(" — ") {
                        Some((h, t)) => (h, t.to_string()),
                        None => (rest, String::new()),
                    };
                    let mut prop = String::new();
                    let mut clause = String::new();
                    let mut sig = String::new();
                    if let Some(p) = head.find("signature=") {
                        sig = head[p + 10..].trim().to_string();
                        for tok in head[..p].split_whitespace() {
                            if let Some(v) = tok.strip_prefix("property=") {
                                prop = v.to_string();
                            }
                            if let Some(v) = tok.strip_prefix("clause=") {
                                clause = v.to_string();
                            }
                        }
                    }
                    findings.push((prop, clause, sig, text));
                }
            }
        }
        Known { findings }
    }
    pub fn matches(&self, prop: &str, clause: &str, sig: &str) -> Option<&str> {
        self.findings
            .iter()
            .find(|(p, c, s, _)| p == prop && c == clause && s == sig)
            .map(|(_, _, _, t)| t.as_str())
    }
}

/// signature of a violation for known-finding matching: clause-independent
/// rendering of the exact inputs
pub fn violation_signature(case: &Case) -> String {
    let mut s = String::new();
    s.push_str("r=");
    s.push_str(
        &case
            .r
            .iter()
            .map(|r| r.show())
            .collect::<Vec<_>>()
            .join(","),
    );
    s.push_str(";f=");
    s.push_str(
        &case
            .f
            .iter()
            .map(|x| format!("{:016x}", x.to_bits()))
            .collect::<Vec<_>>()
            .join(","),
    );
    s.push_str(";k=");
    s.push_str(
        &case
            .k
            .iter()
            .map(|x| x.to_string())
            .collect::<Vec<_>>()
            .join(","),
    );
    s
}

pub struct PropertyReport {
    pub exit: i32,
    pub evidence: Value,
}

/// Extra results contributed by native (non-clause) monitors of a property.
#[derive(Default)]
pub struct Extra {
    pub evaluations: u64,
    pub distinct_nontrivial: u64,
    pub violations: Vec<(String, String, Value)>, // clause, signature/message, replay payload
    pub inconclusive: Vec<String>,
    pub sections: BTreeMap<String, Value>,
    pub samples: Vec<Value>,
    pub exhaustive: Option<bool>,
}

pub fn run_property(
    cfg: &RunCfg,
    clauses: &[Clause],
    extra: Extra,
    rule: &str,
    assumptions: &[&str],
    start: Instant,
) -> PropertyReport {
    let known = Known::load();
    let mut per_clause = serde_json::Map::new();
    let mut evaluations = extra.evaluations;
    let mut distinct = extra.distinct_nontrivial;
    let mut samples: Vec<Value> = extra.samples.clone();
    let mut n_viol = 0u64;
    let mut n_known = 0u64;
    let mut exit2: Vec<String> = extra.inconclusive.clone();
    let mut entry_points: BTreeMap<&'static str, u64> = BTreeMap::new();
    let mut ev = [0u64; 8];
    let mut iv_maxw = 0f64;
    let mut total_sigs = 0usize;
    let mut q_fallbacks = 0u64;
    let mut nat_checked = 0u64;
    let mut nat_contained = 0u64;
    let mut oracle_checks = 0u64;
    let mut printed = 0;

    for cl in clauses {
        let st = run_clause(cl, cfg);
        evaluations += st.attempted;
        distinct += st.nontrivial.len() as u64;
        total_sigs += st.sigs.len();
        q_fallbacks += st.q_fallbacks;
        nat_checked += st.native_checked;
        nat_contained += st.native_contained;
        oracle_checks += st.oracle_checks;
        for i in 0..8 {
            ev[i] += st.ev[i];
        }
        iv_maxw = iv_maxw.max(st.iv_maxw);
        for ep in cl.entry_points {
            *entry_points.entry(ep).or_default() += st.attempted;
        }
        for s in &st.samples {
            if samples.len() < 12 {
                samples.push(s.clone());
            }
        }
        let decided = st.held_q + st.held_iv + st.violated;
        if st.attempted == 0 {
            exit2.push(format!("clause {}: no case attempted", cl.name));
        } else if (decided as f64) < 0.9 * st.attempted as f64 {
            exit2.push(format!(
                "clause {}: only {decided}/{} cases decided ({:?})",
                cl.name, st.attempted, st.incon_reasons
            ));
        }
        if st.monitor_bugs > 0 {
            exit2.push(format!(
                "clause {}: monitor self-test failed {} times: {:?}",
                cl.name, st.monitor_bugs, st.bug_msgs
            ));
        }
        for c in 0..cl.classes {
            if st.class_counts.get(&c).copied().unwrap_or(0) == 0 {
                exit2.push(format!(
                    "clause {}: coverage class {c} never decided-held or absent",
                    cl.name
                ));
            }
        }
        // violations
        let mut listed = 0;
        for (idx, case, engine, msg) in &st.violations {
            let sig = violation_signature(case);
            if let Some(text) = known.matches(cfg.property, cl.name, &sig) {
                println!(
                    "KNOWN-FINDING: property={} clause={} {} ({})",
                    cfg.property, cl.name, text, msg
                );
                n_known += 1;
                continue;
            }
            n_viol += 1;
            listed += 1;
            if listed <= 3 && printed < 12 {
                printed += 1;
                let path = format!(
                    "{}/replays/{}-{}-{}.json",
                    crate::verif_root(),
                    cfg.property,
                    cl.name.replace(['/', ' ', ':'], "_"),
                    idx
                );
                let payload = json!({
                    "property": cfg.property, "clause": cl.name, "engine": engine,
                    "seed": cfg.seed, "index": idx, "tier": format!("{:?}", cfg.tier).to_lowercase(),
                    "inputs": case.render(), "signature": sig, "message": msg,
                });
                let _ = std::fs::create_dir_all(format!("{}/replays", crate::verif_root()));
                let _ = std::fs::write(&path, serde_json::to_string_pretty(&payload).unwrap());
                println!("VIOLATION property={} replay={}", cfg.property, path);
                println!("  clause={} engine={} {}", cl.name, engine, msg);
            }
        }
        if st.violated as usize > st.violations.len() {
            n_viol += st.violated - st.violations.len() as u64;
        }
        per_clause.insert(
            cl.name.to_string(),
            json!({
                "attempted": st.attempted,
                "held_exact_Q": st.held_q,
                "held_interval_Iv": st.held_iv,
                "violated": st.violated,
                "inconclusive": st.inconclusive,
                "inconclusive_reasons": st.incon_reasons,
                "q_to_iv_fallbacks": st.q_fallbacks,
                "native_runs_checked_inside_enclosure": st.native_checked,
                "native_runs_contained": st.native_contained,
                "oracle_comparisons": st.oracle_checks,
                "distinct_branch_signatures": st.sigs.len(),
                "distinct_nontrivial": st.nontrivial.len(),
                "coverage_classes": st.class_counts,
                "entry_points": cl.entry_points,
            }),
        );
    }
    for (clause, msg, payload) in &extra.violations {
        if let Some(text) = known.matches(cfg.property, clause, msg) {
            println!(
                "KNOWN-FINDING: property={} clause={} {}",
                cfg.property, clause, text
            );
            n_known += 1;
            continue;
        }
        n_viol += 1;
        if printed < 12 {
            printed += 1;
            let path = format!(
                "{}/replays/{}-{}-n{}.json",
                crate::verif_root(),
                cfg.property,
                clause.replace(['/', ' ', ':'], "_"),
                n_viol
            );
            let _ = std::fs::create_dir_all(format!("{}/replays", crate::verif_root()));
            let body = json!({"property": cfg.property, "clause": clause, "engine": "native",
                "seed": cfg.seed, "signature": msg, "detail": payload,
                "tier": format!("{:?}", cfg.tier).to_lowercase()});
            let _ = std::fs::write(&path, serde_json::to_string_pretty(&body).unwrap());
            println!("VIOLATION property={} replay={}", cfg.property, path);
            println!("  clause={clause} {msg}");
        }
    }

    let mut coverage = serde_json::Map::new();
    coverage.insert("evaluations".into(), json!(evaluations));
    coverage.insert("distinct_nontrivial".into(), json!(distinct));
    coverage.insert("rule".into(), json!(rule));
    coverage.insert("samples".into(), json!(samples));
    coverage.insert("clauses".into(), Value::Object(per_clause));
    coverage.insert("entry_point_cases".into(), json!(entry_points));
    coverage.insert("distinct_branch_signatures_total".into(), json!(total_sigs));
    coverage.insert("oracle_comparisons".into(), json!(oracle_checks));
    coverage.insert("q_to_iv_fallbacks".into(), json!(q_fallbacks));
    coverage.insert(
        "native_containment".into(),
        json!({"checked": nat_checked, "contained": nat_contained}),
    );
    coverage.insert(
        "shadow_events".into(),
        json!({"q_add": ev[0], "q_mul": ev[1], "q_div": ev[2], "q_sqrt": ev[3],
               "q_irrational": ev[4], "q_comparisons": ev[5],
               "iv_ops": ev[6], "iv_trig": ev[7],
               "iv_max_oracle_width": iv_maxw}),
    );
    coverage.insert("known_findings_matched".into(), json!(n_known));
    coverage.insert("inconclusive_notes".into(), json!(exit2));
    if let Some(e) = extra.exhaustive {
        coverage.insert("exhaustive".into(), json!(e));
    }
    for (k, v) in extra.sections {
        coverage.insert(k, v);
    }
    let evidence = json!({
        "property_id": cfg.property,
        "tier": if cfg.tier == Tier::Quick { "quick" } else { "thorough" },
        "seed": cfg.seed,
        "level": "exploration",
        "coverage": Value::Object(coverage),
        "assumptions": assumptions,
        "wall_s": start.elapsed().as_secs_f64(),
        "violations": n_viol,
    });
    let exit = if n_viol > 0 {
        1
    } else if !exit2.is_empty() {
        for e in &exit2 {
            println!("INCONCLUSIVE property={} {}", cfg.property, e);
        }
        2
    } else {
        0
    };
    PropertyReport { exit, evidence }
}

/// Replay one recorded clause case verbosely; returns true if it still violates.
pub fn replay_clause(clauses: &[Clause], clause: &str, seed: u64, index: u64, tier: Tier) -> Option<bool> {
    let cl = clauses.iter().find(|c| c.name == clause)?;
    let mut rng = Rng::for_case(seed, cl.name, index);
    let case = (cl.gen)(&mut rng, tier);
    eprintln!("replaying clause {clause} seed {seed} index {index}: inputs {}", case.render());
    let run = run_case(cl, &case, true);
    eprintln!("verdict: {:?}", run.verdict);
    Some(matches!(run.verdict, Verdict::Violated(..)))
}

/// Merge an externally produced summary (e.g. the Miri run driven by the front
/// end) into the property's evidence.  Format:
/// `{"section": name, "summary": {...}, "evaluations": n, "violations": [{"clause","signature","detail"}], "inconclusive": [..]}`
pub fn merge_external(extra: &mut Extra, v: Value) {
    let name = v["section"].as_str().unwrap_or("external").to_string();
    extra.evaluations += v["evaluations"].as_u64().unwrap_or(0);
    extra.distinct_nontrivial += v["distinct_nontrivial"].as_u64().unwrap_or(0);
    if let Some(vs) = v["violations"].as_array() {
        for x in vs {
            extra.violations.push((
                x["clause"].as_str().unwrap_or("external").to_string(),
                x["signature"].as_str().unwrap_or("").to_string(),
                x["detail"].clone(),
            ));
        }
    }
    if let Some(vs) = v["inconclusive"].as_array() {
        for x in vs {
            extra.inconclusive.push(x.as_str().unwrap_or("external inconclusive").to_string());
        }
    }
    if let Some(s) = v["samples"].as_array() {
        for x in s {
            extra.samples.push(x.clone());
        }
    }
    extra.sections.insert(name, v["summary"].clone());
}
