//! Moves components between cgmath values and the model's plain arrays using
//! public fields and constructors only.

use cgmath::*;

pub fn v1<S: Copy>(v: Vector1<S>) -> [S; 1] {
    [v.x]
}
pub fn v2<S: Copy>(v: Vector2<S>) -> [S; 2] {
    [v.x, v.y]
}
pub fn v3<S: Copy>(v: Vector3<S>) -> [S; 3] {
    [v.x, v.y, v.z]
}
pub fn v4<S: Copy>(v: Vector4<S>) -> [S; 4] {
    [v.x, v.y, v.z, v.w]
}
pub fn p1<S: Copy>(v: Point1<S>) -> [S; 1] {
    [v.x]
}
pub fn p2<S: Copy>(v: Point2<S>) -> [S; 2] {
    [v.x, v.y]
}
pub fn p3<S: Copy>(v: Point3<S>) -> [S; 3] {
    [v.x, v.y, v.z]
}
pub fn m2<S: Copy>(m: Matrix2<S>) -> [[S; 2]; 2] {
    [v2(m.x), v2(m.y)]
}
pub fn m3<S: Copy>(m: Matrix3<S>) -> [[S; 3]; 3] {
    [v3(m.x), v3(m.y), v3(m.z)]
}
pub fn m4<S: Copy>(m: Matrix4<S>) -> [[S; 4]; 4] {
    [v4(m.x), v4(m.y), v4(m.z), v4(m.w)]
}
/// (w, x, y, z)
pub fn qt<S: Copy>(q: Quaternion<S>) -> [S; 4] {
    [q.s, q.v.x, q.v.y, q.v.z]
}

pub fn mk_v1<S: Copy>(a: [S; 1]) -> Vector1<S> {
    Vector1 { x: a[0] }
}
pub fn mk_v2<S: Copy>(a: [S; 2]) -> Vector2<S> {
    Vector2 { x: a[0], y: a[1] }
}
pub fn mk_v3<S: Copy>(a: [S; 3]) -> Vector3<S> {
    Vector3 {
        x: a[0],
        y: a[1],
        z: a[2],
    }
}
pub fn mk_v4<S: Copy>(a: [S; 4]) -> Vector4<S> {
    Vector4 {
        x: a[0],
        y: a[1],
        z: a[2],
        w: a[3],
    }
}
pub fn mk_p1<S: Copy>(a: [S; 1]) -> Point1<S> {
    Point1 { x: a[0] }
}
pub fn mk_p2<S: Copy>(a: [S; 2]) -> Point2<S> {
    Point2 { x: a[0], y: a[1] }
}
pub fn mk_p3<S: Copy>(a: [S; 3]) -> Point3<S> {
    Point3 {
        x: a[0],
        y: a[1],
        z: a[2],
    }
}
pub fn mk_m2<S: Copy>(a: [[S; 2]; 2]) -> Matrix2<S> {
    Matrix2 {
        x: mk_v2(a[0]),
        y: mk_v2(a[1]),
    }
}
pub fn mk_m3<S: Copy>(a: [[S; 3]; 3]) -> Matrix3<S> {
    Matrix3 {
        x: mk_v3(a[0]),
        y: mk_v3(a[1]),
        z: mk_v3(a[2]),
    }
}
pub fn mk_m4<S: Copy>(a: [[S; 4]; 4]) -> Matrix4<S> {
    Matrix4 {
        x: mk_v4(a[0]),
        y: mk_v4(a[1]),
        z: mk_v4(a[2]),
        w: mk_v4(a[3]),
    }
}
/// from (w, x, y, z)
pub fn mk_qt<S: Copy>(a: [S; 4]) -> Quaternion<S> {
    Quaternion {
        s: a[0],
        v: Vector3 {
            x: a[1],
            y: a[2],
            z: a[3],
        },
    }
}
