//! Start-up self-test of the monitors themselves (model vs model, shadow
//! scalars vs hand-computed facts).  A failure here is exit 2, never a verdict.

use num_traits::Float;

use crate::iv::Iv;
use crate::model::*;
use crate::q::Q;
use crate::sc::Sc;

fn check(ok: bool, what: &str, bad: &mut Vec<String>) {
    if !ok {
        bad.push(what.to_string());
    }
}

pub fn run() -> i32 {
    let mut bad = vec![];
    crate::q::reset();
    // Q arithmetic
    let a = Q::frac(1, 3);
    let b = Q::frac(1, 6);
    check(a + b == Q::frac(1, 2), "1/3+1/6", &mut bad);
    check(a * b == Q::frac(1, 18), "1/3*1/6", &mut bad);
    check(a / b == Q::i(2), "1/3 / 1/6", &mut bad);
    check(Q::frac(7, 2) % Q::i(2) == Q::frac(3, 2), "7/2 % 2", &mut bad);
    check(Q::frac(-7, 2) % Q::i(2) == Q::frac(-3, 2), "-7/2 % 2", &mut bad);
    check(Float::sqrt(Q::frac(9, 16)) == Q::frac(3, 4), "sqrt 9/16", &mut bad);
    check(crate::q::poisoned() == 0, "no poison so far", &mut bad);
    let _ = Float::sqrt(Q::i(2));
    check(crate::q::poisoned() == crate::q::P_INEXACT, "sqrt 2 poisons", &mut bad);
    crate::q::reset();
    check(Q::f(0.5) == Q::frac(1, 2), "0.5 exact", &mut bad);
    check(<Q as num_traits::NumCast>::from(0.499f64).unwrap() != Q::frac(499, 1000), "0.499 is the f64 dyadic", &mut bad);
    check(<Q as num_traits::NumCast>::from(2i8).unwrap() == Q::i(2), "cast 2i8", &mut bad);
    check(<Q as num_traits::NumCast>::from(7usize).unwrap() == Q::i(7), "cast 7usize", &mut bad);
    // model: rot_x == rodrigues about x, etc. (s=3/5, c=4/5)
    let (s, c) = (Q::frac(3, 5), Q::frac(4, 5));
    let z = Q::i(0);
    let o = Q::i(1);
    check(rot_x(s, c) == rot_axis([o, z, z], s, c), "rot_x vs rodrigues", &mut bad);
    check(rot_y(s, c) == rot_axis([z, o, z], s, c), "rot_y vs rodrigues", &mut bad);
    check(rot_z(s, c) == rot_axis([z, z, o], s, c), "rot_z vs rodrigues", &mut bad);
    // quaternion (c/2.. ) about z by angle with cos=4/5,sin=3/5: half angle cos=3/sqrt10 -> use another:
    // q = (w,0,0,z) with w=4/5,z=3/5 rotates by angle t with cos t = w^2-z^2 = 7/25, sin t = 2wz = 24/25
    let q = [Q::frac(4, 5), z, z, Q::frac(3, 5)];
    check(qmat(q) == rot_z(Q::frac(24, 25), Q::frac(7, 25)), "qmat vs rot_z", &mut bad);
    check(det(rot_axis([Q::frac(2, 3), Q::frac(2, 3), Q::frac(1, 3)], s, c)) == o, "det rot = 1", &mut bad);
    let m: M<Q, 3> = [[Q::i(2), z, z], [z, Q::i(3), z], [z, z, Q::i(5)]];
    check(det(m) == Q::i(30), "det diag", &mut bad);
    let sw: M<Q, 2> = [[z, o], [o, z]];
    check(det(sw) == Q::i(-1), "det swap", &mut bad);
    check(qmul([z, o, z, z], [z, z, o, z]) == [z, z, z, o], "i*j=k", &mut bad);
    check(crate::q::poisoned() == 0, "model self-test poison free", &mut bad);
    // Iv
    crate::iv::reset();
    let x = Iv::pt(1.0) / Iv::pt(3.0);
    check(x.lo < x.hi && x.lo <= 1.0 / 3.0 && 1.0 / 3.0 <= x.hi, "1/3 enclosure", &mut bad);
    let y = x * Iv::pt(3.0);
    check(y.contains(1.0), "1/3*3 contains 1", &mut bad);
    check((Iv::pt(0.25) + Iv::pt(0.5)).is_point(), "exact dyadic sum is a point", &mut bad);
    check((Iv::pt(3.0) * Iv::pt(7.0)).is_point(), "exact product is a point", &mut bad);
    check((Iv::pt(720.0) % Iv::pt(360.0)).contains(0.0), "720 % 360", &mut bad);
    let s2 = Float::sqrt(Iv::pt(2.0));
    check(s2.lo * s2.lo < 2.0 && s2.hi * s2.hi > 2.0, "sqrt2 enclosure", &mut bad);
    check(Float::sqrt(Iv::pt(6.25)).is_point(), "sqrt 6.25 exact", &mut bad);
    let sp = Float::sin(Iv::pi());
    check(sp.contains(0.0) && sp.width() < 1e-14, "sin(pi) encloses 0", &mut bad);
    let a2 = Float::atan2(Iv::pt(1.0), Iv::pt(1.0));
    check(a2.contains(std::f64::consts::FRAC_PI_4) && a2.width() < 1e-14, "atan2(1,1)", &mut bad);
    check(crate::iv::ambiguous() == 0, "no ambiguity in Iv self-test", &mut bad);
    let amb_before = crate::iv::ambiguous();
    let _ = x < x; // overlapping: must be flagged
    check(crate::iv::ambiguous() == amb_before + 1, "overlap flagged ambiguous", &mut bad);
    crate::iv::reset();
    crate::q::reset();
    if bad.is_empty() {
        0
    } else {
        for b in &bad {
            eprintln!("SELFTEST FAILED: {b}");
        }
        2
    }
}
