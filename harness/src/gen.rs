//! Deterministic PRNG and the shared input generators.

use crate::sc::Rat;

#[derive(Clone)]
pub struct Rng {
    s: [u64; 4],
}

fn splitmix(x: &mut u64) -> u64 {
    *x = x.wrapping_add(0x9e3779b97f4a7c15);
    let mut z = *x;
    z = (z ^ (z >> 30)).wrapping_mul(0xbf58476d1ce4e5b9);
    z = (z ^ (z >> 27)).wrapping_mul(0x94d049bb133111eb);
    z ^ (z >> 31)
}

pub fn hash_str(s: &str) -> u64 {
    let mut h: u64 = 0xcbf29ce484222325;
    for b in s.bytes() {
        h = (h ^ b as u64).wrapping_mul(0x100000001b3);
    }
    h
}

impl Rng {
    pub fn new(seed: u64) -> Rng {
        let mut x = seed;
        Rng {
            s: [
                splitmix(&mut x),
                splitmix(&mut x),
                splitmix(&mut x),
                splitmix(&mut x),
            ],
        }
    }
    /// The stream of one case: a function of (seed, clause, index) only.
    pub fn for_case(seed: u64, clause: &str, index: u64) -> Rng {
        let mut x = seed ^ hash_str(clause).rotate_left(17) ^ index.wrapping_mul(0xd6e8feb86659fd93);
        let _ = splitmix(&mut x);
        Rng::new(x)
    }
    pub fn next(&mut self) -> u64 {
        let s = &mut self.s;
        let r = s[1].wrapping_mul(5).rotate_left(7).wrapping_mul(9);
        let t = s[1] << 17;
        s[2] ^= s[0];
        s[3] ^= s[1];
        s[1] ^= s[2];
        s[0] ^= s[3];
        s[2] ^= t;
        s[3] = s[3].rotate_left(45);
        r
    }
    /// uniform in [0, n)
    pub fn below(&mut self, n: u64) -> u64 {
        debug_assert!(n > 0);
        ((self.next() as u128 * n as u128) >> 64) as u64
    }
    /// uniform integer in [lo, hi]
    pub fn range(&mut self, lo: i64, hi: i64) -> i64 {
        lo + self.below((hi - lo + 1) as u64) as i64
    }
    pub fn bool(&mut self) -> bool {
        self.next() & 1 == 1
    }
    pub fn chance(&mut self, num: u64, den: u64) -> bool {
        self.below(den) < num
    }
    /// uniform in [0,1)
    pub fn unit(&mut self) -> f64 {
        (self.next() >> 11) as f64 / (1u64 << 53) as f64
    }
    pub fn uniform(&mut self, lo: f64, hi: f64) -> f64 {
        lo + (hi - lo) * self.unit()
    }
    pub fn pick<T: Copy>(&mut self, xs: &[T]) -> T {
        xs[self.below(xs.len() as u64) as usize]
    }
    /// A "short" real: multiple of 2^-20 in [lo,hi]; exactly representable in
    /// f64 and cheap at Q.
    pub fn dyadic(&mut self, lo: f64, hi: f64) -> f64 {
        let x = self.uniform(lo, hi);
        (x * 1048576.0).round() / 1048576.0
    }
    /// log-uniform magnitude in [10^a, 10^b] with random sign, short dyadic mantissa
    pub fn log_uniform(&mut self, a: f64, b: f64) -> f64 {
        let e = self.uniform(a, b);
        let x = 10f64.powf(e);
        // keep 24 significant bits
        let (m, ex) = frexp(x);
        let m = (m * 16777216.0).round() / 16777216.0;
        let v = m * 2f64.powi(ex);
        if self.bool() {
            v
        } else {
            -v
        }
    }
}

fn frexp(x: f64) -> (f64, i32) {
    if x == 0.0 {
        return (0.0, 0);
    }
    let e = x.abs().log2().floor() as i32 + 1;
    (x / 2f64.powi(e), e)
}

#[derive(Clone, Copy, PartialEq, Eq, Debug)]
pub enum Tier {
    Quick,
    Thorough,
}

pub const DENS: [i64; 6] = [1, 2, 3, 4, 5, 7];

/// small rational: numerator in [-m, m], denominator from DENS
pub fn small_rat(rng: &mut Rng, tier: Tier) -> Rat {
    let m = if tier == Tier::Quick { 9 } else { 40 };
    // special values at fixed rates
    match rng.below(20) {
        0 => return Rat::int(0),
        1 => return Rat::int(1),
        2 => return Rat::int(-1),
        _ => {}
    }
    Rat::new(rng.range(-m, m), rng.pick(&DENS))
}

/// non-zero small rational
pub fn nz_rat(rng: &mut Rng, tier: Tier) -> Rat {
    loop {
        let r = small_rat(rng, tier);
        if !r.is_zero() {
            return r;
        }
    }
}

/// `n` small rationals, all non-zero and pairwise distinct (the "non-trivial" shape)
pub fn distinct_rats(rng: &mut Rng, tier: Tier, n: usize) -> Vec<Rat> {
    let m = if tier == Tier::Quick { 9 } else { 40 };
    let mut out: Vec<Rat> = Vec::with_capacity(n);
    while out.len() < n {
        let r = Rat::new(rng.range(-m, m), rng.pick(&DENS));
        if r.is_zero() || out.contains(&r) {
            continue;
        }
        out.push(r);
    }
    out
}

/// `n` rationals: mostly the non-trivial shape, sometimes with zeros / repeats mixed in
pub fn rats(rng: &mut Rng, tier: Tier, n: usize) -> (Vec<Rat>, bool) {
    // one draw in twelve: nothing but "round" values (-2 .. 2, halves), half of the time the same
    // value in every component -- the corners of the clip cube, the space diagonal, (1,1,1,1) ...
    if rng.chance(1, 12) {
        const ROUND: [(i64, i64); 8] = [(-1, 1), (1, 1), (0, 1), (2, 1), (-2, 1), (1, 2), (-1, 2), (3, 1)];
        let same = rng.bool();
        let first = rng.pick(&ROUND);
        let v: Vec<Rat> = (0..n).map(|_| if same { first } else { rng.pick(&ROUND) }).map(|(a, b)| Rat::new(a, b)).collect();
        let nt = is_nontrivial(&v);
        return (v, nt);
    }
    if rng.chance(4, 5) {
        (distinct_rats(rng, tier, n), true)
    } else {
        let v: Vec<Rat> = (0..n).map(|_| small_rat(rng, tier)).collect();
        let nt = is_nontrivial(&v);
        (v, nt)
    }
}

pub fn is_nontrivial(v: &[Rat]) -> bool {
    for (i, a) in v.iter().enumerate() {
        if a.is_zero() {
            return false;
        }
        for b in &v[..i] {
            if a == b {
                return false;
            }
        }
    }
    true
}

/// Rational point of the unit 3-sphere (w, x, y, z) by inverse stereographic
/// projection of the integer point p/m.
pub fn unit_quat(rng: &mut Rng, tier: Tier) -> [Rat; 4] {
    let m = if tier == Tier::Quick { 6 } else { 14 };
    loop {
        let p = [rng.range(-m, m), rng.range(-m, m), rng.range(-m, m)];
        let k = rng.range(1, m);
        let pp = p[0] * p[0] + p[1] * p[1] + p[2] * p[2];
        let den = k * k + pp;
        let q = [
            Rat::new(k * k - pp, den),
            Rat::new(2 * k * p[0], den),
            Rat::new(2 * k * p[1], den),
            Rat::new(2 * k * p[2], den),
        ];
        // random sign so that w < 0 is covered too
        if rng.bool() {
            return [
                Rat::new(-q[0].n, q[0].d),
                Rat::new(-q[1].n, q[1].d),
                Rat::new(-q[2].n, q[2].d),
                Rat::new(-q[3].n, q[3].d),
            ];
        }
        return q;
    }
}

/// generic-position unit quaternion: all four components non-zero, |.| distinct
pub fn unit_quat_generic(rng: &mut Rng, tier: Tier) -> [Rat; 4] {
    loop {
        let q = unit_quat(rng, tier);
        let a: Vec<i64> = q.iter().map(|r| (r.n * (1_000_000 / r.d.min(1_000_000))).abs()).collect();
        if q.iter().all(|r| !r.is_zero())
            && q[0].approx().abs() != q[1].approx().abs()
            && q[1].approx().abs() != q[2].approx().abs()
            && q[2].approx().abs() != q[3].approx().abs()
            && q[0].approx().abs() != q[2].approx().abs()
            && q[0].approx().abs() != q[3].approx().abs()
            && q[1].approx().abs() != q[3].approx().abs()
        {
            let _ = a;
            return q;
        }
    }
}

/// Rational point of the unit 2-sphere.
pub fn unit_vec3(rng: &mut Rng, tier: Tier) -> [Rat; 3] {
    let m = if tier == Tier::Quick { 7 } else { 20 };
    let p = [rng.range(-m, m), rng.range(-m, m)];
    let k = rng.range(1, m);
    let pp = p[0] * p[0] + p[1] * p[1];
    let den = k * k + pp;
    let v = [
        Rat::new(2 * k * p[0], den),
        Rat::new(2 * k * p[1], den),
        Rat::new(k * k - pp, den),
    ];
    // random signed permutation so that no axis is special
    let perm = match rng.below(6) {
        0 => [0, 1, 2],
        1 => [0, 2, 1],
        2 => [1, 0, 2],
        3 => [1, 2, 0],
        4 => [2, 0, 1],
        _ => [2, 1, 0],
    };
    let mut o = [v[perm[0]], v[perm[1]], v[perm[2]]];
    for r in o.iter_mut() {
        if rng.bool() {
            *r = Rat::new(-r.n, r.d);
        }
    }
    o
}

/// Rational point of the unit circle.
pub fn unit_vec2(rng: &mut Rng, tier: Tier) -> [Rat; 2] {
    let m = if tier == Tier::Quick { 9 } else { 30 };
    let p = rng.range(-m, m);
    let k = rng.range(1, m);
    let den = k * k + p * p;
    let (c, s) = (Rat::new(k * k - p * p, den), Rat::new(2 * k * p, den));
    match rng.below(4) {
        0 => [c, s],
        1 => [s, c],
        2 => [Rat::new(-c.n, c.d), s],
        _ => [s, Rat::new(-c.n, c.d)],
    }
}

/// An angle (radians) for interval cases: mostly uniform in [-4pi, 4pi] on a
/// 2^-20 grid, sometimes one of the special values.
pub fn angle(rng: &mut Rng) -> f64 {
    use std::f64::consts::PI;
    match rng.below(16) {
        0 => 0.0,
        1 => rng.pick(&[PI / 2.0, -PI / 2.0, PI, -PI, 2.0 * PI, -2.0 * PI]),
        2 => rng.pick(&[1e-9, -1e-9, 1e-5, -1e-5]),
        _ => rng.dyadic(-4.0 * PI, 4.0 * PI),
    }
}

/// geometric ladder value approaching `t` from the side `side` (+1 above, -1 below):
/// t * (1 + side * 10^-k), k in 1..=9
pub fn ladder(rng: &mut Rng, t: f64, side: i32) -> f64 {
    let k = rng.range(1, 9) as i32;
    t * (1.0 + side as f64 * 10f64.powi(-k))
}

/// A matrix of the kind real programs build with the crate's own constructors, as n*n rationals
/// in column-major order: identity, (non-)uniform scale, translation, scale + translation
/// ("viewport"), an exact rational rotation, rotation + translation, a projection-shaped matrix
/// (perspective / frustum / ortho sparsity pattern), a diagonal with one zero.  Dense random
/// matrices essentially never have these exact 0 / 1 patterns, and code that special-cases a
/// pattern is only reached through them.  Returns (entries, kind).
pub fn structured_matrix(rng: &mut Rng, tier: Tier, n: usize) -> (Vec<Rat>, u16) {
    let z = Rat::int(0);
    let o = Rat::int(1);
    let mut m = vec![z; n * n];
    let at = |c: usize, r: usize| c * n + r;
    for i in 0..n {
        m[at(i, i)] = o;
    }
    let kind = rng.below(9) as u16;
    let nz = |rng: &mut Rng| nz_rat(rng, tier);
    match kind {
        0 => {} // identity
        1 => {
            // uniform or non-uniform scale of the leading (n-1) block, or of everything
            let s = nz(rng);
            let uniform = rng.bool();
            let upto = if rng.bool() { n } else { n - 1 };
            for i in 0..upto {
                m[at(i, i)] = if uniform { s } else { nz(rng) };
            }
        }
        2 => {
            // translation
            for r in 0..n - 1 {
                m[at(n - 1, r)] = nz(rng);
            }
        }
        3 => {
            // non-uniform scale + translation (viewport / pixel mapping)
            for i in 0..n - 1 {
                m[at(i, i)] = nz(rng);
                m[at(n - 1, i)] = nz(rng);
            }
        }
        4 | 5 => {
            // exact rational rotation in the leading 2x2 (n = 2, 3) or 3x3 (n = 4) block, kind 5 with translation
            if n == 4 {
                let q = unit_quat(rng, Tier::Quick);
                let (w, x, y, zq) = (q[0], q[1], q[2], q[3]);
                let mul = |a: Rat, b: Rat| Rat::new(a.n * b.n, a.d * b.d);
                let add = |a: Rat, b: Rat| Rat::new(a.n * b.d + b.n * a.d, a.d * b.d);
                let sub = |a: Rat, b: Rat| Rat::new(a.n * b.d - b.n * a.d, a.d * b.d);
                let two = |a: Rat| Rat::new(2 * a.n, a.d);
                let one = Rat::int(1);
                // columns of the rotation matrix of the unit quaternion (w, x, y, z)
                m[at(0, 0)] = sub(one, two(add(mul(y, y), mul(zq, zq))));
                m[at(0, 1)] = two(add(mul(x, y), mul(w, zq)));
                m[at(0, 2)] = two(sub(mul(x, zq), mul(w, y)));
                m[at(1, 0)] = two(sub(mul(x, y), mul(w, zq)));
                m[at(1, 1)] = sub(one, two(add(mul(x, x), mul(zq, zq))));
                m[at(1, 2)] = two(add(mul(y, zq), mul(w, x)));
                m[at(2, 0)] = two(add(mul(x, zq), mul(w, y)));
                m[at(2, 1)] = two(sub(mul(y, zq), mul(w, x)));
                m[at(2, 2)] = sub(one, two(add(mul(x, x), mul(y, y))));
            } else {
                let [c, s_] = unit_vec2(rng, Tier::Quick);
                m[at(0, 0)] = c;
                m[at(0, 1)] = s_;
                m[at(1, 0)] = Rat::new(-s_.n, s_.d);
                m[at(1, 1)] = c;
            }
            if kind == 5 {
                for r in 0..n - 1 {
                    m[at(n - 1, r)] = nz(rng);
                }
            }
        }
        6 => {
            // projection-shaped: perspective / frustum pattern for n = 4, its 3x3 and 2x2 analogues below
            if n == 4 {
                m = vec![z; 16];
                m[at(0, 0)] = nz(rng);
                m[at(1, 1)] = nz(rng);
                m[at(2, 2)] = nz(rng);
                m[at(2, 3)] = Rat::int(-1);
                m[at(3, 2)] = nz(rng);
                if rng.bool() {
                    // frustum: off-centre window
                    m[at(2, 0)] = nz(rng);
                    m[at(2, 1)] = nz(rng);
                }
            } else {
                m = vec![z; n * n];
                for i in 0..n - 1 {
                    m[at(i, i)] = nz(rng);
                }
                m[at(n - 1, n - 2)] = nz(rng);
                m[at(n - 2, n - 1)] = Rat::int(-1);
            }
        }
        7 => {
            // ortho-shaped: diagonal scale, translation, w = 1
            for i in 0..n - 1 {
                m[at(i, i)] = nz(rng);
                m[at(n - 1, i)] = small_rat(rng, tier);
            }
        }
        _ => {
            // singular structured: a scale with one zero factor, plus translation
            for i in 0..n - 1 {
                m[at(i, i)] = nz(rng);
                m[at(n - 1, i)] = nz(rng);
            }
            let k = rng.below(n as u64 - 1) as usize;
            m[at(k, k)] = z;
        }
    }
    (m, kind)
}
