//! cgv-c16 — monitors of property C16.
#[path = "../props/c16.rs"]
mod prop;

fn main() {
    cgv_core::main_for(cgv_core::Prop { id: "C16", clauses: prop::clauses, extra: prop::native, rule: prop::RULE, assume: prop::ASSUME })
}
