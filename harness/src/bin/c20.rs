//! cgv-c20 — monitors of property C20.
#[path = "../props/c20.rs"]
mod prop;

fn main() {
    cgv_core::main_for(cgv_core::Prop { id: "C20", clauses: prop::clauses, extra: prop::native, rule: prop::RULE, assume: prop::ASSUME })
}
