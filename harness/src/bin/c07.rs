//! cgv-c07 — monitors of property C07.
#[path = "../props/c07.rs"]
mod prop;

fn main() {
    cgv_core::main_for(cgv_core::Prop { id: "C07", clauses: prop::clauses, extra: prop::native, rule: prop::RULE, assume: prop::ASSUME })
}
