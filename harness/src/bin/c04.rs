//! cgv-c04 — monitors of property C04.
#[path = "../props/c04.rs"]
mod prop;

fn main() {
    cgv_core::main_for(cgv_core::Prop { id: "C04", clauses: prop::clauses, extra: prop::native, rule: prop::RULE, assume: prop::ASSUME })
}
