//! cgv-c11 — monitors of property C11.
#[path = "../props/c11.rs"]
mod prop;

fn main() {
    cgv_core::main_for(cgv_core::Prop { id: "C11", clauses: prop::clauses, extra: prop::native_all, rule: prop::RULE, assume: prop::ASSUME })
}
