//! cgv-c05 — monitors of property C05.
#[path = "../props/c05.rs"]
mod prop;

fn main() {
    cgv_core::main_for(cgv_core::Prop { id: "C05", clauses: prop::clauses, extra: prop::native, rule: prop::RULE, assume: prop::ASSUME })
}
