//! cgv-c06 — monitors of property C06.
#[path = "../props/c06.rs"]
mod prop;

fn main() {
    cgv_core::main_for(cgv_core::Prop { id: "C06", clauses: prop::clauses, extra: prop::native, rule: prop::RULE, assume: prop::ASSUME })
}
