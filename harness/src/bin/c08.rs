//! cgv-c08 — monitors of property C08.
#[path = "../props/c08.rs"]
mod prop;

fn main() {
    cgv_core::main_for(cgv_core::Prop { id: "C08", clauses: prop::clauses, extra: prop::native, rule: prop::RULE, assume: prop::ASSUME })
}
