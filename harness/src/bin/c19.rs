//! cgv-c19 — monitors of property C19.
#[path = "../props/c19.rs"]
mod prop;

fn main() {
    cgv_core::main_for(cgv_core::Prop { id: "C19", clauses: prop::clauses, extra: prop::native, rule: prop::RULE, assume: prop::ASSUME })
}
