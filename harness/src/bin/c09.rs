//! cgv-c09 — monitors of property C09.
#[path = "../props/c09.rs"]
mod prop;

fn main() {
    cgv_core::main_for(cgv_core::Prop { id: "C09", clauses: prop::clauses, extra: cgv_core::twins::c09, rule: prop::RULE, assume: prop::ASSUME })
}
