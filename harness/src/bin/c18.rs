//! cgv-c18 — monitors of property C18.
#[path = "../props/c18.rs"]
mod prop;

fn main() {
    cgv_core::main_for(cgv_core::Prop { id: "C18", clauses: prop::clauses, extra: prop::native, rule: prop::RULE, assume: prop::ASSUME })
}
