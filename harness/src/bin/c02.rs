//! cgv-c02 — monitors of property C02.
#[path = "../props/c02.rs"]
mod prop;

fn main() {
    cgv_core::main_for(cgv_core::Prop { id: "C02", clauses: prop::clauses, extra: prop::native, rule: prop::RULE, assume: prop::ASSUME })
}
