//! cgv-c14 — monitors of property C14.
#[path = "../props/c14.rs"]
mod prop;

fn main() {
    cgv_core::main_for(cgv_core::Prop { id: "C14", clauses: prop::clauses, extra: prop::native_all, rule: prop::RULE, assume: prop::ASSUME })
}
