//! cgv-c10 — monitors of property C10.
#[path = "../props/c10.rs"]
mod prop;

fn main() {
    cgv_core::main_for(cgv_core::Prop { id: "C10", clauses: prop::clauses, extra: prop::native, rule: prop::RULE, assume: prop::ASSUME })
}
