//! cgv-c12 — monitors of property C12.
#[path = "../props/c12.rs"]
mod prop;

fn main() {
    cgv_core::main_for(cgv_core::Prop { id: "C12", clauses: prop::clauses, extra: prop::native, rule: prop::RULE, assume: prop::ASSUME })
}
