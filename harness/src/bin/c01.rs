//! cgv-c01 — monitors of property C01.
#[path = "../props/c01.rs"]
mod prop;

fn main() {
    cgv_core::main_for(cgv_core::Prop { id: "C01", clauses: prop::clauses, extra: prop::native, rule: prop::RULE, assume: prop::ASSUME })
}
