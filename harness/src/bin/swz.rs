//! cgv-swz — all 550 swizzle accessors, each compared with the components its
//! name spells.  Writes a JSON summary (for `cgv C16 --merge-json`) to argv[1].

use cgmath::{Point1, Point2, Point3, Vector1, Vector2, Vector3, Vector4};

pub struct Rec {
    pub checks: u64,
    pub names: std::collections::BTreeSet<&'static str>,
    pub fails: Vec<String>,
    pub sample: Vec<String>,
}
impl Rec {
    pub fn check<S: PartialEq + std::fmt::Debug>(&mut self, name: &'static str, got: &[S], exp: &[S]) {
        self.checks += 1;
        self.names.insert(name);
        if got != exp && self.fails.len() < 20 {
            self.fails.push(format!("{name}: got {got:?}, expected {exp:?}"));
        }
        if self.sample.len() < 3 && got.len() == 3 {
            self.sample.push(format!("{name} -> {got:?}"));
        }
    }
}

include!(concat!(env!("OUT_DIR"), "/swizzle_table.rs"));

fn main() {
    let out = std::env::args().nth(1);
    let mut rec = Rec { checks: 0, names: Default::default(), fails: vec![], sample: vec![] };
    // pairwise distinct components so that a wrong letter is visible
    macro_rules! vecs {
        ($($T:ty => [$a:expr, $b:expr, $c:expr, $d:expr]),*) => {$(
            swz_vector4::<$T>(Vector4::new($a, $b, $c, $d), [$a, $b, $c, $d], &mut rec);
            swz_vector3::<$T>(Vector3::new($a, $b, $c), [$a, $b, $c], &mut rec);
            swz_vector2::<$T>(Vector2::new($a, $b), [$a, $b], &mut rec);
            swz_vector1::<$T>(Vector1::new($a), [$a], &mut rec);
        )*};
    }
    vecs!(i32 => [11, 22, 33, 44], f64 => [1.5, 2.5, 3.5, 4.5], u8 => [1, 2, 3, 4], i64 => [-7, 8, -9, 10], f32 => [0.25, 0.5, 0.75, 1.0]);
    macro_rules! pts {
        ($($T:ty => [$a:expr, $b:expr, $c:expr]),*) => {$(
            swz_point3::<$T>(Point3::new($a, $b, $c), [$a, $b, $c], &mut rec);
            swz_point2::<$T>(Point2::new($a, $b), [$a, $b], &mut rec);
            swz_point1::<$T>(Point1::new($a), [$a], &mut rec);
        )*};
    }
    pts!(i32 => [11, 22, 33], f64 => [1.5, 2.5, 3.5], char => ['p', 'q', 'r'], (u8, u16) => [(1, 100), (2, 200), (3, 300)], &'static str => ["a", "b", "c"]);
    let names_ok = rec.names.len() == SWIZZLE_NAMES && SWIZZLE_NAMES == 550;
    let viol: Vec<serde_json::Value> = rec
        .fails
        .iter()
        .map(|f| serde_json::json!({"clause": "swizzles", "signature": f, "detail": {"message": f}}))
        .collect();
    let mut incon = vec![];
    if !names_ok {
        incon.push(format!("swizzle table has {} names, driven {}", SWIZZLE_NAMES, rec.names.len()));
    }
    let summary = serde_json::json!({
        "section": "swizzles",
        "summary": {"names": rec.names.len(), "calls": rec.checks, "exhaustive": true,
                    "per_type": {"Vector4": SWZ_VECTOR4_COUNT, "Vector3": SWZ_VECTOR3_COUNT, "Vector2": SWZ_VECTOR2_COUNT, "Vector1": SWZ_VECTOR1_COUNT,
                                 "Point3": SWZ_POINT3_COUNT, "Point2": SWZ_POINT2_COUNT, "Point1": SWZ_POINT1_COUNT},
                    "element_types": {"vectors": ["i32", "f64", "u8", "i64", "f32"], "points": ["i32", "f64", "char", "(u8,u16)", "&str"]}},
        "evaluations": rec.checks,
        "distinct_nontrivial": rec.names.len(),
        "violations": viol,
        "inconclusive": incon,
        "samples": rec.sample.iter().map(|s| serde_json::json!({"clause": "swizzles", "call": s})).collect::<Vec<_>>(),
    });
    match out {
        Some(p) => std::fs::write(p, serde_json::to_string(&summary).unwrap()).unwrap(),
        None => println!("{}", serde_json::to_string_pretty(&summary).unwrap()),
    }
    if !rec.fails.is_empty() {
        for f in &rec.fails {
            eprintln!("SWIZZLE MISMATCH {f}");
        }
        std::process::exit(1);
    }
}
