//! cgv-c17 — monitors of property C17.
#[path = "../props/c17.rs"]
mod prop;

fn main() {
    cgv_core::main_for(cgv_core::Prop { id: "C17", clauses: prop::clauses, extra: prop::native, rule: prop::RULE, assume: prop::ASSUME })
}
