//! cgv-c03 — monitors of property C03.
#[path = "../props/c03.rs"]
mod prop;

fn main() {
    cgv_core::main_for(cgv_core::Prop { id: "C03", clauses: prop::clauses, extra: prop::native, rule: prop::RULE, assume: prop::ASSUME })
}
