//! cgv-c15 — monitors of property C15.
#[path = "../props/c15.rs"]
mod prop;

fn main() {
    cgv_core::main_for(cgv_core::Prop { id: "C15", clauses: prop::clauses, extra: prop::native, rule: prop::RULE, assume: prop::ASSUME })
}
