//! cgv-c13 — monitors of property C13.
#[path = "../props/c13.rs"]
mod prop;

fn main() {
    cgv_core::main_for(cgv_core::Prop { id: "C13", clauses: prop::clauses, extra: prop::native, rule: prop::RULE, assume: prop::ASSUME })
}
