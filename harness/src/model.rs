//! The harness' independent reference model: plain arrays, textbook loops.
//! Matrices are `[[S; N]; N]` indexed `[column][row]`.  Nothing in this file
//! calls into cgmath's algorithms; `conv` only moves components through
//! public fields.

use crate::sc::Sc;

pub type V<S, const N: usize> = [S; N];
pub type M<S, const N: usize> = [[S; N]; N];
/// quaternion as (w, x, y, z)
pub type Qt<S> = [S; 4];

pub fn zero<S: Sc>() -> S {
    S::i(0)
}
pub fn one<S: Sc>() -> S {
    S::i(1)
}

pub fn vadd<S: Sc, const N: usize>(a: V<S, N>, b: V<S, N>) -> V<S, N> {
    let mut o = a;
    for i in 0..N {
        o[i] = a[i] + b[i];
    }
    o
}
pub fn vsub<S: Sc, const N: usize>(a: V<S, N>, b: V<S, N>) -> V<S, N> {
    let mut o = a;
    for i in 0..N {
        o[i] = a[i] - b[i];
    }
    o
}
pub fn vscale<S: Sc, const N: usize>(a: V<S, N>, k: S) -> V<S, N> {
    let mut o = a;
    for i in 0..N {
        o[i] = a[i] * k;
    }
    o
}
pub fn vneg<S: Sc, const N: usize>(a: V<S, N>) -> V<S, N> {
    let mut o = a;
    for i in 0..N {
        o[i] = -a[i];
    }
    o
}
pub fn vdot<S: Sc, const N: usize>(a: V<S, N>, b: V<S, N>) -> S {
    let mut s = zero::<S>();
    for i in 0..N {
        s = s + a[i] * b[i];
    }
    s
}
pub fn vlen2<S: Sc, const N: usize>(a: V<S, N>) -> S {
    vdot(a, a)
}
pub fn cross<S: Sc>(a: V<S, 3>, b: V<S, 3>) -> V<S, 3> {
    [
        a[1] * b[2] - a[2] * b[1],
        a[2] * b[0] - a[0] * b[2],
        a[0] * b[1] - a[1] * b[0],
    ]
}

pub fn mzero<S: Sc, const N: usize>() -> M<S, N> {
    [[zero::<S>(); N]; N]
}
pub fn mident<S: Sc, const N: usize>() -> M<S, N> {
    let mut m = mzero::<S, N>();
    for i in 0..N {
        m[i][i] = one::<S>();
    }
    m
}
/// (A*B)[c][r] = sum_k A[k][r] * B[c][k]
pub fn mmul<S: Sc, const N: usize>(a: M<S, N>, b: M<S, N>) -> M<S, N> {
    let mut o = mzero::<S, N>();
    for c in 0..N {
        for r in 0..N {
            let mut s = zero::<S>();
            for k in 0..N {
                s = s + a[k][r] * b[c][k];
            }
            o[c][r] = s;
        }
    }
    o
}
/// (A*v)[r] = sum_c A[c][r] * v[c]
pub fn mvec<S: Sc, const N: usize>(a: M<S, N>, v: V<S, N>) -> V<S, N> {
    let mut o = [zero::<S>(); N];
    for r in 0..N {
        let mut s = zero::<S>();
        for c in 0..N {
            s = s + a[c][r] * v[c];
        }
        o[r] = s;
    }
    o
}
pub fn mtrans<S: Sc, const N: usize>(a: M<S, N>) -> M<S, N> {
    let mut o = a;
    for c in 0..N {
        for r in 0..N {
            o[c][r] = a[r][c];
        }
    }
    o
}
pub fn madd<S: Sc, const N: usize>(a: M<S, N>, b: M<S, N>) -> M<S, N> {
    let mut o = a;
    for c in 0..N {
        for r in 0..N {
            o[c][r] = a[c][r] + b[c][r];
        }
    }
    o
}
pub fn msub<S: Sc, const N: usize>(a: M<S, N>, b: M<S, N>) -> M<S, N> {
    let mut o = a;
    for c in 0..N {
        for r in 0..N {
            o[c][r] = a[c][r] - b[c][r];
        }
    }
    o
}
pub fn mscale<S: Sc, const N: usize>(a: M<S, N>, k: S) -> M<S, N> {
    let mut o = a;
    for c in 0..N {
        for r in 0..N {
            o[c][r] = a[c][r] * k;
        }
    }
    o
}

/// all permutations of 0..n with their sign
pub fn perms(n: usize) -> Vec<(Vec<usize>, i32)> {
    fn rec(cur: &mut Vec<usize>, used: &mut Vec<bool>, n: usize, out: &mut Vec<(Vec<usize>, i32)>) {
        if cur.len() == n {
            let mut inv = 0;
            for i in 0..n {
                for j in i + 1..n {
                    if cur[i] > cur[j] {
                        inv += 1;
                    }
                }
            }
            out.push((cur.clone(), if inv % 2 == 0 { 1 } else { -1 }));
            return;
        }
        for i in 0..n {
            if !used[i] {
                used[i] = true;
                cur.push(i);
                rec(cur, used, n, out);
                cur.pop();
                used[i] = false;
            }
        }
    }
    let mut out = Vec::new();
    rec(&mut Vec::new(), &mut vec![false; n], n, &mut out);
    out
}

/// Leibniz expansion: det = sum over permutations sgn * prod_c m[c][perm(c)]
pub fn det<S: Sc, const N: usize>(m: M<S, N>) -> S {
    let mut s = zero::<S>();
    for (p, sign) in perms(N) {
        let mut t = one::<S>();
        for c in 0..N {
            t = t * m[c][p[c]];
        }
        if sign > 0 {
            s = s + t;
        } else {
            s = s - t;
        }
    }
    s
}

// ---------------------------------------------------------------- quaternions

/// Hamilton product from the multiplication table of 1, i, j, k.
pub fn qmul<S: Sc>(a: Qt<S>, b: Qt<S>) -> Qt<S> {
    // basis index 0=1, 1=i, 2=j, 3=k; TABLE[x][y] = (sign, index) of e_x * e_y
    const T: [[(i32, usize); 4]; 4] = [
        [(1, 0), (1, 1), (1, 2), (1, 3)],
        [(1, 1), (-1, 0), (1, 3), (-1, 2)],
        [(1, 2), (-1, 3), (-1, 0), (1, 1)],
        [(1, 3), (1, 2), (-1, 1), (-1, 0)],
    ];
    let mut o = [zero::<S>(); 4];
    for x in 0..4 {
        for y in 0..4 {
            let (s, k) = T[x][y];
            let t = a[x] * b[y];
            o[k] = if s > 0 { o[k] + t } else { o[k] - t };
        }
    }
    o
}
pub fn qconj<S: Sc>(a: Qt<S>) -> Qt<S> {
    [a[0], -a[1], -a[2], -a[3]]
}
pub fn qnorm2<S: Sc>(a: Qt<S>) -> S {
    vdot(a, a)
}
/// vector part of q * (0,v) * conj(q)
pub fn qsandwich<S: Sc>(q: Qt<S>, v: V<S, 3>) -> V<S, 3> {
    let p = [zero::<S>(), v[0], v[1], v[2]];
    let r = qmul(qmul(q, p), qconj(q));
    [r[1], r[2], r[3]]
}
/// Rotation matrix of a unit quaternion, from the sandwich product applied to
/// the basis vectors (column c = q e_c q*).
pub fn qmat<S: Sc>(q: Qt<S>) -> M<S, 3> {
    let z = zero::<S>();
    let o = one::<S>();
    [
        qsandwich(q, [o, z, z]),
        qsandwich(q, [z, o, z]),
        qsandwich(q, [z, z, o]),
    ]
}

// ---------------------------------------------------------------- rotations

/// Rodrigues: v cos t + (a x v) sin t + a (a.v)(1 - cos t), given sin and cos
pub fn rodrigues<S: Sc>(a: V<S, 3>, s: S, c: S, v: V<S, 3>) -> V<S, 3> {
    let axv = cross(a, v);
    let adv = vdot(a, v);
    let k = adv * (one::<S>() - c);
    [
        v[0] * c + axv[0] * s + a[0] * k,
        v[1] * c + axv[1] * s + a[1] * k,
        v[2] * c + axv[2] * s + a[2] * k,
    ]
}
/// rotation matrix about axis `a` built column-wise from Rodrigues
pub fn rot_axis<S: Sc>(a: V<S, 3>, s: S, c: S) -> M<S, 3> {
    let z = zero::<S>();
    let o = one::<S>();
    [
        rodrigues(a, s, c, [o, z, z]),
        rodrigues(a, s, c, [z, o, z]),
        rodrigues(a, s, c, [z, z, o]),
    ]
}
pub fn rot_x<S: Sc>(s: S, c: S) -> M<S, 3> {
    let z = zero::<S>();
    let o = one::<S>();
    // columns: e_x -> e_x ; e_y -> (0,c,s) ; e_z -> (0,-s,c)
    [[o, z, z], [z, c, s], [z, -s, c]]
}
pub fn rot_y<S: Sc>(s: S, c: S) -> M<S, 3> {
    let z = zero::<S>();
    let o = one::<S>();
    // e_x -> (c,0,-s); e_y -> e_y; e_z -> (s,0,c)
    [[c, z, -s], [z, o, z], [s, z, c]]
}
pub fn rot_z<S: Sc>(s: S, c: S) -> M<S, 3> {
    let z = zero::<S>();
    let o = one::<S>();
    [[c, s, z], [-s, c, z], [z, z, o]]
}
/// embed a 3x3 into a 4x4 identity
pub fn embed34<S: Sc>(m: M<S, 3>) -> M<S, 4> {
    let mut o = mident::<S, 4>();
    for c in 0..3 {
        for r in 0..3 {
            o[c][r] = m[c][r];
        }
    }
    o
}
pub fn embed23<S: Sc>(m: M<S, 2>) -> M<S, 3> {
    let mut o = mident::<S, 3>();
    for c in 0..2 {
        for r in 0..2 {
            o[c][r] = m[c][r];
        }
    }
    o
}
pub fn embed24<S: Sc>(m: M<S, 2>) -> M<S, 4> {
    let mut o = mident::<S, 4>();
    for c in 0..2 {
        for r in 0..2 {
            o[c][r] = m[c][r];
        }
    }
    o
}
pub fn top3<S: Sc>(m: M<S, 4>) -> M<S, 3> {
    let mut o = mident::<S, 3>();
    for c in 0..3 {
        for r in 0..3 {
            o[c][r] = m[c][r];
        }
    }
    o
}
