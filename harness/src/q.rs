//! M1 — exact rational shadow scalar `Q`.
//!
//! `Q` is a reduced fraction of two `i128` with checked arithmetic.  It
//! implements everything `cgmath::BaseFloat` needs, so every generic item of
//! cgmath can be monomorphised at `Q` unchanged and then computes *exactly*.
//! Whatever cannot be done exactly (irrational square roots, trigonometry,
//! i128 overflow, division by zero) sets a thread-local poison flag; a
//! poisoned case is never judged at `Q` (the harness re-runs it at `Iv`).
//!
//! Every comparison outcome is folded into a thread-local *branch signature*,
//! which identifies the control-flow path the real code took without a hook.

use std::cell::Cell;
use std::cmp::Ordering;
use std::fmt;
use std::ops::*;

use num_traits::{Float, Num, NumCast, One, ToPrimitive, Zero};

pub const P_INEXACT: u32 = 1;
pub const P_OVERFLOW: u32 = 2;
pub const P_DOMAIN: u32 = 4;

thread_local! {
    static POISON: Cell<u32> = const { Cell::new(0) };
    static SIG: Cell<u64> = const { Cell::new(0xcbf29ce484222325) };
    static EV_ADD: Cell<u64> = const { Cell::new(0) };
    static EV_MUL: Cell<u64> = const { Cell::new(0) };
    static EV_DIV: Cell<u64> = const { Cell::new(0) };
    static EV_SQRT: Cell<u64> = const { Cell::new(0) };
    static EV_TRIG: Cell<u64> = const { Cell::new(0) };
    static EV_CMP: Cell<u64> = const { Cell::new(0) };
}

#[derive(Clone, Copy, Default, Debug)]
pub struct Events {
    pub add: u64,
    pub mul: u64,
    pub div: u64,
    pub sqrt: u64,
    pub trig: u64,
    pub cmp: u64,
}

pub fn events() -> Events {
    Events {
        add: EV_ADD.with(|c| c.get()),
        mul: EV_MUL.with(|c| c.get()),
        div: EV_DIV.with(|c| c.get()),
        sqrt: EV_SQRT.with(|c| c.get()),
        trig: EV_TRIG.with(|c| c.get()),
        cmp: EV_CMP.with(|c| c.get()),
    }
}

#[inline]
fn bump(c: &'static std::thread::LocalKey<Cell<u64>>) {
    c.with(|c| c.set(c.get().wrapping_add(1)));
}

#[inline]
pub fn poison(p: u32) {
    POISON.with(|c| c.set(c.get() | p));
}
#[inline]
pub fn poisoned() -> u32 {
    POISON.with(|c| c.get())
}
/// Reset poison and branch signature before a case.
pub fn reset() {
    POISON.with(|c| c.set(0));
    SIG.with(|c| c.set(0xcbf29ce484222325));
}
pub fn signature() -> u64 {
    SIG.with(|c| c.get())
}
#[inline]
fn sig(outcome: u8) {
    bump(&EV_CMP);
    SIG.with(|c| {
        let h = (c.get() ^ outcome as u64).wrapping_mul(0x100000001b3);
        c.set(h);
    });
}

#[derive(Clone, Copy)]
pub struct Q {
    n: i128,
    d: i128, // > 0
}

fn gcd(mut a: u128, mut b: u128) -> u128 {
    while b != 0 {
        let t = a % b;
        a = b;
        b = t;
    }
    a
}

impl Q {
    pub const ZERO: Q = Q { n: 0, d: 1 };
    pub const ONE: Q = Q { n: 1, d: 1 };

    pub fn new(n: i128, d: i128) -> Q {
        if d == 0 {
            poison(P_DOMAIN);
            return Q::ZERO;
        }
        if n == i128::MIN || d == i128::MIN {
            poison(P_OVERFLOW);
            return Q::ZERO;
        }
        let g = gcd(n.unsigned_abs(), d.unsigned_abs()) as i128;
        let (mut n, mut d) = (n / g, d / g);
        if d < 0 {
            n = -n;
            d = -d;
        }
        Q { n, d }
    }
    pub fn int(n: i64) -> Q {
        Q { n: n as i128, d: 1 }
    }
    pub fn num(&self) -> i128 {
        self.n
    }
    pub fn den(&self) -> i128 {
        self.d
    }
    pub fn is_integer(&self) -> bool {
        self.d == 1
    }
    pub fn signum_i(&self) -> i32 {
        self.n.signum() as i32
    }

    /// Exact conversion of a finite f64 (a dyadic rational).
    pub fn from_f64_exact(x: f64) -> Option<Q> {
        if !x.is_finite() {
            return None;
        }
        if x == 0.0 {
            return Some(Q::ZERO);
        }
        let bits = x.to_bits();
        let neg = (bits >> 63) != 0;
        let e = ((bits >> 52) & 0x7ff) as i32;
        let frac = bits & ((1u64 << 52) - 1);
        let (mut m, mut ex) = if e == 0 {
            (frac as i128, -1074)
        } else {
            ((frac | (1u64 << 52)) as i128, e - 1075)
        };
        while m & 1 == 0 && ex < 0 {
            m >>= 1;
            ex += 1;
        }
        if neg {
            m = -m;
        }
        if ex >= 0 {
            if ex > 70 {
                return None;
            }
            Some(Q { n: m << ex, d: 1 })
        } else {
            if -ex > 120 {
                return None;
            }
            Some(Q {
                n: m,
                d: 1i128 << (-ex),
            })
        }
    }

    /// Nearest-ish f64 (not outward rounded; used for display and approximations).
    pub fn approx(&self) -> f64 {
        // scale to keep precision when both are huge
        let (n, d) = (self.n, self.d);
        let nf = n as f64;
        let df = d as f64;
        nf / df
    }

    /// Rigorous f64 enclosure of the rational value.
    pub fn enclose(&self) -> (f64, f64) {
        let nf = self.n as f64; // rounded to nearest: |err| <= 1/2 ulp
        let df = self.d as f64;
        let exact_n = (nf as i128) == self.n && nf.abs() < 1.7e38;
        let exact_d = (df as i128) == self.d && df.abs() < 1.7e38;
        if exact_n && exact_d && self.d == 1 {
            return (nf, nf);
        }
        let q = nf / df;
        // n, d each within 1/2 ulp relative 2^-53; quotient rounding 2^-53:
        // total relative error < 4 * 2^-53.  Widen by 4 ulps.
        let mut lo = q;
        let mut hi = q;
        if exact_n && exact_d {
            // only the division rounded
            lo = next_down(lo);
            hi = next_up(hi);
        } else {
            for _ in 0..4 {
                lo = next_down(lo);
                hi = next_up(hi);
            }
        }
        (lo, hi)
    }

    fn sqrt_exact(&self) -> Option<Q> {
        if self.n < 0 {
            return None;
        }
        let rn = isqrt(self.n as u128);
        let rd = isqrt(self.d as u128);
        if rn * rn == self.n as u128 && rd * rd == self.d as u128 {
            Some(Q {
                n: rn as i128,
                d: rd as i128,
            })
        } else {
            None
        }
    }

    fn approx_q(x: f64) -> Q {
        match Q::from_f64_exact(x) {
            Some(q) => q,
            None => {
                poison(P_OVERFLOW);
                Q::ZERO
            }
        }
    }

    /// Used for every operation with no exact rational value.
    fn inexact(&self, f: impl Fn(f64) -> f64) -> Q {
        bump(&EV_TRIG);
        poison(P_INEXACT);
        Q::approx_q(f(self.approx()))
    }

    pub fn floor_q(&self) -> Q {
        let mut q = self.n / self.d;
        if self.n % self.d != 0 && self.n < 0 {
            q -= 1;
        }
        Q { n: q, d: 1 }
    }
    pub fn trunc_q(&self) -> Q {
        Q {
            n: self.n / self.d,
            d: 1,
        }
    }
}

fn isqrt(x: u128) -> u128 {
    if x < 2 {
        return x;
    }
    let mut r = (x as f64).sqrt() as u128;
    // fix up
    while r.checked_mul(r).map_or(true, |s| s > x) {
        r -= 1;
    }
    while (r + 1).checked_mul(r + 1).map_or(false, |s| s <= x) {
        r += 1;
    }
    r
}

pub fn next_up(x: f64) -> f64 {
    if x.is_nan() || x == f64::INFINITY {
        return x;
    }
    if x == 0.0 {
        return f64::from_bits(1);
    }
    let b = x.to_bits();
    if x > 0.0 {
        f64::from_bits(b + 1)
    } else {
        f64::from_bits(b - 1)
    }
}
pub fn next_down(x: f64) -> f64 {
    -next_up(-x)
}

impl fmt::Debug for Q {
    fn fmt(&self, f: &mut fmt::Formatter) -> fmt::Result {
        if self.d == 1 {
            write!(f, "{}", self.n)
        } else {
            write!(f, "{}/{}", self.n, self.d)
        }
    }
}
impl fmt::Display for Q {
    fn fmt(&self, f: &mut fmt::Formatter) -> fmt::Result {
        fmt::Debug::fmt(self, f)
    }
}

// ---------------------------------------------------------------- arithmetic

fn add_q(a: Q, b: Q) -> Q {
    bump(&EV_ADD);
    if a.d == b.d {
        return match a.n.checked_add(b.n) {
            Some(n) => Q::new(n, a.d),
            None => ovf(),
        };
    }
    let g = gcd(a.d as u128, b.d as u128) as i128;
    let bd = b.d / g;
    let ad = a.d / g;
    let n = a
        .n
        .checked_mul(bd)
        .and_then(|x| b.n.checked_mul(ad).and_then(|y| x.checked_add(y)));
    let d = a.d.checked_mul(bd);
    match (n, d) {
        (Some(n), Some(d)) => Q::new(n, d),
        _ => ovf(),
    }
}
fn ovf() -> Q {
    poison(P_OVERFLOW);
    Q::ZERO
}
fn neg_q(a: Q) -> Q {
    Q { n: -a.n, d: a.d }
}
fn mul_q(a: Q, b: Q) -> Q {
    bump(&EV_MUL);
    if a.n == 0 || b.n == 0 {
        return Q::ZERO;
    }
    let g1 = gcd(a.n.unsigned_abs(), b.d as u128) as i128;
    let g2 = gcd(b.n.unsigned_abs(), a.d as u128) as i128;
    let n = (a.n / g1).checked_mul(b.n / g2);
    let d = (a.d / g2).checked_mul(b.d / g1);
    match (n, d) {
        (Some(n), Some(d)) if n != i128::MIN => Q { n, d },
        _ => ovf(),
    }
}
fn div_q(a: Q, b: Q) -> Q {
    bump(&EV_DIV);
    if b.n == 0 {
        poison(P_DOMAIN);
        return Q::ZERO;
    }
    let inv = if b.n < 0 {
        Q { n: -b.d, d: -b.n }
    } else {
        Q { n: b.d, d: b.n }
    };
    mul_q(a, inv)
}
fn rem_q(a: Q, b: Q) -> Q {
    // truncated remainder, like the primitive floats: a - b*trunc(a/b)
    if b.n == 0 {
        poison(P_DOMAIN);
        return Q::ZERO;
    }
    let q = div_q(a, b).trunc_q();
    add_q(a, neg_q(mul_q(b, q)))
}

impl Add for Q {
    type Output = Q;
    #[inline]
    fn add(self, o: Q) -> Q {
        add_q(self, o)
    }
}
impl Sub for Q {
    type Output = Q;
    #[inline]
    fn sub(self, o: Q) -> Q {
        add_q(self, neg_q(o))
    }
}
impl Mul for Q {
    type Output = Q;
    #[inline]
    fn mul(self, o: Q) -> Q {
        mul_q(self, o)
    }
}
impl Div for Q {
    type Output = Q;
    #[inline]
    fn div(self, o: Q) -> Q {
        div_q(self, o)
    }
}
impl Rem for Q {
    type Output = Q;
    #[inline]
    fn rem(self, o: Q) -> Q {
        rem_q(self, o)
    }
}
impl Neg for Q {
    type Output = Q;
    #[inline]
    fn neg(self) -> Q {
        neg_q(self)
    }
}
impl AddAssign for Q {
    fn add_assign(&mut self, o: Q) {
        *self = *self + o
    }
}
impl SubAssign for Q {
    fn sub_assign(&mut self, o: Q) {
        *self = *self - o
    }
}
impl MulAssign for Q {
    fn mul_assign(&mut self, o: Q) {
        *self = *self * o
    }
}
impl DivAssign for Q {
    fn div_assign(&mut self, o: Q) {
        *self = *self / o
    }
}
impl RemAssign for Q {
    fn rem_assign(&mut self, o: Q) {
        *self = *self % o
    }
}

// ---------------------------------------------------------------- comparison

fn cmp_q(a: &Q, b: &Q) -> Ordering {
    if a.d == b.d {
        return a.n.cmp(&b.n);
    }
    match (a.n.checked_mul(b.d), b.n.checked_mul(a.d)) {
        (Some(x), Some(y)) => x.cmp(&y),
        _ => {
            // signs decide when they differ; otherwise fall back (poisoned)
            let (sa, sb) = (a.n.signum(), b.n.signum());
            if sa != sb {
                return sa.cmp(&sb);
            }
            poison(P_OVERFLOW);
            a.approx().partial_cmp(&b.approx()).unwrap_or(Ordering::Equal)
        }
    }
}

/// Comparison that does not touch the branch signature (for the harness' own use).
pub fn cmp_quiet(a: &Q, b: &Q) -> Ordering {
    cmp_q(a, b)
}

impl PartialEq for Q {
    fn eq(&self, o: &Q) -> bool {
        let r = self.n == o.n && self.d == o.d;
        sig(if r { 3 } else { 4 });
        r
    }
}
impl PartialOrd for Q {
    fn partial_cmp(&self, o: &Q) -> Option<Ordering> {
        let r = cmp_q(self, o);
        sig(match r {
            Ordering::Less => 0,
            Ordering::Equal => 1,
            Ordering::Greater => 2,
        });
        Some(r)
    }
}

// ---------------------------------------------------------------- num-traits

impl Zero for Q {
    fn zero() -> Q {
        Q::ZERO
    }
    fn is_zero(&self) -> bool {
        self.n == 0
    }
}
impl One for Q {
    fn one() -> Q {
        Q::ONE
    }
}
impl Num for Q {
    type FromStrRadixErr = ();
    fn from_str_radix(_s: &str, _r: u32) -> Result<Q, ()> {
        Err(())
    }
}
impl ToPrimitive for Q {
    fn to_i64(&self) -> Option<i64> {
        let t = self.n / self.d;
        if t >= i64::MIN as i128 && t <= i64::MAX as i128 {
            Some(t as i64)
        } else {
            None
        }
    }
    fn to_u64(&self) -> Option<u64> {
        let t = self.n / self.d;
        if t >= 0 && t <= u64::MAX as i128 {
            Some(t as u64)
        } else {
            None
        }
    }
    fn to_f64(&self) -> Option<f64> {
        Some(self.approx())
    }
    fn to_f32(&self) -> Option<f32> {
        Some(self.approx() as f32)
    }
}
impl NumCast for Q {
    fn from<T: ToPrimitive>(n: T) -> Option<Q> {
        // Integers convert exactly through i64/u64; everything else through the
        // exact value of the f64 the source denotes.
        if let Some(f) = n.to_f64() {
            if f.fract() != 0.0 || f.abs() >= 9.0e15 {
                return Q::from_f64_exact(f);
            }
        }
        if let Some(i) = n.to_i64() {
            return Some(Q::int(i));
        }
        if let Some(u) = n.to_u64() {
            return Some(Q {
                n: u as i128,
                d: 1,
            });
        }
        n.to_f64().and_then(Q::from_f64_exact)
    }
}

impl Float for Q {
    fn nan() -> Q {
        poison(P_DOMAIN);
        Q::ZERO
    }
    fn infinity() -> Q {
        poison(P_DOMAIN);
        Q::ZERO
    }
    fn neg_infinity() -> Q {
        poison(P_DOMAIN);
        Q::ZERO
    }
    fn neg_zero() -> Q {
        Q::ZERO
    }
    fn min_value() -> Q {
        poison(P_DOMAIN);
        Q::ZERO
    }
    fn min_positive_value() -> Q {
        poison(P_DOMAIN);
        Q::ZERO
    }
    fn max_value() -> Q {
        poison(P_DOMAIN);
        Q::ZERO
    }
    fn is_nan(self) -> bool {
        false
    }
    fn is_infinite(self) -> bool {
        false
    }
    fn is_finite(self) -> bool {
        true
    }
    fn is_normal(self) -> bool {
        self.n != 0
    }
    fn classify(self) -> std::num::FpCategory {
        if self.n == 0 {
            std::num::FpCategory::Zero
        } else {
            std::num::FpCategory::Normal
        }
    }
    fn floor(self) -> Q {
        self.floor_q()
    }
    fn ceil(self) -> Q {
        -((-self).floor_q())
    }
    fn round(self) -> Q {
        let half = Q { n: 1, d: 2 };
        if self.n >= 0 {
            (self + half).floor_q()
        } else {
            -((-self + half).floor_q())
        }
    }
    fn trunc(self) -> Q {
        self.trunc_q()
    }
    fn fract(self) -> Q {
        self - self.trunc_q()
    }
    fn abs(self) -> Q {
        Q {
            n: self.n.abs(),
            d: self.d,
        }
    }
    fn signum(self) -> Q {
        // like floats: sign of +0 is +1
        if self.n < 0 {
            -Q::ONE
        } else {
            Q::ONE
        }
    }
    fn is_sign_positive(self) -> bool {
        self.n >= 0
    }
    fn is_sign_negative(self) -> bool {
        self.n < 0
    }
    fn mul_add(self, a: Q, b: Q) -> Q {
        self * a + b
    }
    fn recip(self) -> Q {
        Q::ONE / self
    }
    fn powi(self, n: i32) -> Q {
        let mut r = Q::ONE;
        let base = if n < 0 { Q::ONE / self } else { self };
        for _ in 0..n.unsigned_abs() {
            r = r * base;
        }
        r
    }
    fn powf(self, n: Q) -> Q {
        if n.d == 1 && n.n.abs() < 64 {
            return self.powi(n.n as i32);
        }
        let e = n.approx();
        self.inexact(|x| x.powf(e))
    }
    fn sqrt(self) -> Q {
        bump(&EV_SQRT);
        if self.n < 0 {
            poison(P_DOMAIN);
            return Q::ZERO;
        }
        match self.sqrt_exact() {
            Some(r) => r,
            None => {
                poison(P_INEXACT);
                Q::approx_q(self.approx().sqrt())
            }
        }
    }
    fn exp(self) -> Q {
        if self.n == 0 {
            return Q::ONE;
        }
        self.inexact(f64::exp)
    }
    fn exp2(self) -> Q {
        self.inexact(f64::exp2)
    }
    fn ln(self) -> Q {
        if self.n == self.d {
            return Q::ZERO;
        }
        self.inexact(f64::ln)
    }
    fn log(self, b: Q) -> Q {
        let bb = b.approx();
        self.inexact(|x| x.log(bb))
    }
    fn log2(self) -> Q {
        self.inexact(f64::log2)
    }
    fn log10(self) -> Q {
        self.inexact(f64::log10)
    }
    fn max(self, o: Q) -> Q {
        if cmp_q(&self, &o) == Ordering::Less {
            sig(5);
            o
        } else {
            sig(6);
            self
        }
    }
    fn min(self, o: Q) -> Q {
        if cmp_q(&self, &o) == Ordering::Greater {
            sig(7);
            o
        } else {
            sig(8);
            self
        }
    }
    fn abs_sub(self, o: Q) -> Q {
        if cmp_q(&self, &o) == Ordering::Greater {
            self - o
        } else {
            Q::ZERO
        }
    }
    fn cbrt(self) -> Q {
        self.inexact(f64::cbrt)
    }
    fn hypot(self, o: Q) -> Q {
        (self * self + o * o).sqrt()
    }
    fn sin(self) -> Q {
        if self.n == 0 {
            bump(&EV_TRIG);
            return Q::ZERO;
        }
        self.inexact(f64::sin)
    }
    fn cos(self) -> Q {
        if self.n == 0 {
            bump(&EV_TRIG);
            return Q::ONE;
        }
        self.inexact(f64::cos)
    }
    fn tan(self) -> Q {
        if self.n == 0 {
            bump(&EV_TRIG);
            return Q::ZERO;
        }
        self.inexact(f64::tan)
    }
    fn asin(self) -> Q {
        if self.n == 0 {
            bump(&EV_TRIG);
            return Q::ZERO;
        }
        self.inexact(f64::asin)
    }
    fn acos(self) -> Q {
        if self.n == self.d {
            bump(&EV_TRIG);
            return Q::ZERO;
        }
        self.inexact(f64::acos)
    }
    fn atan(self) -> Q {
        if self.n == 0 {
            bump(&EV_TRIG);
            return Q::ZERO;
        }
        self.inexact(f64::atan)
    }
    fn atan2(self, o: Q) -> Q {
        if self.n == 0 && o.n > 0 {
            bump(&EV_TRIG);
            return Q::ZERO;
        }
        let x = o.approx();
        self.inexact(|y| y.atan2(x))
    }
    fn sin_cos(self) -> (Q, Q) {
        (Float::sin(self), Float::cos(self))
    }
    fn exp_m1(self) -> Q {
        self.inexact(f64::exp_m1)
    }
    fn ln_1p(self) -> Q {
        self.inexact(f64::ln_1p)
    }
    fn sinh(self) -> Q {
        self.inexact(f64::sinh)
    }
    fn cosh(self) -> Q {
        self.inexact(f64::cosh)
    }
    fn tanh(self) -> Q {
        self.inexact(f64::tanh)
    }
    fn asinh(self) -> Q {
        self.inexact(f64::asinh)
    }
    fn acosh(self) -> Q {
        self.inexact(f64::acosh)
    }
    fn atanh(self) -> Q {
        self.inexact(f64::atanh)
    }
    fn integer_decode(self) -> (u64, i16, i8) {
        self.approx().integer_decode()
    }
}

// ---------------------------------------------------------------- approx

fn eps52() -> Q {
    Q {
        n: 1,
        d: 1i128 << 52,
    }
}

impl approx::AbsDiffEq for Q {
    type Epsilon = Q;
    fn default_epsilon() -> Q {
        eps52()
    }
    fn abs_diff_eq(&self, o: &Q, eps: Q) -> bool {
        let d = Float::abs(*self - *o);
        let r = cmp_q(&d, &eps) != Ordering::Greater;
        sig(if r { 9 } else { 10 });
        r
    }
}
impl approx::RelativeEq for Q {
    fn default_max_relative() -> Q {
        eps52()
    }
    fn relative_eq(&self, o: &Q, eps: Q, max_rel: Q) -> bool {
        let r = (|| {
            if self.n == o.n && self.d == o.d {
                return true;
            }
            let d = Float::abs(*self - *o);
            if cmp_q(&d, &eps) != Ordering::Greater {
                return true;
            }
            let (a, b) = (Float::abs(*self), Float::abs(*o));
            let largest = if cmp_q(&b, &a) == Ordering::Greater { b } else { a };
            cmp_q(&d, &(largest * max_rel)) != Ordering::Greater
        })();
        sig(if r { 11 } else { 12 });
        r
    }
}
impl approx::UlpsEq for Q {
    fn default_max_ulps() -> u32 {
        4
    }
    fn ulps_eq(&self, o: &Q, eps: Q, max_ulps: u32) -> bool {
        let r = (|| {
            let d = Float::abs(*self - *o);
            if cmp_q(&d, &eps) != Ordering::Greater {
                return true;
            }
            if self.n.signum() != o.n.signum() {
                return false;
            }
            let (a, b) = (Float::abs(*self), Float::abs(*o));
            let largest = if cmp_q(&b, &a) == Ordering::Greater { b } else { a };
            let ulp = largest * eps52();
            cmp_q(&d, &(ulp * Q::int(max_ulps as i64))) != Ordering::Greater
        })();
        sig(if r { 13 } else { 14 });
        r
    }
}
