pub mod c01;
