//! C05 — Quaternion, Basis3, Matrix3, Matrix4 describe one rotation (DESIGN §C05).

use cgmath::prelude::*;
use cgmath::{Basis3, Matrix3, Matrix4, Quaternion};

use cgv_core::clause;
use cgv_core::conv::*;
use cgv_core::fw::{Case, Clause};
use cgv_core::gen::{self, Rng, Tier};
use cgv_core::model::*;
use cgv_core::sc::{Ck, Rat, Sc};

fn abs_cmp(a: &Rat, b: &Rat) -> std::cmp::Ordering {
    // |a| vs |b| exactly
    let l = (a.n.abs() as i128) * (b.d as i128);
    let r = (b.n.abs() as i128) * (a.d as i128);
    l.cmp(&r)
}

/// class 0: trace >= 0 (w^2 >= 1/4); class 1/2/3: trace < 0 and x/y/z largest
fn g_class(rng: &mut Rng, tier: Tier) -> Case {
    let mut c = Case::new();
    let class = rng.below(4) as u16;
    let mut q = gen::unit_quat_generic(rng, tier).to_vec();
    q.sort_by(abs_cmp); // ascending |.|
    // q[3] largest, q[0] smallest (|q0|^2 < 1/4 strictly since magnitudes are distinct)
    let arranged: [Rat; 4] = match class {
        0 => {
            // largest goes to w: w^2 > 1/4
            let rest = [q[0], q[1], q[2]];
            let s = rng.below(3) as usize;
            [q[3], rest[s], rest[(s + 1) % 3], rest[(s + 2) % 3]]
        }
        k => {
            // smallest to w, largest to slot k; remaining two in random order
            let mut others = if rng.bool() { vec![q[1], q[2]] } else { vec![q[2], q[1]] };
            let mut v = [q[0]; 4];
            for slot in 1..4 {
                v[slot] = if slot as u16 == k { q[3] } else { others.pop().unwrap() };
            }
            v
        }
    };
    c.class = class;
    c.push_r(&arranged);
    let (v, _) = gen::rats(rng, tier, 3);
    c.push_r(&v);
    let p = gen::unit_quat(rng, tier);
    c.push_r(&p);
    c.nontrivial = true;
    c
}

fn g_any(rng: &mut Rng, tier: Tier) -> Case {
    let mut c = Case::new();
    // includes zero components, equal magnitudes, w = 0, axis-aligned rotations
    let q = if rng.chance(1, 6) {
        let z = Rat::int(0);
        let o = Rat::int(if rng.bool() { 1 } else { -1 });
        match rng.below(6) {
            0 => [o, z, z, z],
            1 => [z, o, z, z],
            2 => [z, z, o, z],
            3 => [z, z, z, o],
            4 => {
                let h = Rat::new(1, 2);
                [h, h, h, Rat::new(-1, 2)]
            }
            _ => {
                let [a, b] = gen::unit_vec2(rng, tier);
                [a, z, b, z]
            }
        }
    } else {
        gen::unit_quat(rng, tier)
    };
    c.push_r(&q);
    let (v, _) = gen::rats(rng, tier, 3);
    c.push_r(&v);
    let p = gen::unit_quat(rng, tier);
    c.push_r(&p);
    c.nontrivial = gen::is_nontrivial(&q);
    c
}

fn pm_eq<S: Sc>(ck: &mut Ck<S>, what: &str, got: Qt<S>, q: Qt<S>) {
    // got must be q or -q: decide the sign from the largest component of q
    let mut plus_possible = true;
    let mut minus_possible = true;
    for i in 0..4 {
        if S::t_eq(&got[i], &q[i]) == cgv_core::iv::Tri::False {
            plus_possible = false;
        }
        if S::t_eq(&got[i], &(-q[i])) == cgv_core::iv::Tri::False {
            minus_possible = false;
        }
    }
    for i in 0..4 {
        ck.trace.push(got[i].enc());
    }
    if plus_possible || minus_possible {
        ck.truth(what, true);
    } else {
        ck.truth(
            &format!("{what}: got {:?}, expected +-{:?}", got.map(|x| x.show()), q.map(|x| x.show())),
            false,
        );
    }
}

fn same_rotation<S: Sc>(case: &Case, ck: &mut Ck<S>) {
    let mut rd = case.rd();
    let q: Qt<S> = rd.arr();
    let v: V<S, 3> = rd.arr();
    let p: Qt<S> = rd.arr();
    let (qq, vv, qp) = (mk_qt(q), mk_v3(v), mk_qt(p));
    ck.eq("generator: |q| = 1", qnorm2(q), S::i(1));
    let mq = qmat(q); // model rotation matrix from the sandwich product
    let m3q = Matrix3::from(qq);
    let m4q = Matrix4::from(qq);
    let b3q = Basis3::from(qq);
    ck.eqm("Matrix3::from(q) vs model", m3(m3q), mq);
    ck.eqm("Matrix4::from(q) vs model", m4(m4q), embed34(mq));
    ck.eqm("Basis3::from(q) vs model", m3(*b3q.as_ref()), mq);
    ck.eqm("Basis3::from_quaternion", m3(Matrix3::from(Basis3::from_quaternion(&qq))), mq);
    let r = qq * vv;
    ck.eqv("q*v = M3*v", v3(m3q * vv), v3(r));
    ck.eqv("q*v = Basis3.rotate_vector(v)", v3(b3q.rotate_vector(vv)), v3(r));
    ck.eqv("q*v = (M4*(v,0)).xyz", v3((m4q * vv.extend(S::i(0))).truncate()), v3(r));
    ck.eq("(M4*(v,0)).w = 0", (m4q * vv.extend(S::i(0))).w, S::i(0));
    ck.eqv("q*v vs model", v3(r), mvec(mq, v));
    // orthonormal, det +1
    ck.eqm("M^T M = I", m3(m3q.transpose() * m3q), mident());
    ck.eq("det M = +1", m3q.determinant(), S::i(1));
    ck.eq("det M4 = +1", m4q.determinant(), S::i(1));
    // composition
    let pq = qp * qq;
    ck.eqm("M3(pq) = M3(p)M3(q)", m3(Matrix3::from(pq)), m3(Matrix3::from(qp) * m3q));
    ck.eqm("M4(pq) = M4(p)M4(q)", m4(Matrix4::from(pq)), m4(Matrix4::from(qp) * m4q));
    ck.eqm(
        "Basis3(pq) = Basis3(p)Basis3(q)",
        m3(Matrix3::from(Basis3::from(pq))),
        m3(Matrix3::from(Basis3::from(qp) * b3q)),
    );
    {
        // the same composition through the Transform trait (concat, concat_self) and acting on points
        let (a4, b4) = (Matrix4::from(qp), m4q);
        let mut cs = a4;
        cgmath::Transform::<cgmath::Point3<S>>::concat_self(&mut cs, &b4);
        ck.eqm("M4(p).concat_self(M4(q)) = M4(pq)", m4(cs), m4(Matrix4::from(pq)));
        ck.eqm("M4(p).concat(M4(q)) = M4(pq)", m4(cgmath::Transform::<cgmath::Point3<S>>::concat(&a4, &b4)), m4(Matrix4::from(pq)));
        let mut cs = Matrix3::from(qp);
        cgmath::Transform::<cgmath::Point3<S>>::concat_self(&mut cs, &m3q);
        ck.eqm("M3(p).concat_self(M3(q)) = M3(pq)", m3(cs), m3(Matrix3::from(pq)));
        let pt = cgmath::Point3::new(v[0], v[1], v[2]);
        let rp = qq.rotate_point(pt);
        ck.eqv("q.rotate_point(p) = (q*v)", [rp.x, rp.y, rp.z], v3(r));
        let tp = cgmath::Transform::<cgmath::Point3<S>>::transform_point(&m3q, pt);
        ck.eqv("Matrix3::from(q).transform_point(p) = q*v", [tp.x, tp.y, tp.z], v3(r));
        let tp = cgmath::Transform::<cgmath::Point3<S>>::transform_point(&m4q, pt);
        ck.eqv("Matrix4::from(q).transform_point(p) = q*v", [tp.x, tp.y, tp.z], v3(r));
        let bp = b3q.rotate_point(pt);
        ck.eqv("Basis3::from(q).rotate_point(p) = q*v", [bp.x, bp.y, bp.z], v3(r));
    }
    // back to a quaternion: q or -q
    pm_eq(ck, "Quaternion::from(Matrix3::from(q))", qt(Quaternion::from(m3q)), q);
    pm_eq(ck, "Quaternion::from(Basis3::from(q))", qt(Quaternion::from(b3q)), q);
    pm_eq(ck, "Quaternion::from(model matrix)", qt(Quaternion::from(mk_m3(mq))), q);
    let back: Quaternion<S> = Quaternion::from(m3q);
    ck.eqm("matrix of the recovered quaternion", m3(Matrix3::from(back)), mq);
    ck.note("q", &qq);
    ck.note("Quaternion::from(M3)", &back);
}

const EP: &[&str] = &[
    "Matrix3::from(Quaternion)",
    "Matrix4::from(Quaternion)",
    "Quaternion::from(Matrix3)",
    "Basis3::from(Quaternion)",
    "Quaternion::from(Basis3)",
    "Rotation::rotate_vector",
    "Basis3 * Basis3",
];

pub fn clauses() -> Vec<Clause> {
    vec![
        clause!("classes", EP, g_class, same_rotation, weight = 2.0, classes = 4),
        clause!("any_unit", EP, g_any, same_rotation, weight = 1.0, classes = 0),
    ]
}

pub const RULE: &str = "unit quaternions are exact rational points of the 3-sphere. Clause 'classes' arranges a generic one (all components non-zero with pairwise distinct magnitudes) so that, by the specification (trace = 4w^2-1; largest diagonal = largest of x^2,y^2,z^2), it falls in a chosen one of the four matrix-to-quaternion cases (class 0 trace>=0, 1/2/3 = first/second/third diagonal largest); every class must be observed. Clause 'any_unit' adds arbitrary ones including zeros, equal magnitudes, w=0 and axis-aligned half turns. Non-trivial = generic-position q; distinct = distinct input tuples.";
pub const ASSUME: &[&str] = &[
    "exact rational arithmetic: for a unit rational q the four square roots in the matrix-to-quaternion conversion are 2|w|,2|x|,2|y|,2|z|, hence rational",
    "the reference rotation matrix is the harness' own sandwich product q e_c conj(q) from the Hamilton table",
];

// ---------------------------------------------------------------- native: tiny rotations on f64 / f32

/// Unit quaternions of very small rotation angle cannot be exact rationals with
/// a scalar part that *rounds* to 1; on the real scalar types they are ordinary
/// inputs.  The four representations must still rotate alike: agreement within
/// 1e-12 (f64) / 5e-5 (f32) relative to |v|, four and two orders of magnitude
/// above the rounding error of the formulas.
pub fn native(cfg: &cgv_core::fw::RunCfg, extra: &mut cgv_core::fw::Extra) {
    use cgmath::{Rad, Rotation3, Vector3};
    use serde_json::json;
    let n = if cfg.tier == Tier::Quick { 3000 } else { 200_000 };
    let mut evals = 0u64;
    let mut seen = std::collections::HashSet::new();
    let mut worst = [0f64; 2];
    macro_rules! run {
        ($T:ty, $tag:expr, $tol:expr, $slot:expr, $min_exp:expr) => {{
            for i in 0..n {
                let mut rng = Rng::for_case(cfg.seed, concat!("c05_native_", $tag), i);
                // axis: uniform in the cube, or (every other case) with log-uniform component
                // magnitudes, so that axes hugging a coordinate axis or plane are exercised
                let skew = rng.bool();
                let axis = if skew {
                    let mut comp = |rng: &mut Rng| 10f64.powf(rng.uniform($min_exp * 0.75, 0.0)) * if rng.bool() { 1.0 } else { -1.0 };
                    Vector3::new(comp(&mut rng), comp(&mut rng), comp(&mut rng))
                } else {
                    Vector3::new(rng.uniform(-1.0, 1.0), rng.uniform(-1.0, 1.0), rng.uniform(-1.0, 1.0))
                };
                if axis.magnitude2() < 0.01 {
                    continue;
                }
                let axis: Vector3<$T> = axis.normalize().cast().unwrap();
                let axis = axis.normalize();
                // angle: log-uniform small ones, or (one case in three) uniform over the large
                // rotations where the matrix-to-quaternion conversion takes its negative-trace branches
                let angle = if rng.chance(1, 3) {
                    rng.uniform(2.0, 6.25) as $T
                } else {
                    (10f64.powf(rng.uniform($min_exp, 0.5)) * if rng.bool() { 1.0 } else { -1.0 }) as $T
                };
                let v = Vector3::new(rng.uniform(-4.0, 4.0) as $T, rng.uniform(-4.0, 4.0) as $T, rng.uniform(-4.0, 4.0) as $T);
                let r = cgv_core::fw::catch(|| {
                    let q = Quaternion::from_axis_angle(axis, Rad(angle));
                    let a = q * v;
                    let b = Matrix3::from(q) * v;
                    let c = Basis3::from(q).rotate_vector(v);
                    let d = (Matrix4::from(q) * v.extend(0.0)).truncate();
                    let e = Matrix3::from_axis_angle(axis, Rad(angle)) * v;
                    let back: Quaternion<$T> = Matrix3::from(q).into();
                    let f = back * v;
                    let m = v.magnitude().max(1e-3) as f64;
                    [(a - b).magnitude() as f64 / m, (a - c).magnitude() as f64 / m, (a - d).magnitude() as f64 / m, (a - e).magnitude() as f64 / m, (a - f).magnitude() as f64 / m]
                });
                evals += 1;
                seen.insert((angle as f64).to_bits());
                match r {
                    Err(p) => {
                        extra.violations.push((format!("native_agreement_{}", $tag), format!("unexpected panic: {p}"), json!({"index": i})));
                        break;
                    }
                    Ok(errs) => {
                        let names = ["q*v vs Matrix3::from(q)*v", "q*v vs Basis3", "q*v vs Matrix4", "q*v vs Matrix3::from_axis_angle", "q*v vs Quaternion::from(Matrix3::from(q))*v"];
                        for (k, e) in errs.iter().enumerate() {
                            worst[$slot] = worst[$slot].max(*e);
                            if !(*e <= $tol) {
                                extra.violations.push((
                                    format!("native_agreement_{}", $tag),
                                    format!("{}: relative disagreement {e:e} (tolerance {:e}) at rotation angle {angle:e}", names[k], $tol),
                                    json!({"angle": angle as f64, "axis": [axis.x as f64, axis.y as f64, axis.z as f64], "v": [v.x as f64, v.y as f64, v.z as f64], "index": i}),
                                ));
                                break;
                            }
                        }
                        if !extra.violations.is_empty() {
                            break;
                        }
                    }
                }
            }
        }};
    }
    run!(f64, "f64", 1e-12, 0, -12.0);
    run!(f32, "f32", 5e-5, 1, -6.0);
    extra.evaluations += evals;
    extra.distinct_nontrivial += seen.len() as u64;
    extra.samples.push(json!({"clause": "native_agreement", "example": "angle 3.2e-9 rad about a random unit axis: q*v, Matrix3::from(q)*v, Basis3, Matrix4, Matrix3::from_axis_angle, round trip through Matrix3"}));
    extra.sections.insert(
        "native_agreement_of_representations".into(),
        json!({"cases": evals, "angles": "log-uniform 1e-12..3 rad (f64), 1e-6..3 rad (f32), both signs; one in three uniform in [2, 6.25] rad", "axes": "uniform in the cube, or component magnitudes log-uniform down to 1e-9 (f64) / 3e-5 (f32), normalised", "worst_relative_disagreement_f64": worst[0], "tolerance_f64": 1e-12,
               "worst_relative_disagreement_f32": worst[1], "tolerance_f32": 5e-5}),
    );
}
