//! C12 — points as an affine space, homogeneous coordinates (DESIGN §C12).

use cgmath::prelude::*;
use cgmath::{Point1, Point2, Point3, Vector1, Vector2, Vector3};
use serde_json::json;

use cgv_core::clause;
use cgv_core::conv::*;
use cgv_core::fw::{Case, Clause, Extra, RunCfg};
use cgv_core::gen::{self, Rng, Tier};
use cgv_core::model::*;
use cgv_core::sc::{Ck, Sc};

fn map2<S: Sc, const N: usize>(a: V<S, N>, b: V<S, N>, f: impl Fn(S, S) -> S) -> V<S, N> {
    let mut o = a;
    for i in 0..N {
        o[i] = f(a[i], b[i]);
    }
    o
}
fn map1<S: Sc, const N: usize>(a: V<S, N>, f: impl Fn(S) -> S) -> V<S, N> {
    let mut o = a;
    for i in 0..N {
        o[i] = f(a[i]);
    }
    o
}

macro_rules! dim {
    ($md:ident, $N:expr, $P:ident, $Vc:ident, $pa:ident, $va:ident, $mkp:ident, $mkv:ident) => {
        pub mod $md {
            use super::*;
            const N: usize = $N;
            pub fn g(rng: &mut Rng, tier: Tier) -> Case {
                let mut c = Case::new();
                let mut nt = true;
                for _ in 0..2 {
                    let (v, t) = gen::rats(rng, tier, N);
                    nt &= t;
                    c.push_r(&v);
                }
                for _ in 0..2 {
                    c.push_r(&gen::distinct_rats(rng, tier, N));
                }
                c.push_r(&[gen::nz_rat(rng, tier)]);
                // centroid list
                // every non-empty list length: mostly short, sometimes long (odd and even, beyond any block size)
                let k = match rng.below(20) {
                    0..=11 => rng.range(1, 9),
                    12..=16 => rng.range(10, 40),
                    17 | 18 => rng.range(41, 130),
                    _ => rng.pick(&[255i64, 256, 257, 300, 513]),
                };
                c.push_k(&[k]);
                let mut first: Vec<cgv_core::sc::Rat> = vec![];
                // one list in five is "closed": its last point repeats its first (a polygon ring)
                let ring = k >= 2 && rng.chance(1, 5);
                for j in 0..k {
                    let (v, _) = gen::rats(rng, tier, N);
                    if j == 0 {
                        first = v.clone();
                    }
                    if ring && j == k - 1 {
                        c.push_r(&first);
                    } else {
                        c.push_r(&v);
                    }
                }
                c.nontrivial = nt;
                c
            }
            pub fn body<S: Sc>(case: &Case, ck: &mut Ck<S>) {
                let mut rd = case.rd();
                let (p, q): (V<S, N>, V<S, N>) = (rd.arr(), rd.arr());
                let (v, w): (V<S, N>, V<S, N>) = (rd.arr(), rd.arr()); // non-zero components
                let a: S = rd.s();
                let (pp, pq, vv, vw) = ($mkp(p), $mkp(q), $mkv(v), $mkv(w));
                let zero = [S::i(0); N];
                // component model
                ck.eqv("p + v", $pa(pp + vv), map2(p, v, |x, y| x + y));
                ck.eqv("p - v", $pa(pp - vv), map2(p, v, |x, y| x - y));
                ck.eqv("p - q", $va(pp - pq), map2(p, q, |x, y| x - y));
                let mut t = pp;
                t += vv;
                ck.eqv("p += v", $pa(t), map2(p, v, |x, y| x + y));
                let mut t = pp;
                t -= vv;
                ck.eqv("p -= v", $pa(t), map2(p, v, |x, y| x - y));
                // affine laws
                ck.eqv("(p + v) - p = v", $va((pp + vv) - pp), v);
                ck.eqv("p + (q - p) = q", $pa(pp + (pq - pp)), q);
                ck.eqv("(p + v) + w = p + (v + w)", $pa((pp + vv) + vw), $pa(pp + (vv + vw)));
                ck.eqv("p - v = p + (-v)", $pa(pp - vv), $pa(pp + (-vv)));
                ck.eqv("(p - q) = -(q - p)", $va(pp - pq), $va(-(pq - pp)));
                // to_vec / from_vec / origin
                ck.eqv("to_vec", $va(pp.to_vec()), p);
                ck.eqv("from_vec", $pa($P::from_vec(vv)), v);
                ck.eqv("from_vec(to_vec(p)) = p", $pa($P::from_vec(pp.to_vec())), p);
                ck.eqv("to_vec(from_vec(v)) = v", $va($P::from_vec(vv).to_vec()), v);
                ck.eqv("origin", $pa($P::<S>::origin()), zero);
                ck.eqv("origin().to_vec() = zero", $va($P::<S>::origin().to_vec()), $va($Vc::<S>::zero()));
                ck.eqv("origin + to_vec(p) = p", $pa($P::origin() + pp.to_vec()), p);
                // scaling
                ck.eqv("p * a", $pa(pp * a), map1(p, |x| x * a));
                ck.eqv("p / a", $pa(pp / a), map1(p, |x| x / a));
                ck.eqv("p % a", $pa(pp % a), map1(p, |x| x % a));
                let mut t = pp;
                t *= a;
                ck.eqv("p *= a", $pa(t), map1(p, |x| x * a));
                let mut t = pp;
                t /= a;
                ck.eqv("p /= a", $pa(t), map1(p, |x| x / a));
                let mut t = pp;
                t %= a;
                ck.eqv("p %= a", $pa(t), map1(p, |x| x % a));
                // ElementWise with a point (second operand has non-zero components)
                let pw = $mkp(w);
                ck.eqv("add_element_wise(p)", $pa(pp.add_element_wise(pw)), map2(p, w, |x, y| x + y));
                ck.eqv("sub_element_wise(p)", $pa(pp.sub_element_wise(pw)), map2(p, w, |x, y| x - y));
                ck.eqv("mul_element_wise(p)", $pa(pp.mul_element_wise(pw)), map2(p, w, |x, y| x * y));
                ck.eqv("div_element_wise(p)", $pa(pp.div_element_wise(pw)), map2(p, w, |x, y| x / y));
                ck.eqv("rem_element_wise(p)", $pa(pp.rem_element_wise(pw)), map2(p, w, |x, y| x % y));
                let mut t = pp;
                t.add_assign_element_wise(pw);
                ck.eqv("add_assign_element_wise(p)", $pa(t), map2(p, w, |x, y| x + y));
                let mut t = pp;
                t.sub_assign_element_wise(pw);
                ck.eqv("sub_assign_element_wise(p)", $pa(t), map2(p, w, |x, y| x - y));
                let mut t = pp;
                t.mul_assign_element_wise(pw);
                ck.eqv("mul_assign_element_wise(p)", $pa(t), map2(p, w, |x, y| x * y));
                let mut t = pp;
                t.div_assign_element_wise(pw);
                ck.eqv("div_assign_element_wise(p)", $pa(t), map2(p, w, |x, y| x / y));
                let mut t = pp;
                t.rem_assign_element_wise(pw);
                ck.eqv("rem_assign_element_wise(p)", $pa(t), map2(p, w, |x, y| x % y));
                // ElementWise with a scalar
                ck.eqv("add_element_wise(s)", $pa(pp.add_element_wise(a)), map1(p, |x| x + a));
                ck.eqv("sub_element_wise(s)", $pa(pp.sub_element_wise(a)), map1(p, |x| x - a));
                ck.eqv("mul_element_wise(s)", $pa(pp.mul_element_wise(a)), map1(p, |x| x * a));
                ck.eqv("div_element_wise(s)", $pa(pp.div_element_wise(a)), map1(p, |x| x / a));
                ck.eqv("rem_element_wise(s)", $pa(pp.rem_element_wise(a)), map1(p, |x| x % a));
                let mut t = pp;
                t.add_assign_element_wise(a);
                ck.eqv("add_assign_element_wise(s)", $pa(t), map1(p, |x| x + a));
                let mut t = pp;
                t.sub_assign_element_wise(a);
                ck.eqv("sub_assign_element_wise(s)", $pa(t), map1(p, |x| x - a));
                let mut t = pp;
                t.mul_assign_element_wise(a);
                ck.eqv("mul_assign_element_wise(s)", $pa(t), map1(p, |x| x * a));
                let mut t = pp;
                t.div_assign_element_wise(a);
                ck.eqv("div_assign_element_wise(s)", $pa(t), map1(p, |x| x / a));
                let mut t = pp;
                t.rem_assign_element_wise(a);
                ck.eqv("rem_assign_element_wise(s)", $pa(t), map1(p, |x| x % a));
                // point-vector dot, folds
                ck.eq("dot(p, v)", pp.dot(vv), vdot(p, v));
                let mut s = S::i(0);
                let mut pr = S::i(1);
                for i in 0..N {
                    s = s + p[i];
                    pr = pr * p[i];
                }
                ck.eq("sum", pp.sum(), s);
                ck.eq("product", pp.product(), pr);
                ck.eqv("from_value", $pa($P::from_value(a)), [a; N]);
                // midpoint, centroid
                let two = S::i(2);
                ck.eqv("midpoint = p + (q - p)/2", $pa(pp.midpoint(pq)), map2(p, q, |x, y| x + (y - x) / two));
                ck.eqv("midpoint symmetric", $pa(pp.midpoint(pq)), $pa(pq.midpoint(pp)));
                let k = rd.k() as usize;
                let mut pts = Vec::with_capacity(k);
                let mut acc = [S::i(0); N];
                for _ in 0..k {
                    let x: V<S, N> = rd.arr();
                    acc = vadd(acc, x);
                    pts.push($mkp(x));
                }
                let n = S::i(k as i64);
                ck.eqv("centroid", $pa($P::centroid(&pts)), map1(acc, |x| x / n));
                ck.note("centroid", &$P::centroid(&pts));
            }
        }
    };
}

dim!(d1, 1, Point1, Vector1, p1, v1, mk_p1, mk_v1);
dim!(d2, 2, Point2, Vector2, p2, v2, mk_p2, mk_v2);
dim!(d3, 3, Point3, Vector3, p3, v3, mk_p3, mk_v3);

fn g_hom(rng: &mut Rng, tier: Tier) -> Case {
    let mut c = Case::new();
    let (v, t) = gen::rats(rng, tier, 3);
    c.push_r(&v);
    c.push_r(&[gen::nz_rat(rng, tier)]);
    c.nontrivial = t;
    c
}
fn homogeneous<S: Sc>(case: &Case, ck: &mut Ck<S>) {
    let mut rd = case.rd();
    let p: V<S, 3> = rd.arr();
    let k: S = rd.s();
    let pp = mk_p3(p);
    let h = pp.to_homogeneous();
    ck.eqv("to_homogeneous", v4(h), [p[0], p[1], p[2], S::i(1)]);
    ck.eqv("from_homogeneous(to_homogeneous(p)) = p", p3(Point3::from_homogeneous(h)), p);
    ck.eqv("from_homogeneous(k * to_homogeneous(p)) = p", p3(Point3::from_homogeneous(h * k)), p);
    ck.eqv(
        "from_homogeneous divides by w",
        p3(Point3::from_homogeneous(mk_v4([p[0], p[1], p[2], k]))),
        [p[0] / k, p[1] / k, p[2] / k],
    );
}

pub fn native_ints(cfg: &RunCfg, extra: &mut Extra) {
    let n = if cfg.tier == Tier::Quick { 3000 } else { 150_000 };
    let mut evals = 0u64;
    let mut distinct = std::collections::HashSet::new();
    macro_rules! run {
        ($T:ty, $tag:expr, $lo:expr, $hi:expr) => {{
            'outer: for i in 0..n {
                let mut rng = Rng::for_case(cfg.seed, concat!("c12_native_", $tag), i);
                let mut p = [0i128; 3];
                let mut v = [0i128; 3];
                let mut w = [0i128; 3];
                for k in 0..3 {
                    // p in the upper half, v and w small, so that p +- v +- w stays in range for unsigned types too
                    p[k] = rng.range(($lo + $hi) / 2, $hi) as i128;
                    v[k] = rng.range(0.max($lo / 4), $hi / 4) as i128;
                    w[k] = rng.range(0.max($lo / 4), $hi / 4) as i128;
                }
                evals += 1;
                let fits = |x: i128| x >= <$T>::MIN as i128 && x <= <$T>::MAX as i128;
                let t = |x: i128| x as $T;
                let pp = Point3::new(t(p[0]), t(p[1]), t(p[2]));
                let vv = Vector3::new(t(v[0]), t(v[1]), t(v[2]));
                let vw = Vector3::new(t(w[0]), t(w[1]), t(w[2]));
                let ok_all = (0..3).all(|k| fits(p[k] + v[k] + w[k]) && fits(p[k] - v[k]) && fits(v[k] + w[k]));
                if !ok_all {
                    continue;
                }
                let r = cgv_core::fw::catch(|| {
                    let mut bad: Option<String> = None;
                    let mut set = |c: bool, m: &str| {
                        if !c && bad.is_none() {
                            bad = Some(m.to_string());
                        }
                    };
                    let q = pp + vv;
                    set([q.x as i128, q.y as i128, q.z as i128] == [p[0] + v[0], p[1] + v[1], p[2] + v[2]], "p + v");
                    set((pp + vv) - pp == vv, "(p + v) - p = v");
                    set(pp + (q - pp) == q, "p + (q - p) = q");
                    set((pp + vv) + vw == pp + (vv + vw), "(p + v) + w = p + (v + w)");
                    let m = pp - vv;
                    set([m.x as i128, m.y as i128, m.z as i128] == [p[0] - v[0], p[1] - v[1], p[2] - v[2]], "p - v");
                    set(Point3::from_vec(pp.to_vec()) == pp, "from_vec(to_vec(p))");
                    set(Point3::<$T>::origin().to_vec() == Vector3::zero(), "origin");
                    let mut x = pp;
                    x += vv;
                    set(x == q, "+=");
                    x -= vv;
                    set(x == pp, "-=");
                    let p2a = Point2::new(pp.x, pp.y);
                    let v2a = Vector2::new(vv.x, vv.y);
                    set((p2a + v2a) - p2a == v2a, "2-D (p + v) - p = v");
                    let p1a = Point1::new(pp.x);
                    let v1a = Vector1::new(vv.x);
                    set((p1a + v1a) - p1a == v1a, "1-D (p + v) - p = v");
                    // scaling acts component by component (truncating integer division), in every spelling
                    let a: i128 = 1 + (p[0].unsigned_abs() % 5) as i128; // 1..5
                    if (0..3).all(|k| fits(p[k] * a)) {
                        let ta = t(a);
                        let m = pp * ta;
                        set([m.x as i128, m.y as i128, m.z as i128] == [p[0] * a, p[1] * a, p[2] * a], "p * a");
                        let mut x = pp;
                        x *= ta;
                        set(x == m, "p *= a");
                        set(pp.mul_element_wise(ta) == m, "mul_element_wise(a)");
                        let mut x = pp;
                        x.mul_assign_element_wise(ta);
                        set(x == m, "mul_assign_element_wise(a)");
                    }
                    // midpoint(p, q) = p + (q - p)/2 with the scalar's own (truncating) division
                    {
                        let m = pp.midpoint(q);
                        set([m.x as i128, m.y as i128, m.z as i128] == [p[0] + v[0] / 2, p[1] + v[1] / 2, p[2] + v[2] / 2], "midpoint(p, p + v) = p + v/2");
                        if (<$T>::MIN as i128) < 0 {
                            // q - (v/2 truncated towards zero): the difference p - q is negative
                            let m = q.midpoint(pp);
                            set(
                                [m.x as i128, m.y as i128, m.z as i128] == [p[0] + v[0] + (-v[0]) / 2, p[1] + v[1] + (-v[1]) / 2, p[2] + v[2] + (-v[2]) / 2],
                                "midpoint(p + v, p) = (p + v) + (-v)/2",
                            );
                        }
                        let m2 = p2a.midpoint(p2a + v2a);
                        set([m2.x as i128, m2.y as i128] == [p[0] + v[0] / 2, p[1] + v[1] / 2], "2-D midpoint");
                        let m1 = p1a.midpoint(p1a + v1a);
                        set(m1.x as i128 == p[0] + v[0] / 2, "1-D midpoint");
                    }
                    let b: i128 = 2 + (p[1].unsigned_abs() % 6) as i128; // 2..7
                    {
                        let tb = t(b);
                        let d = pp / tb;
                        set([d.x as i128, d.y as i128, d.z as i128] == [p[0] / b, p[1] / b, p[2] / b], "p / b");
                        let mut x = pp;
                        x /= tb;
                        set(x == d, "p /= b");
                        set(pp.div_element_wise(tb) == d, "div_element_wise(b)");
                        let mut x = pp;
                        x.div_assign_element_wise(tb);
                        set(x == d, "div_assign_element_wise(b)");
                        let r = pp % tb;
                        set([r.x as i128, r.y as i128, r.z as i128] == [p[0] % b, p[1] % b, p[2] % b], "p % b");
                        let mut x = pp;
                        x %= tb;
                        set(x == r, "p %= b");
                        let mut x2 = p2a;
                        x2 /= tb;
                        set([x2.x as i128, x2.y as i128] == [p[0] / b, p[1] / b], "2-D p /= b");
                        let mut x1 = p1a;
                        x1 /= tb;
                        set(x1.x as i128 == p[0] / b, "1-D p /= b");
                    }
                    bad
                });
                let bad = match r {
                    Ok(b) => b,
                    Err(pn) => Some(format!("unexpected panic on overflow-free inputs: {pn}")),
                };
                let mut h = cgv_core::gen::hash_str($tag);
                for k in 0..3 {
                    h = (h ^ p[k] as u64).wrapping_mul(0x100000001b3);
                    h = (h ^ v[k] as u64).wrapping_mul(0x100000001b3);
                }
                if p[0] != p[1] && p[1] != p[2] && v[0] != v[1] && v[1] != v[2] {
                    distinct.insert(h);
                }
                if let Some(msg) = bad {
                    extra.violations.push((
                        format!("native_{}", $tag),
                        msg,
                        json!({"p": p.map(|x| x as i64), "v": v.map(|x| x as i64), "w": w.map(|x| x as i64), "index": i}),
                    ));
                    break 'outer;
                }
                if i == 0 {
                    extra.samples.push(json!({"clause": concat!("native_", $tag), "p": p.map(|x| x as i64), "v": v.map(|x| x as i64)}));
                }
            }
        }};
    }
    run!(i32, "i32", -100000, 100000);
    run!(i64, "i64", -1_000_000_000, 1_000_000_000);
    run!(u32, "u32", 0, 100000);
    run!(u8, "u8", 0, 200);
    run!(i8, "i8", -100, 100);
    extra.evaluations += evals;
    extra.distinct_nontrivial += distinct.len() as u64;
    extra.sections.insert(
        "native_integer_points".into(),
        json!({"cases": evals, "types": ["i32", "i64", "u32", "u8", "i8"], "oracle": "i128 component model; additive affine laws and component-wise scaling / division / remainder in every spelling"}),
    );
}

/// midpoint and centroid of points whose coordinates are close to the end of
/// the floating-point range (same sign, |x| in [MAX/4, MAX)): p, q and every
/// quantity of the documented formula p + (q - p)/2 are finite, so the result
/// must be; allowance 64 eps of max(|p|,|q|) around the exact (p + q)/2
/// evaluated in double-double.
pub fn native_range(cfg: &RunCfg, extra: &mut Extra) {
    use cgv_core::acc::Acc;
    use cgv_core::dd::Dd;
    let n = if cfg.tier == Tier::Quick { 2000 } else { 100_000 };
    let mut acc = Acc::new("c12_midpoint_near_range_end");
    macro_rules! run {
        ($T:ty, $tag:expr) => {{
            for i in 0..n {
                let mut rng = Rng::for_case(cfg.seed, concat!("c12_range_", $tag), i);
                let mut p = [0.0 as $T; 3];
                let mut q = [0.0 as $T; 3];
                for k in 0..3 {
                    let sign = if rng.bool() { 1.0 } else { -1.0 };
                    p[k] = (sign * rng.uniform(0.25, 0.999) * <$T>::MAX as f64) as $T;
                    q[k] = (sign * rng.uniform(0.25, 0.999) * <$T>::MAX as f64) as $T;
                }
                acc.case(concat!($tag, ": coordinates in [MAX/4, MAX), same sign"));
                let inputs = || json!({"p": p.map(|x| x as f64), "q": q.map(|x| x as f64), "type": $tag, "index": i});
                let r = cgv_core::fw::catch(|| {
                    let m3 = Point3::new(p[0], p[1], p[2]).midpoint(Point3::new(q[0], q[1], q[2]));
                    let m2 = Point2::new(p[0], p[1]).midpoint(Point2::new(q[0], q[1]));
                    let m1 = Point1::new(p[0]).midpoint(Point1::new(q[0]));
                    ([m3.x as f64, m3.y as f64, m3.z as f64], [m2.x as f64, m2.y as f64], m1.x as f64)
                });
                match r {
                    Err(pn) => acc.truth(&format!("unexpected panic: {pn}"), false, &inputs),
                    Ok((m3, m2, m1)) => {
                        for k in 0..3 {
                            // exact (p+q)/2 without overflow: p/2 + q/2
                            let want = Dd::new(p[k] as f64 * 0.5).add(Dd::new(q[k] as f64 * 0.5)).val();
                            let allowed = 64.0 * (<$T>::EPSILON as f64) * (p[k].abs().max(q[k].abs()) as f64);
                            acc.check(&format!("{} midpoint[{k}] (Point3)", $tag), m3[k], want, allowed, &inputs);
                            if k < 2 {
                                acc.check(&format!("{} midpoint[{k}] (Point2)", $tag), m2[k], want, allowed, &inputs);
                            }
                            if k < 1 {
                                acc.check(&format!("{} midpoint[{k}] (Point1)", $tag), m1, want, allowed, &inputs);
                            }
                        }
                    }
                }
                if acc.failed() {
                    break;
                }
            }
        }};
    }
    run!(f64, "f64");
    run!(f32, "f32");
    acc.finish(extra, "exact p/2 + q/2 in double-double; allowance 64 eps * max(|p|,|q|)");
}

pub fn native(cfg: &RunCfg, extra: &mut Extra) {
    native_ints(cfg, extra);
    native_range(cfg, extra);
}

const EP: &[&str] = &[
    "Point + Vector, Point - Vector, Point - Point, += -=",
    "EuclideanSpace::{origin,from_vec,to_vec,midpoint,centroid,dot}",
    "Point * / % scalar and op=",
    "ElementWise for Point (20 methods)",
    "Array::{sum,product,from_value} for Point",
];
const EP_H: &[&str] = &["Point3::to_homogeneous", "Point3::from_homogeneous"];

fn b1<S: Sc>(c: &Case, k: &mut Ck<S>) {
    d1::body(c, k)
}
fn b2<S: Sc>(c: &Case, k: &mut Ck<S>) {
    d2::body(c, k)
}
fn b3<S: Sc>(c: &Case, k: &mut Ck<S>) {
    d3::body(c, k)
}

pub fn clauses() -> Vec<Clause> {
    vec![
        clause!("point1", EP, d1::g, b1, weight = 0.5, classes = 0),
        clause!("point2", EP, d2::g, b2),
        clause!("point3", EP, d3::g, b3),
        clause!("homogeneous", EP_H, g_hom, homogeneous),
    ]
}

pub const RULE: &str = "two points, two vectors with non-zero components and a non-zero scalar of small rationals per dimension 1-3, plus a list of 1-513 points for the centroid (60% 1-9, 25% 10-40, 10% 41-130, 5% 255/256/257/300/513; one list in five closed: last point = first); homogeneous: a point and a non-zero factor k. Non-trivial = points with non-zero pairwise distinct components; distinct = distinct input tuples. Native part: Point3/2/1 over i8,u8,i32,u32,i64 for the additive laws, operands placed so that the i128 model proves no overflow.";
pub const ASSUME: &[&str] = &["exact rational arithmetic in i128", "integer scalars: only the additive laws, only on overflow-free operands"];
