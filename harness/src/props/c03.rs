//! C03 — vector space, dot, cross, perp-dot (DESIGN §C03).

use cgmath::prelude::*;
use cgmath::{Vector1, Vector2, Vector3, Vector4};
use serde_json::json;

use cgv_core::clause;
use cgv_core::conv::*;
use cgv_core::fw::{Case, Clause, Extra, RunCfg};
use cgv_core::gen::{self, Rng, Tier};
use cgv_core::model::*;
use cgv_core::sc::{Ck, Sc};

fn gen_vecs(rng: &mut Rng, tier: Tier, n: usize, vecs: usize, scalars: usize) -> Case {
    let mut c = Case::new();
    let mut nt = true;
    for _ in 0..vecs {
        let (v, t) = gen::rats(rng, tier, n);
        nt &= t;
        c.push_r(&v);
    }
    for _ in 0..scalars {
        c.push_r(&[gen::nz_rat(rng, tier)]);
    }
    c.nontrivial = nt;
    c
}

fn map2<S: Sc, const N: usize>(a: V<S, N>, b: V<S, N>, f: impl Fn(S, S) -> S) -> V<S, N> {
    let mut o = a;
    for i in 0..N {
        o[i] = f(a[i], b[i]);
    }
    o
}
fn map1<S: Sc, const N: usize>(a: V<S, N>, f: impl Fn(S) -> S) -> V<S, N> {
    let mut o = a;
    for i in 0..N {
        o[i] = f(a[i]);
    }
    o
}

macro_rules! dim {
    ($md:ident, $N:expr, $Vec:ident, $v:ident, $mk:ident) => {
        pub mod $md {
            use super::*;
            const N: usize = $N;

            pub fn g_ops(rng: &mut Rng, tier: Tier) -> Case {
                let mut c = gen_vecs(rng, tier, N, 1, 2);
                // second vector with non-zero components (divisor)
                let w = gen::distinct_rats(rng, tier, N);
                c.push_r(&w);
                c
            }
            pub fn g_laws(rng: &mut Rng, tier: Tier) -> Case {
                gen_vecs(rng, tier, N, 3, 2)
            }

            /// component-wise behaviour of every operator and ElementWise method
            pub fn ops<S: Sc>(case: &Case, ck: &mut Ck<S>) {
                let mut rd = case.rd();
                let u: V<S, N> = rd.arr();
                let (a, _b): (S, S) = (rd.s(), rd.s());
                let w: V<S, N> = rd.arr(); // all components non-zero
                let (vu, vw) = ($mk(u), $mk(w));
                ck.eqv("u+w", $v(vu + vw), map2(u, w, |x, y| x + y));
                ck.eqv("u-w", $v(vu - vw), map2(u, w, |x, y| x - y));
                ck.eqv("-u", $v(-vu), map1(u, |x| -x));
                ck.eqv("u*a", $v(vu * a), map1(u, |x| x * a));
                ck.eqv("u/a", $v(vu / a), map1(u, |x| x / a));
                ck.eqv("u%a", $v(vu % a), map1(u, |x| x % a));
                let mut t = vu;
                t += vw;
                ck.eqv("u+=w", $v(t), map2(u, w, |x, y| x + y));
                let mut t = vu;
                t -= vw;
                ck.eqv("u-=w", $v(t), map2(u, w, |x, y| x - y));
                let mut t = vu;
                t *= a;
                ck.eqv("u*=a", $v(t), map1(u, |x| x * a));
                let mut t = vu;
                t /= a;
                ck.eqv("u/=a", $v(t), map1(u, |x| x / a));
                let mut t = vu;
                t %= a;
                ck.eqv("u%=a", $v(t), map1(u, |x| x % a));
                // ElementWise with a vector
                ck.eqv("add_element_wise(v)", $v(vu.add_element_wise(vw)), map2(u, w, |x, y| x + y));
                ck.eqv("sub_element_wise(v)", $v(vu.sub_element_wise(vw)), map2(u, w, |x, y| x - y));
                ck.eqv("mul_element_wise(v)", $v(vu.mul_element_wise(vw)), map2(u, w, |x, y| x * y));
                ck.eqv("div_element_wise(v)", $v(vu.div_element_wise(vw)), map2(u, w, |x, y| x / y));
                ck.eqv("rem_element_wise(v)", $v(vu.rem_element_wise(vw)), map2(u, w, |x, y| x % y));
                let mut t = vu;
                t.add_assign_element_wise(vw);
                ck.eqv("add_assign_element_wise(v)", $v(t), map2(u, w, |x, y| x + y));
                let mut t = vu;
                t.sub_assign_element_wise(vw);
                ck.eqv("sub_assign_element_wise(v)", $v(t), map2(u, w, |x, y| x - y));
                let mut t = vu;
                t.mul_assign_element_wise(vw);
                ck.eqv("mul_assign_element_wise(v)", $v(t), map2(u, w, |x, y| x * y));
                let mut t = vu;
                t.div_assign_element_wise(vw);
                ck.eqv("div_assign_element_wise(v)", $v(t), map2(u, w, |x, y| x / y));
                let mut t = vu;
                t.rem_assign_element_wise(vw);
                ck.eqv("rem_assign_element_wise(v)", $v(t), map2(u, w, |x, y| x % y));
                // ElementWise with a scalar
                ck.eqv("add_element_wise(s)", $v(vu.add_element_wise(a)), map1(u, |x| x + a));
                ck.eqv("sub_element_wise(s)", $v(vu.sub_element_wise(a)), map1(u, |x| x - a));
                ck.eqv("mul_element_wise(s)", $v(vu.mul_element_wise(a)), map1(u, |x| x * a));
                ck.eqv("div_element_wise(s)", $v(vu.div_element_wise(a)), map1(u, |x| x / a));
                ck.eqv("rem_element_wise(s)", $v(vu.rem_element_wise(a)), map1(u, |x| x % a));
                let mut t = vu;
                t.add_assign_element_wise(a);
                ck.eqv("add_assign_element_wise(s)", $v(t), map1(u, |x| x + a));
                let mut t = vu;
                t.sub_assign_element_wise(a);
                ck.eqv("sub_assign_element_wise(s)", $v(t), map1(u, |x| x - a));
                let mut t = vu;
                t.mul_assign_element_wise(a);
                ck.eqv("mul_assign_element_wise(s)", $v(t), map1(u, |x| x * a));
                let mut t = vu;
                t.div_assign_element_wise(a);
                ck.eqv("div_assign_element_wise(s)", $v(t), map1(u, |x| x / a));
                let mut t = vu;
                t.rem_assign_element_wise(a);
                ck.eqv("rem_assign_element_wise(s)", $v(t), map1(u, |x| x % a));
                // folds and constants
                let mut s = S::i(0);
                let mut p = S::i(1);
                for i in 0..N {
                    s = s + u[i];
                    p = p * u[i];
                }
                ck.eq("sum", vu.sum(), s);
                ck.eq("product", vu.product(), p);
                ck.eqv("from_value", $v($Vec::from_value(a)), [a; N]);
                ck.eqv("zero", $v($Vec::<S>::zero()), [S::i(0); N]);
                ck.eqv("u+zero", $v(vu + $Vec::zero()), u);
                ck.eqv("zero+u", $v($Vec::zero() + vu), u);
                // the rest of the Zero interface: is_zero, and set_zero (a provided method of the
                // foreign trait) must leave the additive identity behind
                ck.truth("zero().is_zero()", num_traits::Zero::is_zero(&$Vec::<S>::zero()));
                let mut cleared = vu;
                num_traits::Zero::set_zero(&mut cleared);
                ck.eqv("set_zero leaves zero()", $v(cleared), [S::i(0); N]);
                ck.eqv("w + (u after set_zero) = w", $v(vw + cleared), w);
                ck.truth("len", $Vec::<S>::len() == N);
                ck.note("u", &vu);
            }

            /// inner-product laws
            pub fn laws<S: Sc>(case: &Case, ck: &mut Ck<S>) {
                let mut rd = case.rd();
                let (u, v, w): (V<S, N>, V<S, N>, V<S, N>) = (rd.arr(), rd.arr(), rd.arr());
                let (a, b): (S, S) = (rd.s(), rd.s());
                let (vu, vv, vw) = ($mk(u), $mk(v), $mk(w));
                ck.eq("dot vs model", vu.dot(vv), vdot(u, v));
                ck.eq("dot symmetric", vu.dot(vv), vv.dot(vu));
                ck.eq(
                    "dot bilinear (left)",
                    (vu * a + vw * b).dot(vv),
                    a * vu.dot(vv) + b * vw.dot(vv),
                );
                ck.eq(
                    "dot bilinear (right)",
                    vv.dot(vu * a + vw * b),
                    a * vv.dot(vu) + b * vv.dot(vw),
                );
                ck.eq("magnitude2 = dot(v,v)", vu.magnitude2(), vdot(u, u));
                ck.eq("free fn dot", cgmath::dot(vu, vv), vdot(u, v));
                ck.le("magnitude2 >= 0", S::i(0), vu.magnitude2());
                ck.eqv("(u+v)+w = u+(v+w)", $v((vu + vv) + vw), $v(vu + (vv + vw)));
                ck.eqv("u+v = v+u", $v(vu + vv), $v(vv + vu));
                ck.eqv("a(u+v) = au+av", $v((vu + vv) * a), $v(vu * a + vv * a));
                ck.eqv("(a+b)u = au+bu", $v(vu * (a + b)), $v(vu * a + vu * b));
                ck.eqv("u-u = 0", $v(vu - vu), [S::i(0); N]);
                ck.eqv("u+(-u) = 0", $v(vu + (-vu)), [S::i(0); N]);
            }
        }
    };
}

dim!(d1, 1, Vector1, v1, mk_v1);
dim!(d2, 2, Vector2, v2, mk_v2);
dim!(d3, 3, Vector3, v3, mk_v3);
dim!(d4, 4, Vector4, v4, mk_v4);

fn g_cross(rng: &mut Rng, tier: Tier) -> Case {
    gen_vecs(rng, tier, 3, 3, 0)
}
fn cross_laws<S: Sc>(case: &Case, ck: &mut Ck<S>) {
    let mut rd = case.rd();
    let (u, v, w): (V<S, 3>, V<S, 3>, V<S, 3>) = (rd.arr(), rd.arr(), rd.arr());
    let (vu, vv, vw) = (mk_v3(u), mk_v3(v), mk_v3(w));
    let c = vu.cross(vv);
    ck.eqv("cross vs model", v3(c), cross(u, v));
    ck.eqv("u x v = -(v x u)", v3(c), v3(-vv.cross(vu)));
    ck.eq("u.(u x v) = 0", vu.dot(c), S::i(0));
    ck.eq("v.(u x v) = 0", vv.dot(c), S::i(0));
    ck.eq(
        "Lagrange identity",
        c.magnitude2(),
        vu.magnitude2() * vv.magnitude2() - vu.dot(vv) * vu.dot(vv),
    );
    ck.eqv(
        "u x (v x w) = v(u.w) - w(u.v)",
        v3(vu.cross(vv.cross(vw))),
        v3(vv * vu.dot(vw) - vw * vu.dot(vv)),
    );
    ck.eqv("unit_x x unit_y = unit_z", v3(Vector3::<S>::unit_x().cross(Vector3::unit_y())), v3(Vector3::unit_z()));
    ck.eqv("unit_y x unit_z = unit_x", v3(Vector3::<S>::unit_y().cross(Vector3::unit_z())), v3(Vector3::unit_x()));
    ck.eqv("unit_z x unit_x = unit_y", v3(Vector3::<S>::unit_z().cross(Vector3::unit_x())), v3(Vector3::unit_y()));
    ck.note("u x v", &c);
}

fn g_perp(rng: &mut Rng, tier: Tier) -> Case {
    gen_vecs(rng, tier, 2, 2, 0)
}
fn perp<S: Sc>(case: &Case, ck: &mut Ck<S>) {
    let mut rd = case.rd();
    let (u, v): (V<S, 2>, V<S, 2>) = (rd.arr(), rd.arr());
    let (vu, vv) = (mk_v2(u), mk_v2(v));
    ck.eq("perp_dot", vu.perp_dot(vv), u[0] * v[1] - u[1] * v[0]);
    ck.eq("perp_dot antisymmetric", vu.perp_dot(vv), -vv.perp_dot(vu));
    ck.eq("perp_dot(u,u) = 0", vu.perp_dot(vu), S::i(0));
    let z = S::i(0);
    let o = S::i(1);
    ck.eqv("Vector1::unit_x", v1(Vector1::<S>::unit_x()), [o]);
    ck.eqv("Vector2::unit_x", v2(Vector2::<S>::unit_x()), [o, z]);
    ck.eqv("Vector2::unit_y", v2(Vector2::<S>::unit_y()), [z, o]);
    ck.eqv("Vector3::unit_x", v3(Vector3::<S>::unit_x()), [o, z, z]);
    ck.eqv("Vector3::unit_y", v3(Vector3::<S>::unit_y()), [z, o, z]);
    ck.eqv("Vector3::unit_z", v3(Vector3::<S>::unit_z()), [z, z, o]);
    ck.eqv("Vector4::unit_x", v4(Vector4::<S>::unit_x()), [o, z, z, z]);
    ck.eqv("Vector4::unit_y", v4(Vector4::<S>::unit_y()), [z, o, z, z]);
    ck.eqv("Vector4::unit_z", v4(Vector4::<S>::unit_z()), [z, z, o, z]);
    ck.eqv("Vector4::unit_w", v4(Vector4::<S>::unit_w()), [z, z, z, o]);
}

// ---------------------------------------------------------------- native integer scalars

/// Same identities on i8/u8/i32/u32/i64 with operands bounded so that the
/// i128 model proves no intermediate can overflow (identities whose model
/// leaves the type's range are skipped for that case and counted).
pub fn native_ints(cfg: &RunCfg, extra: &mut Extra) {
    let n = if cfg.tier == Tier::Quick { 3000 } else { 200_000 };
    let mut evals = 0u64;
    let mut skipped = 0u64;
    let mut distinct = std::collections::HashSet::new();
    let mut per_type = serde_json::Map::new();
    macro_rules! run {
        ($T:ty, $tag:expr, $lo:expr, $hi:expr, $signed:expr) => {{
            let mut judged = 0u64;
            'outer: for i in 0..n {
                let mut rng = Rng::for_case(cfg.seed, concat!("c03_native_", $tag), i);
                let mut u = [0i128; 4];
                let mut v = [0i128; 4];
                let mut w = [0i128; 4];
                for k in 0..4 {
                    u[k] = rng.range($lo, $hi) as i128;
                    v[k] = rng.range($lo, $hi) as i128;
                    w[k] = rng.range($lo, $hi) as i128;
                }
                let a = rng.range(if $lo < 0 { -9 } else { 1 }, 9).max($lo) as i128;
                let a = if a == 0 { 1 } else { a };
                evals += 1;
                let fits = |x: i128| x >= <$T>::MIN as i128 && x <= <$T>::MAX as i128;
                let t = |x: i128| x as $T;
                let vu = Vector4::new(t(u[0]), t(u[1]), t(u[2]), t(u[3]));
                let vv = Vector4::new(t(v[0]), t(v[1]), t(v[2]), t(v[3]));
                let caught = cgv_core::fw::catch(|| {
                let mut bad: Option<String> = None;
                macro_rules! chk {
                    ($name:expr, $got:expr, $exp:expr) => {{
                        let got: [$T; 4] = $got;
                        let exp: [i128; 4] = $exp;
                        for k in 0..4 {
                            if got[k] as i128 != exp[k] && bad.is_none() {
                                bad = Some(format!("{}[{k}] = {} expected {}", $name, got[k], exp[k]));
                            }
                        }
                    }};
                }
                // each block first proves with the model that no intermediate overflows
                let add: Vec<i128> = (0..4).map(|k| u[k] + v[k]).collect();
                if add.iter().all(|&x| fits(x)) {
                    judged += 1;
                    chk!("u+v", (vu + vv).into(), [add[0], add[1], add[2], add[3]]);
                    chk!("add_element_wise", vu.add_element_wise(vv).into(), [add[0], add[1], add[2], add[3]]);
                    let mut x = vu;
                    x += vv;
                    chk!("u+=v", x.into(), [add[0], add[1], add[2], add[3]]);
                } else {
                    skipped += 1;
                }
                let sub: Vec<i128> = (0..4).map(|k| u[k] - v[k]).collect();
                if sub.iter().all(|&x| fits(x)) {
                    judged += 1;
                    chk!("u-v", (vu - vv).into(), [sub[0], sub[1], sub[2], sub[3]]);
                    chk!("sub_element_wise", vu.sub_element_wise(vv).into(), [sub[0], sub[1], sub[2], sub[3]]);
                    let mut x = vu;
                    x -= vv;
                    chk!("u-=v", x.into(), [sub[0], sub[1], sub[2], sub[3]]);
                    let mut x = vu;
                    x.sub_assign_element_wise(vv);
                    chk!("sub_assign_element_wise(v)", x.into(), [sub[0], sub[1], sub[2], sub[3]]);
                } else {
                    skipped += 1;
                }
                let mul: Vec<i128> = (0..4).map(|k| u[k] * a).collect();
                if mul.iter().all(|&x| fits(x)) && fits(a) {
                    judged += 1;
                    let mut x = vu;
                    x *= t(a);
                    chk!("u*=a", x.into(), [mul[0], mul[1], mul[2], mul[3]]);
                    let mut x = vu;
                    x.mul_assign_element_wise(t(a));
                    chk!("mul_assign_element_wise(s)", x.into(), [mul[0], mul[1], mul[2], mul[3]]);
                    chk!("u*a", (vu * t(a)).into(), [mul[0], mul[1], mul[2], mul[3]]);
                    chk!("mul_element_wise(s)", vu.mul_element_wise(t(a)).into(), [mul[0], mul[1], mul[2], mul[3]]);
                }
                if fits(a) && a != 0 && !(a == -1) {
                    judged += 1;
                    // Rust integer division truncates toward zero, like i128
                    chk!("u/a", (vu / t(a)).into(), [u[0] / a, u[1] / a, u[2] / a, u[3] / a]);
                    chk!("u%a", (vu % t(a)).into(), [u[0] % a, u[1] % a, u[2] % a, u[3] % a]);
                    let mut x = vu;
                    x /= t(a);
                    chk!("u/=a", x.into(), [u[0] / a, u[1] / a, u[2] / a, u[3] / a]);
                    let mut x = vu;
                    x %= t(a);
                    chk!("u%=a", x.into(), [u[0] % a, u[1] % a, u[2] % a, u[3] % a]);
                    chk!("div_element_wise(s)", vu.div_element_wise(t(a)).into(), [u[0] / a, u[1] / a, u[2] / a, u[3] / a]);
                    chk!("rem_element_wise(s)", vu.rem_element_wise(t(a)).into(), [u[0] % a, u[1] % a, u[2] % a, u[3] % a]);
                    let mut x = vu;
                    x.div_assign_element_wise(t(a));
                    chk!("div_assign_element_wise(s)", x.into(), [u[0] / a, u[1] / a, u[2] / a, u[3] / a]);
                    let mut x = vu;
                    x.rem_assign_element_wise(t(a));
                    chk!("rem_assign_element_wise(s)", x.into(), [u[0] % a, u[1] % a, u[2] % a, u[3] % a]);
                    // lower dimensions share the macro but are separate instantiations
                    let mut x3 = vu.truncate();
                    x3 /= t(a);
                    let g3: [$T; 3] = x3.into();
                    if g3.iter().zip(u.iter()).any(|(g, e)| *g as i128 != e / a) && bad.is_none() {
                        bad = Some("Vector3 u/=a".into());
                    }
                    let mut x2 = vu.truncate().truncate();
                    x2 /= t(a);
                    let g2: [$T; 2] = x2.into();
                    if g2.iter().zip(u.iter()).any(|(g, e)| *g as i128 != e / a) && bad.is_none() {
                        bad = Some("Vector2 u/=a".into());
                    }
                    // division by a vector with non-zero components
                    if v.iter().all(|&x| x != 0 && x != -1) {
                        chk!("div_element_wise(v)", vu.div_element_wise(vv).into(), [u[0] / v[0], u[1] / v[1], u[2] / v[2], u[3] / v[3]]);
                        chk!("rem_element_wise(v)", vu.rem_element_wise(vv).into(), [u[0] % v[0], u[1] % v[1], u[2] % v[2], u[3] % v[3]]);
                        let mut x = vu;
                        x.div_assign_element_wise(vv);
                        chk!("div_assign_element_wise(v)", x.into(), [u[0] / v[0], u[1] / v[1], u[2] / v[2], u[3] / v[3]]);
                    }
                }
                let prods: Vec<i128> = (0..4).map(|k| u[k] * v[k]).collect();
                let abs_sum: i128 = prods.iter().map(|x| x.abs()).sum();
                if fits(abs_sum) {
                    judged += 1;
                    let d: i128 = prods.iter().sum();
                    if vu.dot(vv) as i128 != d {
                        bad = Some(format!("dot = {} expected {d}", vu.dot(vv)));
                    }
                    if vv.dot(vu) as i128 != d {
                        bad = Some("dot not symmetric".into());
                    }
                    chk!("mul_element_wise(v)", vu.mul_element_wise(vv).into(), [prods[0], prods[1], prods[2], prods[3]]);
                    let v3u = vu.truncate();
                    let v3v = vv.truncate();
                    let d3 = prods[0] + prods[1] + prods[2];
                    if v3u.dot(v3v) as i128 != d3 {
                        bad = Some(format!("dot3 = {} expected {d3}", v3u.dot(v3v)));
                    }
                    let v2u = v3u.truncate();
                    let v2v = v3v.truncate();
                    if v2u.dot(v2v) as i128 != prods[0] + prods[1] {
                        bad = Some("dot2".into());
                    }
                }
                let m2: i128 = (0..4).map(|k| u[k] * u[k]).sum();
                if fits(m2) {
                    judged += 1;
                    if vu.magnitude2() as i128 != m2 {
                        bad = Some(format!("magnitude2 = {} expected {m2}", vu.magnitude2()));
                    }
                }
                let s: i128 = u.iter().sum();
                let sa: i128 = u.iter().map(|x| x.abs()).sum();
                if fits(sa) {
                    judged += 1;
                    if vu.sum() as i128 != s {
                        bad = Some(format!("sum = {} expected {s}", vu.sum()));
                    }
                }
                let p: i128 = u.iter().product();
                // every partial product (any association) must fit
                let pa: i128 = u.iter().map(|x| x.abs().max(1)).product();
                if fits(pa) && pa < 1i128 << 62 {
                    judged += 1;
                    if vu.product() as i128 != p {
                        bad = Some(format!("product = {} expected {p}", vu.product()));
                    }
                }
                if $signed {
                    // cross and perp_dot need differences of products
                    let (a3, b3) = ([u[0], u[1], u[2]], [v[0], v[1], v[2]]);
                    let terms = [a3[1] * b3[2], a3[2] * b3[1], a3[2] * b3[0], a3[0] * b3[2], a3[0] * b3[1], a3[1] * b3[0]];
                    let c = [terms[0] - terms[1], terms[2] - terms[3], terms[4] - terms[5]];
                    if terms.iter().all(|&x| fits(x)) && c.iter().all(|&x| fits(x)) {
                        judged += 1;
                        let cc = vu.truncate().cross(vv.truncate());
                        let got = [cc.x as i128, cc.y as i128, cc.z as i128];
                        if got != c {
                            bad = Some(format!("cross = {got:?} expected {c:?}"));
                        }
                        let pd = terms[4] - terms[5];
                        if vu.truncate().truncate().perp_dot(vv.truncate().truncate()) as i128 != pd {
                            bad = Some("perp_dot".into());
                        }
                        // orthogonality, when it cannot overflow
                        let o: i128 = (0..3).map(|k| (a3[k] * c[k]).abs()).sum();
                        if fits(o) {
                            if vu.truncate().dot(cc) as i128 != 0 {
                                bad = Some("u.(u x v) != 0".into());
                            }
                        }
                    }
                }
                bad
                });
                let bad = match caught {
                    Ok(b) => b,
                    Err(p) => Some(format!("unexpected panic on overflow-free inputs: {p}")),
                };
                let mut h = 0u64;
                for k in 0..4 {
                    h = (h ^ u[k] as u64).wrapping_mul(0x100000001b3);
                    h = (h ^ v[k] as u64).wrapping_mul(0x100000001b3);
                }
                let nz = u.iter().chain(v.iter()).all(|&x| x != 0);
                let d: std::collections::HashSet<i128> = u.iter().cloned().collect();
                if nz && d.len() == 4 {
                    distinct.insert(h ^ cgv_core::gen::hash_str($tag));
                }
                let _ = w;
                if let Some(msg) = bad {
                    extra.violations.push((
                        format!("native_{}", $tag),
                        msg,
                        json!({"u": u.map(|x| x as i64), "v": v.map(|x| x as i64), "a": a as i64, "type": $tag, "index": i}),
                    ));
                    break 'outer;
                }
                if i == 0 {
                    extra.samples.push(json!({"clause": concat!("native_", $tag), "u": u.map(|x| x as i64), "v": v.map(|x| x as i64),
                        "dot": format!("{:?}", vu.dot(vv))}));
                }
            }
            per_type.insert($tag.to_string(), json!({"identities_judged": judged}));
        }};
    }
    run!(i32, "i32", -1000, 1000, true);
    run!(i64, "i64", -1_000_000, 1_000_000, true);
    run!(u32, "u32", 0, 1000, false);
    run!(u8, "u8", 0, 7, false);
    run!(i8, "i8", -5, 5, true);
    extra.evaluations += evals;
    extra.distinct_nontrivial += distinct.len() as u64;
    extra.sections.insert(
        "native_integer_vectors".into(),
        json!({"cases": evals, "identities_skipped_because_model_overflows": skipped, "per_type": per_type,
               "oracle": "i128 component model; overflow-checks are on, so an overflow inside cgmath on these inputs would panic"}),
    );
}

const EP_OPS: &[&str] = &[
    "Vector +,-,neg,*s,/s,%s and op=",
    "ElementWise (vector rhs, 10 methods)",
    "ElementWise (scalar rhs, 10 methods)",
    "Array::sum",
    "Array::product",
    "Array::from_value",
    "Zero::zero",
];
const EP_LAWS: &[&str] = &["InnerSpace::dot", "InnerSpace::magnitude2", "cgmath::dot"];
const EP_CROSS: &[&str] = &["Vector3::cross", "InnerSpace::dot", "Vector3::unit_*"];
const EP_PERP: &[&str] = &["Vector2::perp_dot", "Vector{1,2,3,4}::unit_*"];

fn ops1<S: Sc>(c: &Case, k: &mut Ck<S>) {
    d1::ops(c, k)
}
fn ops2<S: Sc>(c: &Case, k: &mut Ck<S>) {
    d2::ops(c, k)
}
fn ops3<S: Sc>(c: &Case, k: &mut Ck<S>) {
    d3::ops(c, k)
}
fn ops4<S: Sc>(c: &Case, k: &mut Ck<S>) {
    d4::ops(c, k)
}
fn laws1<S: Sc>(c: &Case, k: &mut Ck<S>) {
    d1::laws(c, k)
}
fn laws2<S: Sc>(c: &Case, k: &mut Ck<S>) {
    d2::laws(c, k)
}
fn laws3<S: Sc>(c: &Case, k: &mut Ck<S>) {
    d3::laws(c, k)
}
fn laws4<S: Sc>(c: &Case, k: &mut Ck<S>) {
    d4::laws(c, k)
}

pub fn clauses() -> Vec<Clause> {
    vec![
        clause!("ops1", EP_OPS, d1::g_ops, ops1, weight = 0.5, classes = 0),
        clause!("ops2", EP_OPS, d2::g_ops, ops2),
        clause!("ops3", EP_OPS, d3::g_ops, ops3),
        clause!("ops4", EP_OPS, d4::g_ops, ops4),
        clause!("laws1", EP_LAWS, d1::g_laws, laws1, weight = 0.5, classes = 0),
        clause!("laws2", EP_LAWS, d2::g_laws, laws2),
        clause!("laws3", EP_LAWS, d3::g_laws, laws3),
        clause!("laws4", EP_LAWS, d4::g_laws, laws4),
        clause!("cross", EP_CROSS, g_cross, cross_laws),
        clause!("perp_dot", EP_PERP, g_perp, perp),
    ]
}

/// Native f32 / f64 vectors with components m*2^e spread over 40 binary orders
/// of magnitude (exactly representable in f32), including nearly parallel pairs
/// v = k*u + one tiny perturbation.  Component-by-component operations are
/// compared with the primitive operation on the components (bit for bit for
/// + - neg * and the element-wise forms, 4 eps relative for division so that a
/// correctly rounded reciprocal is not an alarm); dot, perp_dot, cross, sum and
/// magnitude2 against a double-double model with the componentwise allowance
/// 512 eps * (sum of the magnitudes of the terms).
pub fn native_floats(cfg: &RunCfg, extra: &mut Extra) {
    use cgmath::BaseFloat;
    use cgv_core::acc::Acc;
    use cgv_core::bits::Bits;
    use cgv_core::dd;
    fn run<T: BaseFloat + Bits>(tag: &str, u0: [f64; 4], v0: [f64; 4], a0: f64, acc: &mut Acc, inputs: &dyn Fn() -> serde_json::Value) {
        let eps = T::epsilon().to_f64().unwrap();
        let f = |x: f64| T::from(x).unwrap();
        let g = |x: T| x.to_f64().unwrap();
        let a = f(a0);
        let (u, v): ([T; 4], [T; 4]) = (u0.map(f), v0.map(f));
        let same = |x: T, y: T| x.bits() == y.bits();
        macro_rules! dim {
            ($V:ident, $n:expr, ($($i:expr),+)) => {{
                let (uu, vv) = ($V::new($(u[$i]),+), $V::new($(v[$i]),+));
                let name = stringify!($V);
                let arr = |x: $V<T>| -> [T; $n] { x.into() };
                let (s, d, ng, ms, ds) = (arr(uu + vv), arr(uu - vv), arr(-uu), arr(uu * a), arr(uu / a));
                let (ea, es, em, ed) = (arr(uu.add_element_wise(vv)), arr(uu.sub_element_wise(vv)), arr(uu.mul_element_wise(vv)), arr(uu.div_element_wise(vv)));
                for i in 0..$n {
                    acc.truth(&format!("{tag} {name}: (u + v)[{i}] is not u[{i}] + v[{i}]"), same(s[i], u[i] + v[i]), inputs);
                    acc.truth(&format!("{tag} {name}: (u - v)[{i}] is not u[{i}] - v[{i}]"), same(d[i], u[i] - v[i]), inputs);
                    acc.truth(&format!("{tag} {name}: (-u)[{i}] is not -u[{i}]"), same(ng[i], -u[i]), inputs);
                    acc.truth(&format!("{tag} {name}: (u * a)[{i}] is not u[{i}] * a"), same(ms[i], u[i] * a), inputs);
                    acc.truth(&format!("{tag} {name}: add_element_wise[{i}]"), same(ea[i], u[i] + v[i]), inputs);
                    acc.truth(&format!("{tag} {name}: sub_element_wise[{i}]"), same(es[i], u[i] - v[i]), inputs);
                    acc.truth(&format!("{tag} {name}: mul_element_wise[{i}]"), same(em[i], u[i] * v[i]), inputs);
                    let q = g(u[i] / a);
                    acc.check(&format!("{tag} {name}: (u / a)[{i}] vs u[{i}] / a"), g(ds[i]), q, 4.0 * eps * q.abs(), inputs);
                    let q = g(u[i] / v[i]);
                    acc.check(&format!("{tag} {name}: div_element_wise[{i}] vs u[{i}] / v[{i}]"), g(ed[i]), q, 4.0 * eps * q.abs(), inputs);
                }
                let (uf, vf): (Vec<f64>, Vec<f64>) = (u[..$n].iter().map(|x| g(*x)).collect(), v[..$n].iter().map(|x| g(*x)).collect());
                let (want, cond) = dd::dot(&uf, &vf);
                acc.check(&format!("{tag} {name}: dot(u, v)"), g(uu.dot(vv)), want, 512.0 * eps * cond, inputs);
                acc.check(&format!("{tag} {name}: dot(v, u)"), g(vv.dot(uu)), want, 512.0 * eps * cond, inputs);
                let (want, cond) = dd::dot(&uf, &uf);
                acc.check(&format!("{tag} {name}: magnitude2(u)"), g(uu.magnitude2()), want, 512.0 * eps * cond, inputs);
                let ones = vec![1.0; $n];
                let (want, cond) = dd::dot(&uf, &ones);
                acc.check(&format!("{tag} {name}: sum()"), g(uu.sum()), want, 512.0 * eps * cond, inputs);
                let want: f64 = uf.iter().product();
                acc.check(&format!("{tag} {name}: product()"), g(uu.product()), want, 256.0 * eps * want.abs(), inputs);
            }};
        }
        dim!(Vector1, 1, (0));
        dim!(Vector2, 2, (0, 1));
        dim!(Vector3, 3, (0, 1, 2));
        dim!(Vector4, 4, (0, 1, 2, 3));
        let (uf, vf) = (u.map(g), v.map(g));
        // cross: (u_y v_z - u_z v_y, u_z v_x - u_x v_z, u_x v_y - u_y v_x)
        let (u3, v3) = (Vector3::new(u[0], u[1], u[2]), Vector3::new(v[0], v[1], v[2]));
        let (c, cr) = (u3.cross(v3), v3.cross(u3));
        for (i, (p, q)) in [(1usize, 2usize), (2, 0), (0, 1)].iter().enumerate() {
            let (want, cond) = dd::dot(&[uf[*p], -uf[*q]], &[vf[*q], vf[*p]]);
            acc.check(&format!("{tag} cross(u, v)[{i}]"), g(c[i]), want, 512.0 * eps * cond, inputs);
            acc.check(&format!("{tag} cross(v, u)[{i}] = -cross(u, v)[{i}]"), g(cr[i]), -want, 512.0 * eps * cond, inputs);
        }
        let (want, cond) = dd::dot(&[uf[0], -uf[1]], &[vf[1], vf[0]]);
        acc.check(&format!("{tag} perp_dot(u, v)"), g(Vector2::new(u[0], u[1]).perp_dot(Vector2::new(v[0], v[1]))), want, 512.0 * eps * cond, inputs);
    }
    let n = if cfg.tier == Tier::Quick { 3000 } else { 200_000 };
    let mut acc = Acc::new("c03_float_vectors");
    for i in 0..n {
        let mut rng = Rng::for_case(cfg.seed, "c03_native_floats", i);
        let mut entry = |rng: &mut Rng| {
            let m = rng.range(1, 2047) as f64 * if rng.bool() { 1.0 } else { -1.0 };
            m * (2.0f64).powi(rng.range(-20, 20) as i32)
        };
        let u: [f64; 4] = [entry(&mut rng), entry(&mut rng), entry(&mut rng), entry(&mut rng)];
        let mut v: [f64; 4] = [entry(&mut rng), entry(&mut rng), entry(&mut rng), entry(&mut rng)];
        let class = rng.below(3);
        if class == 1 {
            // nearly parallel: v = k*u with one component nudged by a relative 2^-j (exact in f32 for j <= 12)
            let k = rng.pick(&[1.0, 2.0, -1.0, 0.5, -4.0]);
            for c in 0..4 {
                v[c] = u[c] * k;
            }
            let c = rng.below(4) as usize;
            let j = rng.range(2, 12) as i32;
            v[c] = u[c] * k * (1.0 + (2.0f64).powi(-j));
            acc.case("nearly parallel (one component nudged by 2^-j)");
        } else if class == 2 {
            // same magnitude scale for all components
            let e = (2.0f64).powi(rng.range(-20, 20) as i32);
            for c in 0..4 {
                v[c] = rng.range(1, 2047) as f64 * e * if rng.bool() { 1.0 } else { -1.0 };
            }
            acc.case("mixed / common magnitudes");
        } else {
            acc.case("components m*2^e, e in [-20,20]");
        }
        let a = entry(&mut rng);
        let inputs = || json!({"u": u, "v": v, "a": a, "index": i});
        match cgv_core::fw::catch(|| {
            let mut local = Acc::new("c03_float_vectors");
            run::<f64>("f64", u, v, a, &mut local, &inputs);
            run::<f32>("f32", u, v, a, &mut local, &inputs);
            local
        }) {
            Ok(l) => {
                acc.checks += l.checks;
                acc.worst = acc.worst.max(l.worst);
                if acc.fail.is_none() {
                    acc.fail = l.fail;
                }
            }
            Err(p) => acc.truth(&format!("unexpected panic: {p}"), false, &inputs),
        }
        if acc.failed() {
            break;
        }
    }
    acc.finish(extra, "primitive operation per component (bitwise; 4 eps for division); double-double model for dot/cross/perp_dot/sum/magnitude2 with allowance 512 eps * sum of term magnitudes");
}

pub fn native(cfg: &RunCfg, extra: &mut Extra) {
    native_ints(cfg, extra);
    native_floats(cfg, extra);
}

pub const RULE: &str = "vectors of small rationals (dimension 1-4) and non-zero rational scalars; non-trivial = every vector has non-zero pairwise distinct components (a dropped or duplicated field changes one output component); distinct = distinct input tuples per clause. Native part: Vector4/3/2 over i8,u8,i32,u32,i64 with bounded random components, non-trivial = all components non-zero and the four components of u distinct.";
pub const ASSUME: &[&str] = &[
    "exact rational arithmetic in i128",
    "integer identities are only judged when the i128 model shows that no intermediate can leave the type's range",
];
