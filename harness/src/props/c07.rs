//! C07 — Euler angles: intrinsic X-Y-Z, extraction, gimbal cone (DESIGN §C07).

use cgmath::prelude::*;
use cgmath::{Basis3, Deg, Euler, Matrix3, Matrix4, Quaternion, Rad};
use num_traits::Float;

use cgv_core::clause;
use cgv_core::conv::*;
use cgv_core::fw::{Case, Clause};
use cgv_core::gen::{self, Rng, Tier};
use cgv_core::iv::Tri;
use cgv_core::model::*;
use cgv_core::sc::{Ck, Sc};

// ---------------------------------------------------------------- a. building from Euler angles

fn g_from(rng: &mut Rng, tier: Tier) -> Case {
    let mut c = Case::new();
    let (v, t) = gen::rats(rng, tier, 3);
    c.push_r(&v);
    let deg = rng.below(3) == 0;
    c.push_k(&[deg as i64]);
    for _ in 0..3 {
        if deg {
            let d = match rng.below(8) {
                0 => rng.pick(&[0.0, 90.0, -90.0, 180.0, -180.0, 45.0, 89.0, -89.5]),
                _ => rng.dyadic(-400.0, 400.0),
            };
            c.push_f(&[d]);
        } else {
            c.push_f(&[gen::angle(rng)]);
        }
    }
    // one case in five: the middle angle on a geometric ladder around +-90 degrees
    // (distance 10^-1 .. 10^-12), the region where cos y underflows towards 0
    if rng.chance(1, 5) {
        let q = if deg { 90.0 } else { std::f64::consts::FRAC_PI_2 };
        let k = rng.range(1, 12) as i32;
        let side = if rng.bool() { 1.0 } else { -1.0 };
        let sign = if rng.bool() { 1.0 } else { -1.0 };
        c.f[1] = sign * (q + side * q * 10f64.powi(-k));
        c.class = 1;
    }
    let f = &c.f;
    c.nontrivial = t && f[0] != 0.0 && f[1] != 0.0 && f[2] != 0.0 && f[0] != f[1] && f[1] != f[2] && f[0] != f[2];
    c
}

fn from_euler<S: Sc>(case: &Case, ck: &mut Ck<S>) {
    let mut rd = case.rd();
    let v: V<S, 3> = rd.arr();
    let deg = rd.k() == 1;
    let raw: [S; 3] = rd.xarr();
    let rad = |x: S| if deg { (x * S::pi() / S::i(180)).widen(2) } else { x };
    let (x, y, z) = (rad(raw[0]), rad(raw[1]), rad(raw[2]));
    let model = mmul(
        mmul(rot_x(Float::sin(x), Float::cos(x)), rot_y(Float::sin(y), Float::cos(y))),
        rot_z(Float::sin(z), Float::cos(z)),
    );
    let (m3e, m4e, b3e, qe): (Matrix3<S>, Matrix4<S>, Basis3<S>, Quaternion<S>) = if deg {
        let e = Euler::new(Deg(raw[0]), Deg(raw[1]), Deg(raw[2]));
        (Matrix3::from(e), Matrix4::from(e), Basis3::from(e), Quaternion::from(e))
    } else {
        let e = Euler::new(Rad(raw[0]), Rad(raw[1]), Rad(raw[2]));
        (Matrix3::from(e), Matrix4::from(e), Basis3::from(e), Quaternion::from(e))
    };
    ck.eqm("Matrix3::from(Euler) = Rx Ry Rz", m3(m3e), model);
    ck.eqm("Matrix4::from(Euler) = Rx Ry Rz", m4(m4e), embed34(model));
    ck.eqm("Basis3::from(Euler) = Rx Ry Rz", m3(Matrix3::from(b3e)), model);
    ck.eqm("Quaternion::from(Euler) as matrix", m3(Matrix3::from(qe)), model);
    ck.eqv("Quaternion::from(Euler) acts on v", v3(qe * mk_v3(v)), mvec(model, v));
    ck.eq("|Quaternion::from(Euler)|^2 = 1", qe.magnitude2(), S::i(1));
    // half-angle product qx*qy*qz, up to sign
    let h = |t: S| (Float::cos(t / S::i(2)), Float::sin(t / S::i(2)));
    let ((cx, sx), (cy, sy), (cz, sz)) = (h(x), h(y), h(z));
    let z0 = S::i(0);
    let prod = qmul(qmul([cx, sx, z0, z0], [cy, z0, sy, z0]), [cz, z0, z0, sz]);
    ck.eq_pm("Quaternion::from(Euler) = +-qx qy qz", qt(qe), prod);
    // the same through cgmath's own elementary rotations
    let comp = Matrix3::from_angle_x(Rad(x)) * Matrix3::from_angle_y(Rad(y)) * Matrix3::from_angle_z(Rad(z));
    ck.eqm("= from_angle_x * from_angle_y * from_angle_z", m3(m3e), m3(comp));
    ck.note("Matrix3::from(Euler)", &m3e);
}

// ---------------------------------------------------------------- b/c. extraction

/// family 0: arbitrary rational unit quaternion; 1: rational quaternion of
/// Rx(a)Ry(b)Rz(c) with b near +-pi/2 (inside or close to the cone);
/// 2: real-valued ladder around |sin y| = 0.998 (normalised in the engine)
fn g_extract(rng: &mut Rng, tier: Tier) -> Case {
    let mut c = Case::new();
    let fam = match rng.below(12) {
        0..=3 => 0,
        4..=6 => 1,
        7..=9 => 2,
        _ => 3,
    };
    if fam == 3 {
        // small rotations about two or three axes at once (each angle 4 atan(p/k), about
        // 3e-3 .. 3e-2 rad): exact rational half-angle points, read like family 1
        c.push_k(&[1]);
        c.class = 3;
        let mut small = |rng: &mut Rng| {
            let (p, k) = (rng.range(1, 2), rng.range(300, 1200));
            let den = k * k + p * p;
            let sgn = if rng.bool() { 1 } else { -1 };
            if rng.chance(1, 6) {
                [cgv_core::sc::Rat::int(1), cgv_core::sc::Rat::int(0)]
            } else {
                [cgv_core::sc::Rat::new(k * k - p * p, den), cgv_core::sc::Rat::new(sgn * 2 * k * p, den)]
            }
        };
        let (hx, hy, hz) = (small(rng), small(rng), small(rng));
        c.push_r(&hx).push_r(&hy).push_r(&hz);
        c.nontrivial = true;
        return c;
    }
    c.push_k(&[fam]);
    match fam {
        0 => {
            let q = gen::unit_quat(rng, tier);
            c.nontrivial = gen::is_nontrivial(&q);
            c.push_r(&q);
        }
        1 => {
            // half-angle points (cos, sin) of a/2, b/2, c/2 on the rational unit circle
            let hx = gen::unit_vec2(rng, Tier::Quick);
            let hz = gen::unit_vec2(rng, Tier::Quick);
            // tan(b/4) ~ 0.4142 -> b ~ pi/2
            let k = rng.range(10, 70);
            let p = ((k as f64) * 0.41421356).round() as i64 + rng.range(-2, 2);
            let p = p.max(1);
            let den = k * k + p * p;
            let sgn = if rng.bool() { 1 } else { -1 };
            let hy = [cgv_core::sc::Rat::new(k * k - p * p, den), cgv_core::sc::Rat::new(sgn * 2 * k * p, den)];
            c.push_r(&hx).push_r(&hy).push_r(&hz);
            c.nontrivial = true;
        }
        _ => {
            let above = rng.bool();
            let k = rng.range(1, 9) as i32;
            let r = rng.uniform(1.0, 10.0);
            let sy = if above {
                0.998 + 0.0002 * r * 10f64.powi(1 - k)
            } else {
                0.998 - 0.01 * r * 10f64.powi(1 - k)
            };
            let sy = sy.min(1.0).max(0.5) * if rng.bool() { 1.0 } else { -1.0 };
            let b = sy.asin();
            let (a, g) = (rng.dyadic(-3.0, 3.0), rng.dyadic(-3.0, 3.0));
            c.push_f(&[a, b, g]);
            c.nontrivial = true;
        }
    }
    c
}

fn extract<S: Sc>(case: &Case, ck: &mut Ck<S>) {
    let mut rd = case.rd();
    let fam = rd.k();
    let z0 = S::i(0);
    let q: Qt<S> = match fam {
        0 => rd.arr(),
        1 => {
            let (hx, hy, hz): ([S; 2], [S; 2], [S; 2]) = (rd.arr(), rd.arr(), rd.arr());
            qmul(qmul([hx[0], hx[1], z0, z0], [hy[0], z0, hy[1], z0]), [hz[0], z0, z0, hz[1]])
        }
        _ => {
            let t: [S; 3] = rd.xarr();
            let h = |t: S| (Float::cos(t / S::i(2)), Float::sin(t / S::i(2)));
            let ((cx, sx), (cy, sy), (cz, sz)) = (h(t[0]), h(t[1]), h(t[2]));
            let p = qmul(qmul([cx, sx, z0, z0], [cy, z0, sy, z0]), [cz, z0, z0, sz]);
            let n = Float::sqrt(qnorm2(p));
            [p[0] / n, p[1] / n, p[2] / n, p[3] / n]
        }
    };
    let qq = mk_qt(q);
    let mq = qmat(q);
    // sin y of the rotation, from the model: element [2][0] of Rx Ry Rz is sin y
    let sin_y = mq[2][0];
    let abs_sy = Float::abs(sin_y);
    let thr = S::frac(499, 500);
    let normal_zone = S::t_le(&abs_sy, &thr); // True => |sin y| <= 0.998, False => gimbal cone
    let e: Euler<Rad<S>> = Euler::from(qq);
    let rebuilt = Matrix3::from(e);
    let pi = S::pi().widen(2);
    let half_pi = (S::pi() / S::i(2)).widen(2);
    ck.note("sin y", &sin_y);
    ck.note("euler", &e);
    match normal_zone {
        Tri::True => {
            // documented ranges
            ck.le("x <= pi", e.x.0, pi);
            ck.le("-pi <= x", -pi, e.x.0);
            ck.le("z <= pi", e.z.0, pi);
            ck.le("-pi <= z", -pi, e.z.0);
            ck.le("y <= pi/2", e.y.0, half_pi);
            ck.le("-pi/2 <= y", -half_pi, e.y.0);
            if ck.native() {
                let (lo, hi) = e.x.0.enc();
                let (zl, zh) = e.z.0.enc();
                let (yl, yh) = e.y.0.enc();
                ck.always(
                    "native f64 angles inside the documented ranges",
                    lo >= -std::f64::consts::PI
                        && hi <= std::f64::consts::PI
                        && zl >= -std::f64::consts::PI
                        && zh <= std::f64::consts::PI
                        && yl >= -std::f64::consts::FRAC_PI_2
                        && yh <= std::f64::consts::FRAC_PI_2,
                );
            }
            // exact rebuild
            ck.eqm("rebuild = M(q) (|sin y| <= 0.998)", m3(rebuilt), mq);
            ck.eq("sin(y) = M[2][0]", Float::sin(e.y.0), sin_y);
        }
        Tri::False => {
            ck.eq("x = 0 inside the gimbal cone", e.x.0, z0);
            let sign_pos = S::t_lt(&z0, &sin_y) == Tri::True;
            ck.eq("y = +-pi/2 inside the gimbal cone", e.y.0, if sign_pos { half_pi } else { -half_pi });
            let tol = S::frac(13, 100);
            let a = m3(rebuilt);
            for c in 0..3 {
                for r in 0..3 {
                    ck.within(&format!("cone rebuild [c{c}][r{r}] within 0.13"), a[c][r], mq[c][r], tol);
                }
            }
        }
        Tri::Unknown => {
            // |sin y| not separable from 0.998 by the enclosure: nothing demanded
            ck.truth("undecidable zone", true);
        }
    }
}

const EP_FROM: &[&str] = &[
    "Matrix3::from(Euler)",
    "Matrix4::from(Euler)",
    "Basis3::from(Euler)",
    "Quaternion::from(Euler)",
];
const EP_EX: &[&str] = &["Euler::from(Quaternion)", "Matrix3::from(Euler)"];

pub fn clauses() -> Vec<Clause> {
    vec![
        clause!("from_euler", EP_FROM, g_from, from_euler, weight = 1.5, classes = 2),
        clause!("extract", EP_EX, g_extract, extract, weight = 3.0, classes = 0),
    ]
}

/// Native f32 / f64 runs of the statement itself: the four values built from
/// Euler{x,y,z} against from_angle_x(x) * from_angle_y(y) * from_angle_z(z)
/// built by the crate's own elementary rotations, element by element.  The
/// angle families add what the interval engine cannot decide (its enclosures of
/// sin/cos are a few ulp wide): the middle angle within 1e-1 .. 1e-12 of +-90
/// degrees, where cos y is tiny but not zero, and angles of many turns.
/// Allowance 512 eps on every element (all elements are at most 1 in size; the
/// unchanged code stays below 4 eps).
pub fn native_equal_product(cfg: &cgv_core::fw::RunCfg, extra: &mut cgv_core::fw::Extra) {
    use cgmath::{BaseFloat, Vector3};
    use cgv_core::acc::Acc;
    use serde_json::json;
    fn run<T: BaseFloat>(tag: &str, ang: [f64; 3], deg: bool, eps: f64, acc: &mut Acc, inputs: &dyn Fn() -> serde_json::Value) {
        let f = |x: f64| T::from(x).unwrap();
        let g = |x: T| x.to_f64().unwrap();
        let (m3e, m4e, b3e, qe, prod): (Matrix3<T>, Matrix4<T>, Basis3<T>, Quaternion<T>, Matrix3<T>) = if deg {
            let e = Euler::new(Deg(f(ang[0])), Deg(f(ang[1])), Deg(f(ang[2])));
            (
                Matrix3::from(e),
                Matrix4::from(e),
                Basis3::from(e),
                Quaternion::from(e),
                Matrix3::from_angle_x(e.x) * Matrix3::from_angle_y(e.y) * Matrix3::from_angle_z(e.z),
            )
        } else {
            let e = Euler::new(Rad(f(ang[0])), Rad(f(ang[1])), Rad(f(ang[2])));
            (
                Matrix3::from(e),
                Matrix4::from(e),
                Basis3::from(e),
                Quaternion::from(e),
                Matrix3::from_angle_x(e.x) * Matrix3::from_angle_y(e.y) * Matrix3::from_angle_z(e.z),
            )
        };
        let mq = Matrix3::from(qe);
        let mb: Matrix3<T> = b3e.into();
        let tol = 512.0 * eps;
        for c in 0..3 {
            for r in 0..3 {
                let want = g(prod[c][r]);
                acc.check(&format!("{tag} Matrix3::from(Euler)[{c}][{r}] vs Rx*Ry*Rz"), g(m3e[c][r]), want, tol, inputs);
                acc.check(&format!("{tag} Matrix4::from(Euler)[{c}][{r}] vs Rx*Ry*Rz"), g(m4e[c][r]), want, tol, inputs);
                acc.check(&format!("{tag} Basis3::from(Euler)[{c}][{r}] vs Rx*Ry*Rz"), g(mb[c][r]), want, tol, inputs);
                acc.check(&format!("{tag} Quaternion::from(Euler) as matrix [{c}][{r}] vs Rx*Ry*Rz"), g(mq[c][r]), want, tol, inputs);
            }
        }
        let v = Vector3::new(f(1.0), f(-2.0), f(0.5));
        let (a, b) = (qe * v, prod * v);
        for i in 0..3 {
            acc.check(&format!("{tag} Quaternion::from(Euler)*v [{i}] vs (Rx*Ry*Rz)*v"), g(a[i]), g(b[i]), 4.0 * tol, inputs);
        }
    }
    let n = if cfg.tier == Tier::Quick { 3000 } else { 200_000 };
    let mut acc = Acc::new("c07_euler_equals_product");
    for i in 0..n {
        let mut rng = Rng::for_case(cfg.seed, "native_equal_product", i);
        let deg = rng.chance(1, 3);
        let q = if deg { 90.0 } else { std::f64::consts::FRAC_PI_2 };
        // every angle exactly representable in f32, so both runs see the same triple
        let snap = |x: f64| (x as f32) as f64;
        let mut ang = [0.0f64; 3];
        for a in ang.iter_mut() {
            *a = snap(rng.uniform(-4.0 * q, 4.0 * q));
        }
        let class = rng.below(3);
        match class {
            1 => {
                let k = rng.range(1, 12) as i32;
                let side = if rng.bool() { 1.0 } else { -1.0 };
                let sign = if rng.bool() { 1.0 } else { -1.0 };
                ang[1] = sign * (q + side * q * 10f64.powi(-k));
                acc.case("middle angle 10^-k from +-90 degrees (k = 1..12)");
            }
            2 => {
                for a in ang.iter_mut() {
                    *a = snap(rng.uniform(-8192.0, 8192.0) * if deg { 57.0 } else { 1.0 });
                }
                acc.case("angles of up to 1300 turns");
            }
            _ => acc.case("angles within two turns"),
        }
        let ang32 = [snap(ang[0]), snap(ang[1]), snap(ang[2])];
        let in64 = || json!({"angles": ang, "degrees": deg, "type": "f64", "index": i});
        let in32 = || json!({"angles": ang32, "degrees": deg, "type": "f32", "index": i});
        match cgv_core::fw::catch(|| {
            let mut local = Acc::new("c07_euler_equals_product");
            run::<f64>("f64", ang, deg, f64::EPSILON, &mut local, &in64);
            run::<f32>("f32", ang32, deg, f32::EPSILON as f64, &mut local, &in32);
            local
        }) {
            Ok(l) => {
                acc.checks += l.checks;
                acc.worst = acc.worst.max(l.worst);
                if acc.fail.is_none() {
                    acc.fail = l.fail;
                }
            }
            Err(p) => acc.truth(&format!("unexpected panic: {p}"), false, &in64),
        }
        if acc.failed() {
            break;
        }
    }
    acc.finish(extra, "the crate's own from_angle_x * from_angle_y * from_angle_z on the same native type; allowance 512 eps per element");
}

/// Euler <-> mint::EulerAngles<_, IntraXYZ>: a, b, c are x, y, z, in both directions (value-exact).
pub fn native_mint(_cfg: &cgv_core::fw::RunCfg, extra: &mut cgv_core::fw::Extra) {
    use serde_json::json;
    let mut bad: Option<String> = None;
    let mut n = 0u64;
    macro_rules! one {
        ($T:ty, $A:ident) => {{
            let e = Euler::new($A(1.25 as $T), $A(-2.5 as $T), $A(3.75 as $T));
            // the only usable instantiation has the angle type itself as mint's scalar
            let m: mint::EulerAngles<$A<$T>, mint::IntraXYZ> = e.into();
            n += 2;
            if [m.a.0, m.b.0, m.c.0] != [1.25 as $T, -2.5 as $T, 3.75 as $T] && bad.is_none() {
                bad = Some(format!("Euler<{}<{}>>{{x:1.25,y:-2.5,z:3.75}} -> mint::EulerAngles gives a,b,c = {:?}", stringify!($A), stringify!($T), [m.a.0, m.b.0, m.c.0]));
            }
            let back: Euler<$A<$T>> = mint::EulerAngles::<$A<$T>, mint::IntraXYZ>::from([$A(0.5 as $T), $A(1.5 as $T), $A(-0.75 as $T)]).into();
            if [back.x.0, back.y.0, back.z.0] != [0.5 as $T, 1.5 as $T, -0.75 as $T] && bad.is_none() {
                bad = Some(format!("mint::EulerAngles{{a:0.5,b:1.5,c:-0.75}} -> Euler<{}<{}>> gives x,y,z = {:?}", stringify!($A), stringify!($T), [back.x.0, back.y.0, back.z.0]));
            }
        }};
    }
    one!(f32, Rad);
    one!(f64, Rad);
    one!(f32, Deg);
    one!(f64, Deg);
    // Euler is documented as #[repr(C)] with fields x, y, z: a [pitch, yaw, roll] triple in a C
    // buffer reads back in that order, and so does the positional (sequence) serde form
    {
        let e = Euler::new(Rad(1.25f32), Rad(-2.5f32), Rad(3.75f32));
        n += 2;
        if std::mem::size_of::<Euler<Rad<f32>>>() == 12 {
            let raw: [f32; 3] = unsafe { std::mem::transmute_copy(&e) };
            if raw != [1.25, -2.5, 3.75] && bad.is_none() {
                bad = Some(format!("Euler<Rad<f32>>{{x:1.25,y:-2.5,z:3.75}} lies in memory as {raw:?} (documented #[repr(C)], fields x, y, z)"));
            }
        }
        let pos: Result<Euler<Rad<f64>>, _> = serde_json::from_value(json!([0.5, 1.5, -0.75]));
        if let Ok(p) = pos {
            if [p.x.0, p.y.0, p.z.0] != [0.5, 1.5, -0.75] && bad.is_none() {
                bad = Some(format!("the sequence [0.5, 1.5, -0.75] deserializes to Euler {{ x: {}, y: {}, z: {} }}", p.x.0, p.y.0, p.z.0));
            }
        }
    }
    extra.evaluations += n;
    extra.sections.insert("mint_euler_angles".into(), json!({"conversions_checked": n, "oracle": "a, b, c = x, y, z exactly, both directions"}));
    if let Some(msg) = bad {
        extra.violations.push(("native_mint_euler".into(), msg.clone(), json!({"message": msg})));
    }
}

pub fn native(cfg: &cgv_core::fw::RunCfg, extra: &mut cgv_core::fw::Extra) {
    cgv_core::twins::c07(cfg, extra);
    native_equal_product(cfg, extra);
    native_mint(cfg, extra);
}

pub const RULE: &str = "from_euler: angle triples (one third Deg) on a 2^-20 grid in [-4pi,4pi] / [-400,400] degrees plus special values, non-trivial when the three angles are non-zero and distinct. extract: family 0 arbitrary rational unit quaternions; family 1 exact rational quaternions of Rx(a)Ry(b)Rz(c) with tan(b/4) = p/k near tan(pi/8) so that |sin b| lies in roughly [0.97,1] on both sides of 0.998 and at the poles; family 2 real-valued ladder |sin y| = 0.998 -+ r*10^-k (k=1..9) normalised inside the engine; family 3 exact rational quaternions of small rotations (3e-3..3e-2 rad) about two or three axes at once. The zone (|sin y| <= 0.998 or not) is decided by the model's own M[2][0]; cases where the enclosure cannot separate it from 0.998 demand nothing. Distinct = distinct input tuples.";
pub const ASSUME: &[&str] = &[
    "enclosure arithmetic as in C06; asin/atan2 of glibc within 4 ulp",
    "range membership is judged against pi widened by 2 ulp at Iv and against the f64 constants PI, FRAC_PI_2 on the native run",
    "inside the cone only what the property states is demanded: x = 0 exactly, y = +-pi/2, rebuild within 0.13",
];
