//! C16 — layout, indexing, conversions (DESIGN §C16).  Native, value-exact.
//! The 550 swizzles live in the separate binary `cgv-swz` (so that a missing
//! accessor cannot stop the other monitors from building); the Miri workload
//! is in /verif/miri.  Both are merged into this property's evidence by the
//! front end.

use std::fmt::Debug;

use cgmath::prelude::*;
use cgmath::{
    Matrix2, Matrix3, Matrix4, Point1, Point2, Point3, Quaternion, Vector1, Vector2, Vector3, Vector4,
};
use serde_json::json;

use cgv_core::fw::{catch, Clause, Extra, RunCfg};
use cgv_core::gen::{Rng, Tier};

pub trait Tag: Copy + PartialEq + Debug + 'static {
    const NAME: &'static str;
    /// values for slots 0..32, pairwise distinct wherever the type allows
    fn tag(i: usize, salt: u64) -> Self;
    fn distinct() -> bool {
        true
    }
}
macro_rules! int_tag {
    ($($T:ty),*) => {$(
        impl Tag for $T {
            const NAME: &'static str = stringify!($T);
            fn tag(i: usize, salt: u64) -> $T { ((salt % 3) as usize * 40 + i + 1) as $T }
        }
    )*};
}
int_tag!(u8, u16, u32, u64, usize, i8, i16, i32, i64, isize);
// Float tags: plain small values for most salts; for salt % 7 == 5 values spread over
// ~120 (f32) / ~1000 (f64) binary orders of magnitude, and for salt % 7 == 6 additionally
// the special values +-inf, MAX, MIN_POSITIVE in the first slots.  Moving a component
// must move it bit for bit whatever its size; anything that computes with the
// components (an arithmetic "swap", a conversion through another type) shows here.
impl Tag for f32 {
    const NAME: &'static str = "f32";
    fn tag(i: usize, salt: u64) -> f32 {
        match salt % 7 {
            5 | 6 => {
                if salt % 7 == 6 && i < 4 {
                    return [f32::INFINITY, f32::NEG_INFINITY, f32::MAX, f32::MIN_POSITIVE][i];
                }
                let e = ((i * 37 + 11) % 120) as i32 - 60;
                (i as f32 + 1.0) * 1.5 * (2.0f32).powi(e) * if i % 3 == 1 { -1.0 } else { 1.0 }
            }
            k => (i as f32 + 1.0) * 1.5 + k as f32 * 64.0,
        }
    }
}
impl Tag for f64 {
    const NAME: &'static str = "f64";
    fn tag(i: usize, salt: u64) -> f64 {
        match salt % 7 {
            5 | 6 => {
                if salt % 7 == 6 && i < 4 {
                    return [f64::INFINITY, f64::NEG_INFINITY, f64::MAX, f64::MIN_POSITIVE][i];
                }
                let e = ((i * 97 + 31) % 1000) as i32 - 500;
                (i as f64 + 1.0) * 1.25 * (2.0f64).powi(e) * if i % 3 == 1 { -1.0 } else { 1.0 }
            }
            k => (i as f64 + 1.0) * 1.25 + k as f64 * 64.0,
        }
    }
}
impl Tag for bool {
    const NAME: &'static str = "bool";
    fn tag(i: usize, salt: u64) -> bool {
        ((salt >> (i % 60)) & 1) == 1
    }
    fn distinct() -> bool {
        false
    }
}
impl Tag for char {
    const NAME: &'static str = "char";
    fn tag(i: usize, salt: u64) -> char {
        char::from_u32(0x61 + i as u32 + ((salt % 5) as u32) * 0x100).unwrap()
    }
}
impl Tag for (u8, u16) {
    const NAME: &'static str = "(u8,u16)";
    fn tag(i: usize, salt: u64) -> (u8, u16) {
        (i as u8 + 1, 1000 + i as u16 + (salt % 9) as u16 * 100)
    }
}
const NAMES: [&str; 33] = [
    "a0", "a1", "a2", "a3", "a4", "a5", "a6", "a7", "a8", "a9", "a10", "a11", "a12", "a13", "a14", "a15", "a16", "a17",
    "a18", "a19", "a20", "a21", "a22", "a23", "a24", "a25", "a26", "a27", "a28", "a29", "a30", "a31", "a32",
];
impl Tag for &'static str {
    const NAME: &'static str = "&str";
    fn tag(i: usize, _salt: u64) -> &'static str {
        NAMES[i % 33]
    }
}
impl Tag for () {
    const NAME: &'static str = "()";
    fn tag(_: usize, _: u64) {}
    fn distinct() -> bool {
        false
    }
}

pub struct Rec {
    pub checks: u64,
    pub fail: Option<String>,
    pub ctx: String,
}
impl Rec {
    pub fn new() -> Rec {
        Rec { checks: 0, fail: None, ctx: String::new() }
    }
    #[inline]
    pub fn ok(&mut self, what: &str, cond: bool) {
        self.checks += 1;
        if !cond && self.fail.is_none() {
            self.fail = Some(format!("{}: {}", self.ctx, what));
        }
    }
    pub fn eq<T: PartialEq + Debug>(&mut self, what: &str, a: T, b: T) {
        self.checks += 1;
        if a != b && self.fail.is_none() {
            self.fail = Some(format!("{}: {}: got {:?}, expected {:?}", self.ctx, what, a, b));
        }
    }
    /// the call must panic
    pub fn panics<R>(&mut self, what: &str, f: impl FnOnce() -> R) {
        self.checks += 1;
        if catch(f).is_ok() && self.fail.is_none() {
            self.fail = Some(format!("{}: {}: expected a panic", self.ctx, what));
        }
    }
    /// the call must not panic
    pub fn no_panic<R>(&mut self, what: &str, f: impl FnOnce() -> R) -> Option<R> {
        self.checks += 1;
        match catch(f) {
            Ok(r) => Some(r),
            Err(p) => {
                if self.fail.is_none() {
                    self.fail = Some(format!("{}: {}: unexpected panic {}", self.ctx, what, p));
                }
                None
            }
        }
    }
}

// ---------------------------------------------------------------- vectors and points, any element type

macro_rules! vec_like_any {
    ($fname:ident, $V:ident, $n:expr, ($($f:ident),+), $Tup:ty, ($($ti:tt),+)) => {
        fn $fname<T: Tag>(rec: &mut Rec, salt: u64) {
            rec.ctx = format!("{}<{}>", stringify!($V), T::NAME);
            const N: usize = $n;
            let t: [T; N] = std::array::from_fn(|i| T::tag(i, salt));
            let u: [T; N] = std::array::from_fn(|i| T::tag(i + 16, salt));
            let v = $V::new($(t[$ti]),+);
            // fields
            let fields: [T; N] = [$(v.$f),+];
            rec.eq("new -> fields", fields, t);
            // by-value conversions
            let a: [T; N] = v.into();
            rec.eq("Into<[T;n]>", a, t);
            let tup: $Tup = v.into();
            rec.eq("Into<tuple>", [$(tup.$ti),+], t);
            let back: $V<T> = t.into();
            rec.ok("From<[T;n]>", back == v);
            let back: $V<T> = tup.into();
            rec.ok("From<tuple>", back == v);
            // reference views
            let r: &[T; N] = v.as_ref();
            rec.eq("AsRef<[T;n]>", *r, t);
            let r: &$Tup = v.as_ref();
            rec.eq("AsRef<tuple>", [$(r.$ti),+], t);
            let arr = t;
            let rv: &$V<T> = (&arr).into();
            rec.eq("From<&[T;n]> for &V", [$(rv.$f),+], t);
            let tv: $Tup = ($(t[$ti]),+,);
            let rv: &$V<T> = (&tv).into();
            rec.eq("From<&tuple> for &V", [$(rv.$f),+], t);
            // writes through every mutable view are visible through the others
            for i in 0..N {
                let mut w = v;
                {
                    let m: &mut [T; N] = w.as_mut();
                    m[i] = u[i];
                }
                let mut exp = t;
                exp[i] = u[i];
                rec.eq("write AsMut<[T;n]> read fields", [$(w.$f),+], exp);
                let r: &$Tup = w.as_ref();
                rec.eq("write AsMut<[T;n]> read AsRef<tuple>", [$(r.$ti),+], exp);
                rec.eq("write AsMut<[T;n]> read Index", std::array::from_fn(|j| w[j]), exp);
                let mut w = v;
                w[i] = u[i];
                let r: &[T; N] = w.as_ref();
                rec.eq("write IndexMut read AsRef<[T;n]>", *r, exp);
                let mut arr = t;
                {
                    let mv: &mut $V<T> = (&mut arr).into();
                    mv[i] = u[i];
                }
                rec.eq("write From<&mut [T;n]> read array", arr, exp);
            }
            {
                let mut w = v;
                {
                    let m: &mut $Tup = w.as_mut();
                    $( m.$ti = u[$ti]; )+
                }
                rec.eq("write AsMut<tuple> read fields", [$(w.$f),+], u);
                let mut tv: $Tup = ($(t[$ti]),+,);
                {
                    let mv: &mut $V<T> = (&mut tv).into();
                    $( mv.$f = u[$ti]; )+
                }
                rec.eq("write From<&mut tuple> read tuple", [$(tv.$ti),+], u);
                let mut w = v;
                $( w.$f = u[$ti]; )+
                let r: &[T; N] = w.as_ref();
                rec.eq("write fields read AsRef<[T;n]>", *r, u);
            }
            // indexing with usize and all range forms
            for i in 0..N {
                rec.eq("Index<usize>", v[i], t[i]);
            }
            for a in 0..=N {
                for b in a..=N {
                    rec.ok("Index<Range>", v[a..b] == t[a..b]);
                }
                rec.ok("Index<RangeTo>", v[..a] == t[..a]);
                rec.ok("Index<RangeFrom>", v[a..] == t[a..]);
            }
            rec.ok("Index<RangeFull>", v[..] == t[..]);
            {
                let mut w = v;
                w[..].copy_from_slice(&u);
                rec.eq("IndexMut<RangeFull>", [$(w.$f),+], u);
                let mut w = v;
                if N > 1 {
                    w[1..].copy_from_slice(&u[1..]);
                    w[..1].copy_from_slice(&u[..1]);
                    rec.eq("IndexMut<RangeFrom/RangeTo>", [$(w.$f),+], u);
                    let mut w2 = v;
                    w2[0..N - 1].copy_from_slice(&u[0..N - 1]);
                    let mut e = u;
                    e[N - 1] = t[N - 1];
                    rec.eq("IndexMut<Range>", [$(w2.$f),+], e);
                }
            }
            for bad in [N, N + 1, N + 7, usize::MAX] {
                rec.panics("Index<usize> out of range", || v[bad]);
                rec.panics("IndexMut<usize> out of range", || {
                    let mut w = v;
                    w[bad] = u[0];
                });
            }
            rec.panics("Index<Range> end out of range", || v[0..N + 1].len());
            rec.panics("Index<RangeTo> out of range", || v[..N + 1].len());
            rec.panics("Index<RangeFrom> out of range", || v[N + 1..].len());
            if N > 1 {
                #[allow(clippy::reversed_empty_ranges)]
                rec.panics("Index<Range> start > end", || v[N..N - 1].len());
            }
            // map / zip
            let mut order = vec![];
            let m = v.map(|x| {
                order.push(x);
                (x, 7u8)
            });
            rec.eq("map values", [$(m.$f.0),+], t);
            rec.ok("map visits components in field order", order == t.to_vec());
            let w: $V<T> = u.into();
            let z = v.zip(w, |a, b| (a, b));
            rec.eq("zip left", [$(z.$f.0),+], t);
            rec.eq("zip right", [$(z.$f.1),+], u);
            // conv helpers
            rec.ok("distinct tags", !T::distinct() || (0..N).all(|i| (0..i).all(|j| t[i] != t[j])));
        }
    };
}

vec_like_any!(vec1_any, Vector1, 1, (x), (T,), (0));
vec_like_any!(vec2_any, Vector2, 2, (x, y), (T, T), (0, 1));
vec_like_any!(vec3_any, Vector3, 3, (x, y, z), (T, T, T), (0, 1, 2));
vec_like_any!(vec4_any, Vector4, 4, (x, y, z, w), (T, T, T, T), (0, 1, 2, 3));
vec_like_any!(pt1_any, Point1, 1, (x), (T,), (0));
vec_like_any!(pt2_any, Point2, 2, (x, y), (T, T), (0, 1));
vec_like_any!(pt3_any, Point3, 3, (x, y, z), (T, T, T), (0, 1, 2));

// Array trait: vectors for any Copy element, points for numbers only
macro_rules! array_trait {
    ($fname:ident, $V:ident, $n:expr, ($($f:ident),+), $bound:path) => {
        fn $fname<T: Tag + $bound>(rec: &mut Rec, salt: u64) {
            rec.ctx = format!("Array for {}<{}>", stringify!($V), T::NAME);
            const N: usize = $n;
            let t: [T; N] = std::array::from_fn(|i| T::tag(i, salt));
            let u: [T; N] = std::array::from_fn(|i| T::tag(i + 16, salt));
            let v: $V<T> = t.into();
            rec.eq("len", <$V<T> as Array>::len(), N);
            let fv = <$V<T> as Array>::from_value(u[0]);
            rec.eq("from_value", [$(fv.$f),+], [u[0]; N]);
            let p = Array::as_ptr(&v);
            for i in 0..N {
                rec.eq("as_ptr + offset", unsafe { *p.add(i) }, t[i]);
            }
            let mut w = v;
            let p = Array::as_mut_ptr(&mut w);
            for i in 0..N {
                unsafe { *p.add(i) = u[i] };
            }
            rec.eq("as_mut_ptr writes", [$(w.$f),+], u);
            for i in 0..N {
                for j in 0..N {
                    let mut w = v;
                    w.swap_elements(i, j);
                    let mut e = t;
                    e.swap(i, j);
                    rec.eq("swap_elements", [$(w.$f),+], e);
                }
            }
            rec.panics("swap_elements out of range", || {
                let mut w = v;
                w.swap_elements(0, N);
            });
        }
    };
}
array_trait!(arr_v1, Vector1, 1, (x), Copy);
array_trait!(arr_v2, Vector2, 2, (x, y), Copy);
array_trait!(arr_v3, Vector3, 3, (x, y, z), Copy);
array_trait!(arr_v4, Vector4, 4, (x, y, z, w), Copy);
array_trait!(arr_p1, Point1, 1, (x), cgmath::BaseNum);
array_trait!(arr_p2, Point2, 2, (x, y), cgmath::BaseNum);
array_trait!(arr_p3, Point3, 3, (x, y, z), cgmath::BaseNum);

// extend / truncate / truncate_n / conv / mint: numeric element types
fn numeric_extras<T: Tag + cgmath::BaseNum>(rec: &mut Rec, salt: u64) {
    rec.ctx = format!("extend/truncate/conv/mint <{}>", T::NAME);
    let t: [T; 16] = std::array::from_fn(|i| T::tag(i, salt));
    let v2 = Vector2::new(t[0], t[1]);
    let v3 = Vector3::new(t[0], t[1], t[2]);
    let v4 = Vector4::new(t[0], t[1], t[2], t[3]);
    let e: [T; 3] = v2.extend(t[5]).into();
    rec.eq("Vector2::extend", e, [t[0], t[1], t[5]]);
    let e: [T; 4] = v3.extend(t[5]).into();
    rec.eq("Vector3::extend", e, [t[0], t[1], t[2], t[5]]);
    let e: [T; 2] = v3.truncate().into();
    rec.eq("Vector3::truncate", e, [t[0], t[1]]);
    let e: [T; 3] = v4.truncate().into();
    rec.eq("Vector4::truncate", e, [t[0], t[1], t[2]]);
    for n in 0..4usize {
        let e: [T; 3] = v4.truncate_n(n as isize).into();
        let exp: Vec<T> = (0..4).filter(|&i| i != n).map(|i| t[i]).collect();
        rec.eq("Vector4::truncate_n", e.to_vec(), exp);
    }
    for bad in [-1isize, 4, 5, 100, isize::MIN, isize::MAX] {
        rec.panics("Vector4::truncate_n out of range", || v4.truncate_n(bad));
    }
    // conv::*
    rec.eq("conv::array2", cgmath::conv::array2(v2), [t[0], t[1]]);
    rec.eq("conv::array3", cgmath::conv::array3(v3), [t[0], t[1], t[2]]);
    rec.eq("conv::array4", cgmath::conv::array4(v4), [t[0], t[1], t[2], t[3]]);
    let m2 = Matrix2::new(t[0], t[1], t[2], t[3]);
    let m3 = Matrix3::new(t[0], t[1], t[2], t[3], t[4], t[5], t[6], t[7], t[8]);
    let m4 = Matrix4::new(
        t[0], t[1], t[2], t[3], t[4], t[5], t[6], t[7], t[8], t[9], t[10], t[11], t[12], t[13], t[14], t[15],
    );
    rec.eq("conv::array2x2", cgmath::conv::array2x2(m2), [[t[0], t[1]], [t[2], t[3]]]);
    rec.eq("conv::array3x3", cgmath::conv::array3x3(m3), [[t[0], t[1], t[2]], [t[3], t[4], t[5]], [t[6], t[7], t[8]]]);
    rec.eq(
        "conv::array4x4",
        cgmath::conv::array4x4(m4),
        [[t[0], t[1], t[2], t[3]], [t[4], t[5], t[6], t[7]], [t[8], t[9], t[10], t[11]], [t[12], t[13], t[14], t[15]]],
    );
    // mint, both directions
    let mv: mint::Vector2<T> = v2.into();
    rec.eq("mint::Vector2 from", [mv.x, mv.y], [t[0], t[1]]);
    let b: Vector2<T> = mint::Vector2 { x: t[4], y: t[5] }.into();
    rec.eq("mint::Vector2 into", [b.x, b.y], [t[4], t[5]]);
    let mv: mint::Vector3<T> = v3.into();
    rec.eq("mint::Vector3 from", [mv.x, mv.y, mv.z], [t[0], t[1], t[2]]);
    let b: Vector3<T> = mint::Vector3 { x: t[4], y: t[5], z: t[6] }.into();
    rec.eq("mint::Vector3 into", [b.x, b.y, b.z], [t[4], t[5], t[6]]);
    let mv: mint::Vector4<T> = v4.into();
    rec.eq("mint::Vector4 from", [mv.x, mv.y, mv.z, mv.w], [t[0], t[1], t[2], t[3]]);
    let b: Vector4<T> = mint::Vector4 { x: t[4], y: t[5], z: t[6], w: t[7] }.into();
    rec.eq("mint::Vector4 into", [b.x, b.y, b.z, b.w], [t[4], t[5], t[6], t[7]]);
    let mp: mint::Point2<T> = Point2::new(t[0], t[1]).into();
    rec.eq("mint::Point2 from", [mp.x, mp.y], [t[0], t[1]]);
    let b: Point2<T> = mint::Point2 { x: t[4], y: t[5] }.into();
    rec.eq("mint::Point2 into", [b.x, b.y], [t[4], t[5]]);
    let mp: mint::Point3<T> = Point3::new(t[0], t[1], t[2]).into();
    rec.eq("mint::Point3 from", [mp.x, mp.y, mp.z], [t[0], t[1], t[2]]);
    let b: Point3<T> = mint::Point3 { x: t[4], y: t[5], z: t[6] }.into();
    rec.eq("mint::Point3 into", [b.x, b.y, b.z], [t[4], t[5], t[6]]);
    let mm: mint::ColumnMatrix2<T> = m2.into();
    rec.eq("mint::ColumnMatrix2 from", [mm.x.x, mm.x.y, mm.y.x, mm.y.y], [t[0], t[1], t[2], t[3]]);
    let b: Matrix2<T> = mm.into();
    rec.ok("mint::ColumnMatrix2 into", b == m2);
    let mm: mint::ColumnMatrix3<T> = m3.into();
    rec.eq(
        "mint::ColumnMatrix3 from",
        [mm.x.x, mm.x.y, mm.x.z, mm.y.x, mm.y.y, mm.y.z, mm.z.x, mm.z.y, mm.z.z],
        [t[0], t[1], t[2], t[3], t[4], t[5], t[6], t[7], t[8]],
    );
    let b: Matrix3<T> = mm.into();
    rec.ok("mint::ColumnMatrix3 into", b == m3);
    let mm: mint::ColumnMatrix4<T> = m4.into();
    rec.eq(
        "mint::ColumnMatrix4 from",
        [mm.x.x, mm.x.y, mm.x.z, mm.x.w, mm.y.x, mm.y.y, mm.y.z, mm.y.w, mm.z.x, mm.z.y, mm.z.z, mm.z.w, mm.w.x, mm.w.y, mm.w.z, mm.w.w],
        t,
    );
    let b: Matrix4<T> = mm.into();
    rec.ok("mint::ColumnMatrix4 into", b == m4);
    let q = Quaternion::new(t[0], t[1], t[2], t[3]);
    let mq: mint::Quaternion<T> = q.into();
    rec.eq("mint::Quaternion from", [mq.s, mq.v.x, mq.v.y, mq.v.z], [t[0], t[1], t[2], t[3]]);
    let b: Quaternion<T> = mint::Quaternion { s: t[4], v: mint::Vector3 { x: t[5], y: t[6], z: t[7] } }.into();
    rec.eq("mint::Quaternion into", [b.s, b.v.x, b.v.y, b.v.z], [t[4], t[5], t[6], t[7]]);
}

// ---------------------------------------------------------------- matrices, any element type

macro_rules! mat_any {
    ($fname:ident, $M:ident, $Vc:ident, $n:expr, ($($c:ident),+)) => {
        fn $fname<T: Tag>(rec: &mut Rec, salt: u64) {
            rec.ctx = format!("{}<{}>", stringify!($M), T::NAME);
            const N: usize = $n;
            const NN: usize = $n * $n;
            // tag(c*N + r) sits at column c, row r
            let flat: [T; NN] = std::array::from_fn(|i| T::tag(i, salt));
            let other: [T; NN] = std::array::from_fn(|i| T::tag(i + 16, salt));
            let nested: [[T; N]; N] = std::array::from_fn(|c| std::array::from_fn(|r| flat[c * N + r]));
            let m: $M<T> = nested.into();
            let by_fields: [[T; N]; N] = [$(m.$c.into()),+];
            rec.eq("From<[[T;n];n]> -> column fields", by_fields, nested);
            let out: [[T; N]; N] = m.into();
            rec.eq("Into<[[T;n];n]>", out, nested);
            let r: &[[T; N]; N] = m.as_ref();
            rec.eq("AsRef<[[T;n];n]>", *r, nested);
            let r: &[T; NN] = m.as_ref();
            rec.eq("AsRef<[T;n*n]> column-major", *r, flat);
            let rm: &$M<T> = (&nested).into();
            rec.ok("From<&[[T;n];n]> for &M", *rm == m);
            let rm: &$M<T> = (&flat).into();
            rec.ok("From<&[T;n*n]> for &M", *rm == m);
            for c in 0..N {
                let col: [T; N] = m[c].into();
                rec.eq("Index<usize> -> column", col, nested[c]);
                for r in 0..N {
                    rec.eq("m[c][r]", m[c][r], flat[c * N + r]);
                }
            }
            for i in 0..NN {
                let (c, r) = (i / N, i % N);
                let mut exp = flat;
                exp[i] = other[i];
                let mut w = m;
                {
                    let f: &mut [T; NN] = w.as_mut();
                    f[i] = other[i];
                }
                let rr: &[[T; N]; N] = w.as_ref();
                rec.eq("write AsMut<flat> read AsRef<nested>", rr[c][r], other[i]);
                rec.eq("write AsMut<flat> read m[c][r]", w[c][r], other[i]);
                let mut w = m;
                {
                    let f: &mut [[T; N]; N] = w.as_mut();
                    f[c][r] = other[i];
                }
                let rr: &[T; NN] = w.as_ref();
                rec.eq("write AsMut<nested> read AsRef<flat>", *rr, exp);
                let mut w = m;
                w[c][r] = other[i];
                let rr: &[T; NN] = w.as_ref();
                rec.eq("write IndexMut read AsRef<flat>", *rr, exp);
                let mut f2 = flat;
                {
                    let mm: &mut $M<T> = (&mut f2).into();
                    mm[c][r] = other[i];
                }
                rec.eq("write From<&mut flat> read array", f2, exp);
                let mut n2 = nested;
                {
                    let mm: &mut $M<T> = (&mut n2).into();
                    mm[c][r] = other[i];
                }
                rec.eq("write From<&mut nested> read array", n2[c][r], other[i]);
            }
            for bad in [N, N + 1, usize::MAX] {
                rec.panics("Index<usize> out of range (column)", || m[bad]);
                rec.panics("Index<usize> out of range (row)", || m[0][bad]);
            }
        }
    };
}
mat_any!(mat2_any, Matrix2, Vector2, 2, (x, y));
mat_any!(mat3_any, Matrix3, Vector3, 3, (x, y, z));
mat_any!(mat4_any, Matrix4, Vector4, 4, (x, y, z, w));

fn mat_new<T: Tag>(rec: &mut Rec, salt: u64) {
    rec.ctx = format!("Matrix::new/from_cols <{}>", T::NAME);
    let t: [T; 16] = std::array::from_fn(|i| T::tag(i, salt));
    let m = Matrix2::new(t[0], t[1], t[2], t[3]);
    rec.eq("Matrix2::new", [m.x.x, m.x.y, m.y.x, m.y.y], [t[0], t[1], t[2], t[3]]);
    let m = Matrix2::from_cols(Vector2::new(t[0], t[1]), Vector2::new(t[2], t[3]));
    rec.eq("Matrix2::from_cols", [m.x.x, m.x.y, m.y.x, m.y.y], [t[0], t[1], t[2], t[3]]);
    let m = Matrix3::new(t[0], t[1], t[2], t[3], t[4], t[5], t[6], t[7], t[8]);
    rec.eq(
        "Matrix3::new",
        [m.x.x, m.x.y, m.x.z, m.y.x, m.y.y, m.y.z, m.z.x, m.z.y, m.z.z],
        [t[0], t[1], t[2], t[3], t[4], t[5], t[6], t[7], t[8]],
    );
    let m = Matrix3::from_cols(Vector3::new(t[0], t[1], t[2]), Vector3::new(t[3], t[4], t[5]), Vector3::new(t[6], t[7], t[8]));
    rec.eq(
        "Matrix3::from_cols",
        [m.x.x, m.x.y, m.x.z, m.y.x, m.y.y, m.y.z, m.z.x, m.z.y, m.z.z],
        [t[0], t[1], t[2], t[3], t[4], t[5], t[6], t[7], t[8]],
    );
    let m = Matrix4::new(
        t[0], t[1], t[2], t[3], t[4], t[5], t[6], t[7], t[8], t[9], t[10], t[11], t[12], t[13], t[14], t[15],
    );
    rec.eq(
        "Matrix4::new",
        [m.x.x, m.x.y, m.x.z, m.x.w, m.y.x, m.y.y, m.y.z, m.y.w, m.z.x, m.z.y, m.z.z, m.z.w, m.w.x, m.w.y, m.w.z, m.w.w],
        t,
    );
    let m = Matrix4::from_cols(
        Vector4::new(t[0], t[1], t[2], t[3]),
        Vector4::new(t[4], t[5], t[6], t[7]),
        Vector4::new(t[8], t[9], t[10], t[11]),
        Vector4::new(t[12], t[13], t[14], t[15]),
    );
    rec.eq(
        "Matrix4::from_cols",
        [m.x.x, m.x.y, m.x.z, m.x.w, m.y.x, m.y.y, m.y.z, m.y.w, m.z.x, m.z.y, m.z.z, m.z.w, m.w.x, m.w.y, m.w.z, m.w.w],
        t,
    );
    let q = Quaternion::new(t[0], t[1], t[2], t[3]);
    rec.eq("Quaternion::new(w,x,y,z)", [q.s, q.v.x, q.v.y, q.v.z], [t[0], t[1], t[2], t[3]]);
    let q = Quaternion::from_sv(t[0], Vector3::new(t[1], t[2], t[3]));
    rec.eq("Quaternion::from_sv", [q.s, q.v.x, q.v.y, q.v.z], [t[0], t[1], t[2], t[3]]);
}

// matrix raw pointers: float element types only
fn mat_ptr<T: Tag + cgmath::BaseFloat>(rec: &mut Rec, salt: u64) {
    rec.ctx = format!("Matrix::as_ptr <{}>", T::NAME);
    let t: [T; 16] = std::array::from_fn(|i| T::tag(i, salt));
    let u: [T; 16] = std::array::from_fn(|i| T::tag(i + 16, salt));
    macro_rules! one {
        ($M:ident, $nn:expr) => {{
            let f: [T; $nn] = std::array::from_fn(|i| t[i]);
            let m: &$M<T> = (&f).into();
            let mut m = *m;
            let p = Matrix::as_ptr(&m);
            for i in 0..$nn {
                rec.eq("as_ptr + offset", unsafe { *p.add(i) }, t[i]);
            }
            let p = Matrix::as_mut_ptr(&mut m);
            for i in 0..$nn {
                unsafe { *p.add(i) = u[i] };
            }
            let r: &[T; $nn] = m.as_ref();
            rec.eq("as_mut_ptr writes", r.to_vec(), u[..$nn].to_vec());
        }};
    }
    one!(Matrix2, 4);
    one!(Matrix3, 9);
    one!(Matrix4, 16);
    // exchanges and transposition move components bit for bit (element (c, r) = flat[c*n + r])
    macro_rules! moves {
        ($M:ident, $n:expr, $nn:expr) => {{
            const N: usize = $n;
            let f: [T; $nn] = std::array::from_fn(|i| t[i]);
            let m0: $M<T> = *<&$M<T>>::from(&f);
            for a in 0..$nn {
                for b in 0..$nn {
                    let mut w = m0;
                    w.swap_elements((a / N, a % N), (b / N, b % N));
                    let mut e = f;
                    e.swap(a, b);
                    let r: &[T; $nn] = w.as_ref();
                    rec.eq("Matrix::swap_elements((ca,ra),(cb,rb))", r.to_vec(), e.to_vec());
                }
            }
            for a in 0..N {
                for b in 0..N {
                    let mut w = m0;
                    w.swap_columns(a, b);
                    let mut e = f;
                    for r in 0..N {
                        e.swap(a * N + r, b * N + r);
                    }
                    let r: &[T; $nn] = w.as_ref();
                    rec.eq("Matrix::swap_columns", r.to_vec(), e.to_vec());
                    let mut w = m0;
                    w.swap_rows(a, b);
                    let mut e = f;
                    for c in 0..N {
                        e.swap(c * N + a, c * N + b);
                    }
                    let r: &[T; $nn] = w.as_ref();
                    rec.eq("Matrix::swap_rows", r.to_vec(), e.to_vec());
                }
            }
            let mut e = f;
            for c in 0..N {
                for r in 0..N {
                    e[c * N + r] = f[r * N + c];
                }
            }
            let mut w = m0;
            w.transpose_self();
            let r: &[T; $nn] = w.as_ref();
            rec.eq("SquareMatrix::transpose_self", r.to_vec(), e.to_vec());
            let tr = m0.transpose();
            let r: &[T; $nn] = tr.as_ref();
            rec.eq("Matrix::transpose", r.to_vec(), e.to_vec());
            for c in 0..N {
                let col = m0[(c + 1) % N];
                let mut w = m0;
                let old = w.replace_col(c, col);
                rec.ok("Matrix::replace_col returns the old column", old == m0[c]);
                rec.ok("Matrix::replace_col installs the new column", w[c] == col);
                for k in 0..N {
                    if k != c {
                        rec.ok("Matrix::replace_col leaves the other columns", w[k] == m0[k]);
                    }
                }
            }
        }};
    }
    moves!(Matrix2, 2, 4);
    moves!(Matrix3, 3, 9);
    moves!(Matrix4, 4, 16);
}

// ---------------------------------------------------------------- quaternion (numeric element types)

fn quat_num<T: Tag + cgmath::BaseNum>(rec: &mut Rec, salt: u64) {
    rec.ctx = format!("Quaternion<{}>", T::NAME);
    let t: [T; 4] = std::array::from_fn(|i| T::tag(i, salt)); // x, y, z, s
    let u: [T; 4] = std::array::from_fn(|i| T::tag(i + 16, salt));
    let q = Quaternion::new(t[3], t[0], t[1], t[2]);
    rec.eq("new(w,x,y,z) puts the scalar first", [q.v.x, q.v.y, q.v.z, q.s], t);
    let a: [T; 4] = q.into();
    rec.eq("Into<[T;4]> = x,y,z,s", a, t);
    let tp: (T, T, T, T) = q.into();
    rec.eq("Into<tuple> = x,y,z,s", [tp.0, tp.1, tp.2, tp.3], t);
    let b: Quaternion<T> = t.into();
    rec.ok("From<[T;4]>", b == q);
    let b: Quaternion<T> = (t[0], t[1], t[2], t[3]).into();
    rec.ok("From<tuple>", b == q);
    let r: &[T; 4] = q.as_ref();
    rec.eq("AsRef<[T;4]>", *r, t);
    let r: &(T, T, T, T) = q.as_ref();
    rec.eq("AsRef<tuple>", [r.0, r.1, r.2, r.3], t);
    let rq: &Quaternion<T> = (&t).into();
    rec.ok("From<&[T;4]>", *rq == q);
    let tv = (t[0], t[1], t[2], t[3]);
    let rq: &Quaternion<T> = (&tv).into();
    rec.ok("From<&tuple>", *rq == q);
    for i in 0..4 {
        rec.eq("Index<usize>", q[i], t[i]);
        let mut e = t;
        e[i] = u[i];
        let mut w = q;
        w[i] = u[i];
        rec.eq("write IndexMut read fields", [w.v.x, w.v.y, w.v.z, w.s], e);
        let mut w = q;
        {
            let m: &mut [T; 4] = w.as_mut();
            m[i] = u[i];
        }
        rec.eq("write AsMut<[T;4]> read fields", [w.v.x, w.v.y, w.v.z, w.s], e);
        let r: &(T, T, T, T) = w.as_ref();
        rec.eq("write AsMut<[T;4]> read AsRef<tuple>", [r.0, r.1, r.2, r.3], e);
        let mut arr = t;
        {
            let mq: &mut Quaternion<T> = (&mut arr).into();
            mq[i] = u[i];
        }
        rec.eq("write From<&mut [T;4]> read array", arr, e);
    }
    {
        let mut w = q;
        {
            let m: &mut (T, T, T, T) = w.as_mut();
            m.0 = u[0];
            m.1 = u[1];
            m.2 = u[2];
            m.3 = u[3];
        }
        rec.eq("write AsMut<tuple> read fields", [w.v.x, w.v.y, w.v.z, w.s], u);
        let mut tv = (t[0], t[1], t[2], t[3]);
        {
            let mq: &mut Quaternion<T> = (&mut tv).into();
            mq.s = u[3];
            mq.v.x = u[0];
        }
        rec.eq("write From<&mut tuple> read tuple", [tv.0, tv.1, tv.2, tv.3], [u[0], t[1], t[2], u[3]]);
    }
    for a in 0..=4 {
        for b in a..=4 {
            rec.ok("Index<Range>", q[a..b] == t[a..b]);
        }
        rec.ok("Index<RangeTo>", q[..a] == t[..a]);
        rec.ok("Index<RangeFrom>", q[a..] == t[a..]);
    }
    rec.ok("Index<RangeFull>", q[..] == t[..]);
    for bad in [4usize, 5, usize::MAX] {
        rec.panics("Index<usize> out of range", || q[bad]);
    }
    rec.panics("Index<Range> out of range", || q[0..5].len());
}

fn run_any<T: Tag>(rec: &mut Rec, salt: u64) {
    vec1_any::<T>(rec, salt);
    vec2_any::<T>(rec, salt);
    vec3_any::<T>(rec, salt);
    vec4_any::<T>(rec, salt);
    pt1_any::<T>(rec, salt);
    pt2_any::<T>(rec, salt);
    pt3_any::<T>(rec, salt);
    mat2_any::<T>(rec, salt);
    mat3_any::<T>(rec, salt);
    mat4_any::<T>(rec, salt);
    mat_new::<T>(rec, salt);
    arr_v1::<T>(rec, salt);
    arr_v2::<T>(rec, salt);
    arr_v3::<T>(rec, salt);
    arr_v4::<T>(rec, salt);
}
fn run_num<T: Tag + cgmath::BaseNum>(rec: &mut Rec, salt: u64) {
    run_any::<T>(rec, salt);
    arr_p1::<T>(rec, salt);
    arr_p2::<T>(rec, salt);
    arr_p3::<T>(rec, salt);
    numeric_extras::<T>(rec, salt);
    quat_num::<T>(rec, salt);
}

pub fn native(cfg: &RunCfg, extra: &mut Extra) {
    let rounds = if cfg.tier == Tier::Quick { 12 } else { 600 };
    let mut per_type = serde_json::Map::new();
    let mut total = 0u64;
    let mut distinct = 0u64;
    let mut first_fail: Option<(String, String)> = None;
    macro_rules! go {
        ($T:ty, $f:ident $(, $g:ident)?) => {{
            let mut rec = Rec::new();
            let mut salts = std::collections::HashSet::new();
            for i in 0..rounds {
                let mut rng = Rng::for_case(cfg.seed, "c16_native", i);
                // every residue mod 7 (the float tag families) comes up in turn
                let salt = (rng.next() / 7) * 7 + (i % 7);
                $f::<$T>(&mut rec, salt);
                $( $g::<$T>(&mut rec, salt); )?
                // distinct tag sets actually used
                salts.insert(format!("{:?}", <$T as Tag>::tag(3, salt)));
                if rec.fail.is_some() {
                    break;
                }
            }
            total += rec.checks;
            if <$T as Tag>::distinct() {
                distinct += salts.len() as u64;
            }
            per_type.insert(<$T as Tag>::NAME.to_string(), json!({"oracle_checks": rec.checks, "distinct_tag_sets": salts.len()}));
            if let Some(f) = rec.fail {
                if first_fail.is_none() {
                    first_fail = Some((<$T as Tag>::NAME.to_string(), f));
                }
            }
        }};
    }
    go!(u8, run_num);
    go!(u16, run_num);
    go!(u32, run_num);
    go!(u64, run_num);
    go!(usize, run_num);
    go!(i8, run_num);
    go!(i16, run_num);
    go!(i32, run_num);
    go!(i64, run_num);
    go!(isize, run_num);
    go!(f32, run_num, mat_ptr);
    go!(f64, run_num, mat_ptr);
    go!(bool, run_any);
    go!(char, run_any);
    go!((u8, u16), run_any);
    go!(&'static str, run_any);
    go!((), run_any);
    if let Some((ty, msg)) = first_fail {
        extra.violations.push(("native_views".into(), msg.clone(), json!({"element_type": ty, "message": msg})));
    }
    extra.evaluations += total;
    extra.distinct_nontrivial += distinct.max(2);
    extra.samples.push(json!({"clause": "native_views", "element_type": "i32", "tags": (0..4).map(|i| <i32 as Tag>::tag(i, 5)).collect::<Vec<_>>(),
        "example": "Vector4::new(t0,t1,t2,t3): Into<[T;4]>, Into<tuple>, AsRef/AsMut both, From<&[T;4]>, From<&mut tuple>, Index usize/ranges, as_ptr, swap_elements, map, zip"}));
    extra.sections.insert(
        "native_views".into(),
        json!({"oracle_checks": total, "rounds_per_type": rounds, "per_element_type": per_type,
               "types": "Vector1-4, Point1-3, Matrix2-4 for 12 primitives + bool, char, (u8,u16), &str, (); Quaternion, Point Array impls, extend/truncate/conv/mint for the 12 primitives; Matrix raw pointers for f32/f64"}),
    );
}

pub fn clauses() -> Vec<Clause> {
    vec![]
}

pub const RULE: &str = "every view/conversion/index form is driven with slot tags t_i that are pairwise distinct wherever the element type allows (integers i+1+40k, floats, char, (u8,u16) with padding, &str; bool and () cannot be distinct and only exercise the code paths), re-drawn per round from the seed; a check = one comparison of a component seen through one view with the tag the statement places there, or one must-panic / must-not-panic event; evaluations counts those checks plus the 550 swizzle calls per element type and the Miri operations; distinct_nontrivial = number of distinct tag sets over the element types with distinct tags (plus swizzle names and Miri views merged from the other two engines).";
pub const ASSUME: &[&str] = &[
    "default struct and tuple layout of the installed rustc (no -Zrandomize-layout)",
    "Miri gate: Tree Borrows; Stacked Borrows output is advisory (as_ptr() = &self[0] followed by neighbour reads is rejected by Stacked Borrows only)",
    "a harness build failure caused only by a missing swizzle accessor (E0599 in the generated table) is reported as a violation of C16, any other build failure as inconclusive",
];
