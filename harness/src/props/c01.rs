//! C01 — column-major, column-vector convention (DESIGN §C01).

use cgmath::prelude::*;
use cgmath::{Matrix2, Matrix3, Matrix4, Point2, Point3, Transform, Vector2, Vector3, Vector4};

use cgv_core::conv::*;
use cgv_core::fw::{Case, Clause};
use cgv_core::gen::{self, Rng, Tier};
use cgv_core::model::*;
use cgv_core::sc::{Ck, Rat, Sc};
use cgv_core::{clause, clause_q};

fn new2<S: Sc>(a: M<S, 2>) -> Matrix2<S> {
    Matrix2::new(a[0][0], a[0][1], a[1][0], a[1][1])
}
fn new3<S: Sc>(a: M<S, 3>) -> Matrix3<S> {
    Matrix3::new(
        a[0][0], a[0][1], a[0][2], a[1][0], a[1][1], a[1][2], a[2][0], a[2][1], a[2][2],
    )
}
fn new4<S: Sc>(a: M<S, 4>) -> Matrix4<S> {
    Matrix4::new(
        a[0][0], a[0][1], a[0][2], a[0][3], a[1][0], a[1][1], a[1][2], a[1][3], a[2][0], a[2][1],
        a[2][2], a[2][3], a[3][0], a[3][1], a[3][2], a[3][3],
    )
}
fn cols2<S: Sc>(a: M<S, 2>) -> Matrix2<S> {
    Matrix2::from_cols(Vector2::new(a[0][0], a[0][1]), Vector2::new(a[1][0], a[1][1]))
}
fn cols3<S: Sc>(a: M<S, 3>) -> Matrix3<S> {
    Matrix3::from_cols(
        Vector3::new(a[0][0], a[0][1], a[0][2]),
        Vector3::new(a[1][0], a[1][1], a[1][2]),
        Vector3::new(a[2][0], a[2][1], a[2][2]),
    )
}
fn cols4<S: Sc>(a: M<S, 4>) -> Matrix4<S> {
    Matrix4::from_cols(
        Vector4::new(a[0][0], a[0][1], a[0][2], a[0][3]),
        Vector4::new(a[1][0], a[1][1], a[1][2], a[1][3]),
        Vector4::new(a[2][0], a[2][1], a[2][2], a[2][3]),
        Vector4::new(a[3][0], a[3][1], a[3][2], a[3][3]),
    )
}

fn gen_n(rng: &mut Rng, tier: Tier, n: usize) -> Case {
    let (v, nt) = gen::rats(rng, tier, n);
    let mut c = Case::new();
    c.push_r(&v);
    c.nontrivial = nt;
    c
}

macro_rules! dim {
    ($md:ident, $N:expr, $Mat:ident, $Vec:ident, $m:ident, $v:ident, $mk_m:ident, $mk_v:ident, $new:ident, $cols:ident) => {
        pub mod $md {
            use super::*;
            const N: usize = $N;

            pub fn g_one(rng: &mut Rng, tier: Tier) -> Case {
                gen_n(rng, tier, N * N)
            }
            pub fn g_mv(rng: &mut Rng, tier: Tier) -> Case {
                gen_n(rng, tier, N * N + N)
            }
            pub fn g_mm(rng: &mut Rng, tier: Tier) -> Case {
                let mut c = gen_n(rng, tier, 2 * N * N);
                // one case in three: one or both factors are what the crate's own constructors
                // produce (identity, scale, translation, rotation, projection-shaped, ...)
                if N >= 2 && rng.chance(1, 3) {
                    let which = rng.below(3);
                    if which != 1 {
                        let (m, _) = gen::structured_matrix(rng, tier, N);
                        c.r[..N * N].copy_from_slice(&m);
                    }
                    if which != 0 {
                        let (m, _) = gen::structured_matrix(rng, tier, N);
                        c.r[N * N..2 * N * N].copy_from_slice(&m);
                    }
                }
                c
            }
            /// products whose factors are within 2^-k of the identity, or tiny / huge
            /// (a field has no "negligible" elements: I + 2^-60 E is not I)
            pub fn g_mm_scaled(rng: &mut Rng, tier: Tier) -> Case {
                let mut c = gen_n(rng, Tier::Quick, 2 * N * N);
                let _ = tier;
                let k = rng.range(20, 60) as u32;
                let which = rng.below(4);
                c.class = which as u16;
                for idx in 0..N * N {
                    let (col, row) = (idx / N, idx % N);
                    let id = if col == row { 1i64 } else { 0 };
                    let near = |r: Rat| -> Rat {
                        // identity + r * 2^-k
                        let d = r.d << k;
                        Rat::new(id * d + r.n, d)
                    };
                    match which {
                        0 => c.r[N * N + idx] = near(c.r[N * N + idx]),          // B near identity
                        1 => c.r[idx] = near(c.r[idx]),                          // A near identity
                        2 => c.r[idx] = Rat::new(c.r[idx].n, c.r[idx].d << k),   // A tiny
                        _ => {
                            c.r[idx] = Rat::new(c.r[idx].n << (k / 3), c.r[idx].d);                     // A large
                            c.r[N * N + idx] = Rat::new(c.r[N * N + idx].n, c.r[N * N + idx].d << k);   // B tiny
                        }
                    }
                }
                c.nontrivial = true;
                c
            }
            pub fn g_ring(rng: &mut Rng, tier: Tier) -> Case {
                gen_n(rng, tier, 3 * N * N + 2 * N + 1)
            }
            pub fn g_elem(rng: &mut Rng, tier: Tier) -> Case {
                let mut c = gen_n(rng, tier, 2 * N * N);
                c.push_r(&[gen::nz_rat(rng, tier)]);
                c
            }

            /// a. layout through every reader
            pub fn layout<S: Sc>(case: &Case, ck: &mut Ck<S>) {
                let a: M<S, N> = case.rd().mat();
                let m1 = $new(a);
                let m2 = $cols(a);
                ck.eqm("new vs fields", $m(m1), a);
                ck.eqm("from_cols vs fields", $m(m2), a);
                let mut idx = a;
                for c in 0..N {
                    for r in 0..N {
                        idx[c][r] = m1[c][r];
                    }
                }
                ck.eqm("m[c][r]", idx, a);
                for r in 0..N {
                    let row = $v(m1.row(r));
                    let mut exp = [S::i(0); N];
                    for c in 0..N {
                        exp[c] = a[c][r];
                    }
                    ck.eqv(&format!("row({r})"), row, exp);
                }
                ck.eqm("transpose", $m(m1.transpose()), mtrans(a));
                let mut d = [S::i(0); N];
                let mut tr = S::i(0);
                for i in 0..N {
                    d[i] = a[i][i];
                    tr = tr + a[i][i];
                }
                ck.eqv("diagonal", $v(m1.diagonal()), d);
                ck.eq("trace", m1.trace(), tr);
                ck.note("m", &m1);
                // constructors that describe diagonal matrices
                let k = a[0][0];
                ck.eqm("identity", $m($Mat::<S>::identity()), mident());
                ck.eqm("one", $m(<$Mat<S> as cgmath::One>::one()), mident());
                ck.eqm("from_value", $m($Mat::from_value(k)), mscale(mident(), k));
                let mut dm = mzero::<S, N>();
                for i in 0..N {
                    dm[i][i] = a[0][i];
                }
                ck.eqm("from_diagonal", $m($Mat::from_diagonal($mk_v(a[0]))), dm);
                ck.eqm("zero", $m(<$Mat<S> as cgmath::Zero>::zero()), mzero());
            }

            /// b. A*v is the combination of A's columns weighted by v
            pub fn mul_vec<S: Sc>(case: &Case, ck: &mut Ck<S>) {
                let mut rd = case.rd();
                let a: M<S, N> = rd.mat();
                let v: V<S, N> = rd.arr();
                let (ma, vv) = ($mk_m(a), $mk_v(v));
                let exp = mvec(a, v);
                // sum over c of column c scaled by v[c], using cgmath's own vector ops
                let mut comb = $mk_v([S::i(0); N]);
                for c in 0..N {
                    comb = comb + ma[c] * v[c];
                }
                let r = ma * vv;
                ck.eqv("A*v vs model", $v(r), exp);
                ck.eqv("A*v vs column combination", $v(r), $v(comb));
                ck.eqv("&A*v", $v(&ma * vv), exp);
                ck.eqv("A*&v", $v(ma * &vv), exp);
                ck.eqv("&A*&v", $v(&ma * &vv), exp);
                ck.note("A*v", &r);
            }

            /// c. column c of A*B is A*(column c of B)
            pub fn mul_mat<S: Sc>(case: &Case, ck: &mut Ck<S>) {
                let mut rd = case.rd();
                let a: M<S, N> = rd.mat();
                let b: M<S, N> = rd.mat();
                let (ma, mb) = ($mk_m(a), $mk_m(b));
                let exp = mmul(a, b);
                let p = ma * mb;
                ck.eqm("A*B vs model", $m(p), exp);
                for c in 0..N {
                    ck.eqv(&format!("(A*B)[{c}] vs A*(B[{c}])"), $v(p[c]), $v(ma * mb[c]));
                }
                ck.eqm("&A*B", $m(&ma * mb), exp);
                ck.eqm("A*&B", $m(ma * &mb), exp);
                ck.eqm("&A*&B", $m(&ma * &mb), exp);
                ck.note("A*B", &p);
            }

            /// f. element-wise operations
            pub fn elementwise<S: Sc>(case: &Case, ck: &mut Ck<S>) {
                let mut rd = case.rd();
                let a: M<S, N> = rd.mat();
                let b: M<S, N> = rd.mat();
                let k: S = rd.s();
                let (ma, mb) = ($mk_m(a), $mk_m(b));
                ck.eqm("A+B", $m(ma + mb), madd(a, b));
                ck.eqm("A-B", $m(ma - mb), msub(a, b));
                ck.eqm("-A", $m(-ma), mscale(a, S::i(-1)));
                ck.eqm("A*k", $m(ma * k), mscale(a, k));
                let mut dv = a;
                let mut rm = a;
                for c in 0..N {
                    for r in 0..N {
                        dv[c][r] = a[c][r] / k;
                        rm[c][r] = a[c][r] % k;
                    }
                }
                ck.eqm("A/k", $m(ma / k), dv);
                ck.eqm("A%k", $m(ma % k), rm);
                let mut x = ma;
                x += mb;
                ck.eqm("A+=B", $m(x), madd(a, b));
                let mut x = ma;
                x -= mb;
                ck.eqm("A-=B", $m(x), msub(a, b));
                let mut x = ma;
                x *= k;
                ck.eqm("A*=k", $m(x), mscale(a, k));
                let mut x = ma;
                x /= k;
                ck.eqm("A/=k", $m(x), dv);
                let mut x = ma;
                x %= k;
                ck.eqm("A%=k", $m(x), rm);
                let lerp = ma.lerp(mb, k);
                ck.eqm("lerp", $m(lerp), madd(a, mscale(msub(b, a), k)));
            }

            /// f. ring laws on random triples
            pub fn ring<S: Sc>(case: &Case, ck: &mut Ck<S>) {
                let mut rd = case.rd();
                let (a, b, c): (M<S, N>, M<S, N>, M<S, N>) = (rd.mat(), rd.mat(), rd.mat());
                let (u, v): (V<S, N>, V<S, N>) = (rd.arr(), rd.arr());
                let (ma, mb, mc) = ($mk_m(a), $mk_m(b), $mk_m(c));
                let (vu, vv) = ($mk_v(u), $mk_v(v));
                ck.eqm("(AB)C=A(BC)", $m((ma * mb) * mc), $m(ma * (mb * mc)));
                ck.eqm("A(B+C)=AB+AC", $m(ma * (mb + mc)), $m(ma * mb + ma * mc));
                ck.eqm("(A+B)C=AC+BC", $m((ma + mb) * mc), $m(ma * mc + mb * mc));
                ck.eqv("(A+B)v=Av+Bv", $v((ma + mb) * vv), $v(ma * vv + mb * vv));
                ck.eqv("A(u+v)=Au+Av", $v(ma * (vu + vv)), $v(ma * vu + ma * vv));
                ck.eqv("(AB)v=A(Bv)", $v((ma * mb) * vv), $v(ma * (mb * vv)));
                let id = $Mat::<S>::identity();
                ck.eqm("IA=A", $m(id * ma), a);
                ck.eqm("AI=A", $m(ma * id), a);
                ck.eqv("Iv=v", $v(id * vv), v);
            }
        }
    };
}

dim!(d2, 2, Matrix2, Vector2, m2, v2, mk_m2, mk_v2, new2, cols2);
dim!(d3, 3, Matrix3, Vector3, m3, v3, mk_m3, mk_v3, new3, cols3);
dim!(d4, 4, Matrix4, Vector4, m4, v4, mk_m4, mk_v4, new4, cols4);

// ---------------------------------------------------------------- d. embeddings

fn g_embed(rng: &mut Rng, tier: Tier) -> Case {
    gen_n(rng, tier, 4 + 9)
}
fn embed<S: Sc>(case: &Case, ck: &mut Ck<S>) {
    let mut rd = case.rd();
    let a2: M<S, 2> = rd.mat();
    let a3: M<S, 3> = rd.mat();
    ck.eqm("Matrix3::from(Matrix2)", m3(Matrix3::from(mk_m2(a2))), embed23(a2));
    ck.eqm("Matrix4::from(Matrix2)", m4(Matrix4::from(mk_m2(a2))), embed24(a2));
    ck.eqm("Matrix4::from(Matrix3)", m4(Matrix4::from(mk_m3(a3))), embed34(a3));
    // the embedding acts on the leading components and fixes the rest
    let v: V<S, 3> = [a3[0][0], a3[1][1], a3[2][2]];
    let r = Matrix4::from(mk_m3(a3)) * mk_v3(v).extend(a2[0][0]);
    let e = mvec(a3, v);
    ck.eqv("embedded action", v4(r), [e[0], e[1], e[2], a2[0][0]]);
}

// ---------------------------------------------------------------- e. constructors as transforms

fn g_xf(rng: &mut Rng, tier: Tier) -> Case {
    // t(3) s(1) ns(3) p(3) v(3) k(1)
    gen_n(rng, tier, 14)
}
fn xform<S: Sc>(case: &Case, ck: &mut Ck<S>) {
    let mut rd = case.rd();
    let t: V<S, 3> = rd.arr();
    let s: S = rd.s();
    let ns: V<S, 3> = rd.arr();
    let p: V<S, 3> = rd.arr();
    let v: V<S, 3> = rd.arr();
    let (pp, vv) = (mk_p3(p), mk_v3(v));

    // Matrix4, 3-D
    let mt = Matrix4::from_translation(mk_v3(t));
    ck.eqv("M4 translation point", p3(mt.transform_point(pp)), vadd(p, t));
    ck.eqv("M4 translation vector", v3(mt.transform_vector(vv)), v);
    let ms = Matrix4::from_scale(s);
    ck.eqv("M4 scale point", p3(ms.transform_point(pp)), vscale(p, s));
    ck.eqv("M4 scale vector", v3(ms.transform_vector(vv)), vscale(v, s));
    let mn = Matrix4::from_nonuniform_scale(ns[0], ns[1], ns[2]);
    ck.eqv(
        "M4 nonuniform point",
        p3(mn.transform_point(pp)),
        [p[0] * ns[0], p[1] * ns[1], p[2] * ns[2]],
    );
    ck.eqv(
        "M4 nonuniform vector",
        v3(mn.transform_vector(vv)),
        [v[0] * ns[0], v[1] * ns[1], v[2] * ns[2]],
    );
    let id = Matrix4::<S>::identity();
    ck.eqv("M4 identity point", p3(id.transform_point(pp)), p);
    ck.eqv("M4 identity vector", v3(id.transform_vector(vv)), v);
    // translate after scale: p -> s p + t, through concat and *
    let ts = Transform::<Point3<S>>::concat(&mt, &ms);
    ck.eqv("M4 concat point", p3(ts.transform_point(pp)), vadd(vscale(p, s), t));
    ck.eqv("M4 concat vector", v3(ts.transform_vector(vv)), vscale(v, s));
    ck.eqm("M4 concat == *", m4(ts), m4(mt * ms));
    // element layout of the three constructors
    let mut et = mident::<S, 4>();
    et[3][0] = t[0];
    et[3][1] = t[1];
    et[3][2] = t[2];
    ck.eqm("M4 from_translation elements", m4(mt), et);
    let mut en = mident::<S, 4>();
    en[0][0] = ns[0];
    en[1][1] = ns[1];
    en[2][2] = ns[2];
    ck.eqm("M4 from_nonuniform_scale elements", m4(mn), en);

    // Matrix3 as a 2-D homogeneous transform
    let (p2a, v2a) = ([p[0], p[1]], [v[0], v[1]]);
    let (pp2, vv2) = (mk_p2(p2a), mk_v2(v2a));
    let t2 = [t[0], t[1]];
    let mt = Matrix3::from_translation(mk_v2(t2));
    ck.eqv(
        "M3 translation point",
        p2(Transform::<Point2<S>>::transform_point(&mt, pp2)),
        vadd(p2a, t2),
    );
    ck.eqv(
        "M3 translation vector",
        v2(Transform::<Point2<S>>::transform_vector(&mt, vv2)),
        v2a,
    );
    let ms = Matrix3::from_scale(s);
    ck.eqv(
        "M3 scale point",
        p2(Transform::<Point2<S>>::transform_point(&ms, pp2)),
        vscale(p2a, s),
    );
    ck.eqv(
        "M3 scale vector",
        v2(Transform::<Point2<S>>::transform_vector(&ms, vv2)),
        vscale(v2a, s),
    );
    let mn = Matrix3::from_nonuniform_scale(ns[0], ns[1]);
    ck.eqv(
        "M3 nonuniform point",
        p2(Transform::<Point2<S>>::transform_point(&mn, pp2)),
        [p[0] * ns[0], p[1] * ns[1]],
    );
    ck.eqv(
        "M3 nonuniform vector",
        v2(Transform::<Point2<S>>::transform_vector(&mn, vv2)),
        [v[0] * ns[0], v[1] * ns[1]],
    );
    let ts = Transform::<Point2<S>>::concat(&mt, &ms);
    ck.eqv(
        "M3 concat point",
        p2(Transform::<Point2<S>>::transform_point(&ts, pp2)),
        vadd(vscale(p2a, s), t2),
    );
    let mut et = mident::<S, 3>();
    et[2][0] = t[0];
    et[2][1] = t[1];
    ck.eqm("M3 from_translation elements", m3(mt), et);

    // Matrix3 as a 3-D linear transform
    let a = Matrix3::from_diagonal(mk_v3(ns));
    ck.eqv(
        "M3(3-D) point",
        p3(Transform::<Point3<S>>::transform_point(&a, pp)),
        [p[0] * ns[0], p[1] * ns[1], p[2] * ns[2]],
    );
    ck.eqv(
        "M3(3-D) vector",
        v3(Transform::<Point3<S>>::transform_vector(&a, vv)),
        [v[0] * ns[0], v[1] * ns[1], v[2] * ns[2]],
    );
    // concat of two general (non-commuting) matrices, through each Transform impl
    {
        let g1: M<S, 3> = [t, ns, p];
        let g2: M<S, 3> = [v, [s, t[1], ns[2]], [p[2], v[0], t[0]]];
        let (x, y) = (mk_m3(g1), mk_m3(g2));
        ck.eqm("M3(3-D) concat = x*y", m3(Transform::<Point3<S>>::concat(&x, &y)), mmul(g1, g2));
        ck.eqm("M3(2-D) concat = x*y", m3(Transform::<Point2<S>>::concat(&x, &y)), mmul(g1, g2));
        ck.eqv(
            "M3(3-D) concat(x,y)(v) = x(y(v))",
            v3(Transform::<Point3<S>>::transform_vector(&Transform::<Point3<S>>::concat(&x, &y), vv)),
            mvec(g1, mvec(g2, v)),
        );
        let h1 = embed34(g1);
        let mut h2 = embed34(g2);
        h2[3][0] = t[2];
        h2[3][1] = p[0];
        h2[3][2] = v[1];
        let (x4, y4) = (mk_m4(h1), mk_m4(h2));
        ck.eqm("M4 concat = x*y", m4(Transform::<Point3<S>>::concat(&x4, &y4)), mmul(h1, h2));
        ck.eqm("M4 concat(y,x) = y*x", m4(Transform::<Point3<S>>::concat(&y4, &x4)), mmul(h2, h1));
        // the in-place form and the iterator product of the same two factors
        let mut cs = x4;
        Transform::<Point3<S>>::concat_self(&mut cs, &y4);
        ck.eqm("M4 concat_self(x, y) = x*y", m4(cs), mmul(h1, h2));
        let mut cs = x;
        Transform::<Point3<S>>::concat_self(&mut cs, &y);
        ck.eqm("M3(3-D) concat_self(x, y) = x*y", m3(cs), mmul(g1, g2));
        let mut cs = x;
        Transform::<Point2<S>>::concat_self(&mut cs, &y);
        ck.eqm("M3(2-D) concat_self(x, y) = x*y", m3(cs), mmul(g1, g2));
        let pr: Matrix4<S> = [x4, y4].iter().product();
        ck.eqm("Product over [&x, &y] = x*y", m4(pr), mmul(h1, h2));
        let pr: Matrix4<S> = Vec::<Matrix4<S>>::new().iter().product();
        ck.eqm("empty Product over references = identity", m4(pr), mident());
        let pr: Matrix3<S> = Vec::<Matrix3<S>>::new().into_iter().product();
        ck.eqm("empty Product over values = identity", m3(pr), mident());
    }
    let k = Matrix3::from_value(s);
    ck.eqv(
        "M3 from_value vector",
        v3(Transform::<Point3<S>>::transform_vector(&k, vv)),
        vscale(v, s),
    );
}

// ---------------------------------------------------------------- native f64/f32 with small integers

/// The same layout / product clauses on the real scalar types, with small
/// integer entries (every operation is exact in binary floating point, so bit
/// equality with the integer model is a sound oracle).
pub fn native_ints(cfg: &cgv_core::fw::RunCfg, extra: &mut cgv_core::fw::Extra) {
    use serde_json::json;
    let n = if cfg.tier == Tier::Quick { 2000 } else { 100_000 };
    let mut seen = std::collections::HashSet::new();
    let mut evals = 0u64;
    macro_rules! run {
        ($T:ty, $tag:expr) => {{
            for i in 0..n {
                let mut rng = Rng::for_case(cfg.seed, concat!("native_ints_", $tag), i);
                let mut a = [[0i64; 4]; 4];
                let mut b = [[0i64; 4]; 4];
                let mut v = [0i64; 4];
                for c in 0..4 {
                    for r in 0..4 {
                        a[c][r] = rng.range(-30, 30);
                        b[c][r] = rng.range(-30, 30);
                    }
                    v[c] = rng.range(-30, 30);
                }
                evals += 1;
                let f = |x: i64| x as $T;
                let ma = Matrix4::new(
                    f(a[0][0]), f(a[0][1]), f(a[0][2]), f(a[0][3]),
                    f(a[1][0]), f(a[1][1]), f(a[1][2]), f(a[1][3]),
                    f(a[2][0]), f(a[2][1]), f(a[2][2]), f(a[2][3]),
                    f(a[3][0]), f(a[3][1]), f(a[3][2]), f(a[3][3]),
                );
                let mb = Matrix4::new(
                    f(b[0][0]), f(b[0][1]), f(b[0][2]), f(b[0][3]),
                    f(b[1][0]), f(b[1][1]), f(b[1][2]), f(b[1][3]),
                    f(b[2][0]), f(b[2][1]), f(b[2][2]), f(b[2][3]),
                    f(b[3][0]), f(b[3][1]), f(b[3][2]), f(b[3][3]),
                );
                let vv = Vector4::new(f(v[0]), f(v[1]), f(v[2]), f(v[3]));
                let p = ma * mb;
                let mvr = ma * vv;
                let m3a = Matrix3::new(
                    f(a[0][0]), f(a[0][1]), f(a[0][2]),
                    f(a[1][0]), f(a[1][1]), f(a[1][2]),
                    f(a[2][0]), f(a[2][1]), f(a[2][2]),
                );
                let m3b = Matrix3::new(
                    f(b[0][0]), f(b[0][1]), f(b[0][2]),
                    f(b[1][0]), f(b[1][1]), f(b[1][2]),
                    f(b[2][0]), f(b[2][1]), f(b[2][2]),
                );
                let p3m = m3a * m3b;
                let m2a = Matrix2::new(f(a[0][0]), f(a[0][1]), f(a[1][0]), f(a[1][1]));
                let m2b = Matrix2::new(f(b[0][0]), f(b[0][1]), f(b[1][0]), f(b[1][1]));
                let p2m = m2a * m2b;
                let mut bad: Option<String> = None;
                for c in 0..4 {
                    let mut ev = 0i64;
                    for k in 0..4 {
                        ev += a[k][c] * v[k];
                    }
                    if mvr[c] != f(ev) {
                        bad = Some(format!("(A*v)[{c}] = {:?}, model {ev}", mvr[c]));
                    }
                    for r in 0..4 {
                        let mut e = 0i64;
                        for k in 0..4 {
                            e += a[k][r] * b[c][k];
                        }
                        if p[c][r] != f(e) {
                            bad = Some(format!("(A*B)[{c}][{r}] = {:?}, model {e}", p[c][r]));
                        }
                        if ma[c][r] != f(a[c][r]) || ma.transpose()[r][c] != f(a[c][r]) || ma.row(r)[c] != f(a[c][r]) {
                            bad = Some(format!("layout [{c}][{r}]"));
                        }
                        if c < 3 && r < 3 {
                            let mut e = 0i64;
                            for k in 0..3 {
                                e += a[k][r] * b[c][k];
                            }
                            if p3m[c][r] != f(e) {
                                bad = Some(format!("3x3 (A*B)[{c}][{r}] = {:?}, model {e}", p3m[c][r]));
                            }
                        }
                        if c < 2 && r < 2 {
                            let mut e = 0i64;
                            for k in 0..2 {
                                e += a[k][r] * b[c][k];
                            }
                            if p2m[c][r] != f(e) {
                                bad = Some(format!("2x2 (A*B)[{c}][{r}] = {:?}, model {e}", p2m[c][r]));
                            }
                        }
                    }
                }
                let mut h = 0u64;
                let mut distinct = std::collections::HashSet::new();
                for c in 0..4 {
                    for r in 0..4 {
                        h = (h ^ a[c][r] as u64).wrapping_mul(0x100000001b3);
                        h = (h ^ b[c][r] as u64).wrapping_mul(0x100000001b3);
                        distinct.insert(a[c][r]);
                    }
                }
                if distinct.len() >= 12 {
                    seen.insert(h);
                }
                if let Some(msg) = bad {
                    extra.violations.push((
                        format!("native_ints_{}", $tag),
                        msg,
                        json!({"a": a, "b": b, "v": v, "index": i}),
                    ));
                    break;
                }
                if i == 0 {
                    extra.samples.push(json!({"clause": concat!("native_ints_", $tag), "a": a, "b": b, "v": v,
                        "A*v": format!("{:?}", mvr)}));
                }
            }
        }};
    }
    run!(f64, "f64");
    run!(f32, "f32");
    extra.evaluations += evals;
    extra.distinct_nontrivial += seen.len() as u64;
    extra.sections.insert(
        "native_small_integer_matrices".into(),
        json!({"cases": evals, "types": ["f64", "f32"], "oracle": "bit equality with an i64 triple-loop model"}),
    );
}

/// Products of badly scaled matrices (entries m*2^e, |m| < 2^11, e in [-20,20],
/// all exactly representable in f32) on the native f32 and f64 types, against a
/// double-double model of the documented sums, with the componentwise bound
/// |err| <= 512 eps sum_k |a_rk||b_kc| (the documented dot products stay below
/// 3 eps of that sum).  An algebraically equivalent product with different
/// cancellation (Strassen, Winograd) or a fast path that treats "almost the
/// identity" as the identity is off by many orders of magnitude here while
/// being invisible on small integers and to the exact-rational engine.
pub fn native_scaled(cfg: &cgv_core::fw::RunCfg, extra: &mut cgv_core::fw::Extra) {
    use cgmath::BaseFloat;
    use cgv_core::acc::Acc;
    use cgv_core::dd;
    use serde_json::json;
    fn run<T: BaseFloat>(tag: &str, a: &[[f64; 4]; 4], b: &[[f64; 4]; 4], v: &[f64; 4], eps: f64, acc: &mut Acc, inputs: &dyn Fn() -> serde_json::Value) {
        let f = |x: f64| T::from(x).unwrap();
        let g = |x: T| x.to_f64().unwrap();
        let m4 = |m: &[[f64; 4]; 4]| {
            Matrix4::new(
                f(m[0][0]), f(m[0][1]), f(m[0][2]), f(m[0][3]), f(m[1][0]), f(m[1][1]), f(m[1][2]), f(m[1][3]),
                f(m[2][0]), f(m[2][1]), f(m[2][2]), f(m[2][3]), f(m[3][0]), f(m[3][1]), f(m[3][2]), f(m[3][3]),
            )
        };
        let m3 = |m: &[[f64; 4]; 4]| {
            Matrix3::new(f(m[0][0]), f(m[0][1]), f(m[0][2]), f(m[1][0]), f(m[1][1]), f(m[1][2]), f(m[2][0]), f(m[2][1]), f(m[2][2]))
        };
        let m2 = |m: &[[f64; 4]; 4]| Matrix2::new(f(m[0][0]), f(m[0][1]), f(m[1][0]), f(m[1][1]));
        let p4 = m4(a) * m4(b);
        let p3 = m3(a) * m3(b);
        let p2 = m2(a) * m2(b);
        let v4 = m4(a) * Vector4::new(f(v[0]), f(v[1]), f(v[2]), f(v[3]));
        let v3 = m3(a) * Vector3::new(f(v[0]), f(v[1]), f(v[2]));
        let v2 = m2(a) * Vector2::new(f(v[0]), f(v[1]));
        for n in [2usize, 3, 4] {
            for r in 0..n {
                let row: Vec<f64> = (0..n).map(|k| a[k][r]).collect();
                let (want, cond) = dd::dot(&row, &v[..n]);
                let got = match n {
                    2 => g(v2[r]),
                    3 => g(v3[r]),
                    _ => g(v4[r]),
                };
                acc.check(&format!("{tag} {n}x{n} (A*v)[{r}]"), got, want, 512.0 * eps * cond, inputs);
                for c in 0..n {
                    let (want, cond) = dd::dot(&row, &b[c][..n]);
                    let got = match n {
                        2 => g(p2[c][r]),
                        3 => g(p3[c][r]),
                        _ => g(p4[c][r]),
                    };
                    acc.check(&format!("{tag} {n}x{n} (A*B)[{c}][{r}]"), got, want, 512.0 * eps * cond, inputs);
                }
            }
        }
    }
    let n = if cfg.tier == Tier::Quick { 3000 } else { 200_000 };
    let mut acc = Acc::new("c01_badly_scaled_products");
    for i in 0..n {
        let mut rng = Rng::for_case(cfg.seed, "native_scaled", i);
        let class = rng.below(3);
        let entry = |rng: &mut Rng| (rng.range(-2047, 2047) as f64) * (2.0f64).powi(rng.range(-20, 20) as i32);
        let mut a = [[0.0f64; 4]; 4];
        let mut b = [[0.0f64; 4]; 4];
        let mut v = [0.0f64; 4];
        for c in 0..4 {
            for r in 0..4 {
                a[c][r] = entry(&mut rng);
                b[c][r] = entry(&mut rng);
            }
            v[c] = entry(&mut rng);
        }
        let mut a32 = a;
        match class {
            1 => {
                // identity plus perturbations around machine epsilon (per type)
                for c in 0..4 {
                    for r in 0..4 {
                        let s = if rng.bool() { 1.0 } else { -1.0 };
                        a[c][r] = if c == r { 1.0 } else { s * (2.0f64).powi(-(rng.range(50, 62) as i32)) };
                        a32[c][r] = if c == r { 1.0 } else { s * (2.0f64).powi(-(rng.range(21, 33) as i32)) };
                    }
                }
                acc.case("identity plus epsilon-sized perturbations times badly scaled");
            }
            2 => {
                // one dominant entry per matrix (the Strassen counter-example family)
                let (c, r) = (rng.below(2) as usize, rng.below(2) as usize);
                a[c][r] *= (2.0f64).powi(rng.range(10, 30) as i32);
                a32 = a;
                acc.case("one dominant entry");
            }
            _ => {
                acc.case("entries m*2^e, e in [-20,20]");
            }
        }
        let inputs64 = || json!({"a": a, "b": b, "v": v, "index": i});
        let inputs32 = || json!({"a": a32, "b": b, "v": v, "index": i});
        match cgv_core::fw::catch(|| {
            let mut local = Acc::new("c01_badly_scaled_products");
            run::<f64>("f64", &a, &b, &v, f64::EPSILON, &mut local, &inputs64);
            run::<f32>("f32", &a32, &b, &v, f32::EPSILON as f64, &mut local, &inputs32);
            local
        }) {
            Ok(l) => {
                acc.checks += l.checks;
                acc.worst = acc.worst.max(l.worst);
                if acc.fail.is_none() {
                    acc.fail = l.fail;
                }
            }
            Err(p) => acc.truth(&format!("unexpected panic: {p}"), false, &inputs64),
        }
        if acc.failed() {
            break;
        }
    }
    acc.finish(extra, "double-double model of the documented sums; allowance 512 eps * sum_k |a_rk||b_kc| per element");
}

pub fn native(cfg: &cgv_core::fw::RunCfg, extra: &mut cgv_core::fw::Extra) {
    native_ints(cfg, extra);
    native_scaled(cfg, extra);
}

const EP_LAYOUT: &[&str] = &[
    "Matrix{2,3,4}::new",
    "Matrix{2,3,4}::from_cols",
    "Matrix::row",
    "Matrix::transpose",
    "SquareMatrix::diagonal",
    "SquareMatrix::trace",
    "SquareMatrix::identity",
    "SquareMatrix::from_value",
    "SquareMatrix::from_diagonal",
    "Index<usize> for Matrix",
];
const EP_MV: &[&str] = &["Matrix * Vector", "Vector * scalar", "Vector + Vector"];
const EP_MM: &[&str] = &["Matrix * Matrix", "Matrix * Vector"];
const EP_EL: &[&str] = &[
    "Matrix + Matrix",
    "Matrix - Matrix",
    "-Matrix",
    "Matrix * scalar",
    "Matrix / scalar",
    "Matrix % scalar",
    "Matrix op= ...",
    "VectorSpace::lerp",
];
const EP_XF: &[&str] = &[
    "Matrix4::from_translation",
    "Matrix4::from_scale",
    "Matrix4::from_nonuniform_scale",
    "Matrix3::from_translation",
    "Matrix3::from_scale",
    "Matrix3::from_nonuniform_scale",
    "Transform::transform_point",
    "Transform::transform_vector",
    "Transform::concat",
];
const EP_EMB: &[&str] = &[
    "Matrix3::from(Matrix2)",
    "Matrix4::from(Matrix2)",
    "Matrix4::from(Matrix3)",
];

pub fn clauses() -> Vec<Clause> {
    vec![
        clause!("layout2", EP_LAYOUT, d2::g_one, layout2),
        clause!("layout3", EP_LAYOUT, d3::g_one, layout3),
        clause!("layout4", EP_LAYOUT, d4::g_one, layout4),
        clause!("mul_vec2", EP_MV, d2::g_mv, mul_vec2),
        clause!("mul_vec3", EP_MV, d3::g_mv, mul_vec3),
        clause!("mul_vec4", EP_MV, d4::g_mv, mul_vec4),
        clause!("mul_mat2", EP_MM, d2::g_mm, mul_mat2),
        clause!("mul_mat3", EP_MM, d3::g_mm, mul_mat3),
        clause!("mul_mat4", EP_MM, d4::g_mm, mul_mat4),
        clause!("mul_mat2_scaled", EP_MM, d2::g_mm_scaled, mul_mat2, weight = 0.5, classes = 4),
        clause!("mul_mat3_scaled", EP_MM, d3::g_mm_scaled, mul_mat3, weight = 0.5, classes = 4),
        clause!("mul_mat4_scaled", EP_MM, d4::g_mm_scaled, mul_mat4, weight = 0.5, classes = 4),
        clause!("elementwise2", EP_EL, d2::g_elem, elementwise2),
        clause!("elementwise3", EP_EL, d3::g_elem, elementwise3),
        clause!("elementwise4", EP_EL, d4::g_elem, elementwise4),
        clause_q!("ring2", EP_MM, d2::g_ring, ring2),
        clause_q!("ring3", EP_MM, d3::g_ring, ring3),
        clause_q!("ring4", EP_MM, d4::g_ring, ring4, weight = 0.5, classes = 0),
        clause!("embed", EP_EMB, g_embed, embed),
        clause!("xform", EP_XF, g_xf, xform),
    ]
}

// monomorphic shims so the clause! macro can name them with a turbofish
fn layout2<S: Sc>(c: &Case, k: &mut Ck<S>) {
    d2::layout(c, k)
}
fn layout3<S: Sc>(c: &Case, k: &mut Ck<S>) {
    d3::layout(c, k)
}
fn layout4<S: Sc>(c: &Case, k: &mut Ck<S>) {
    d4::layout(c, k)
}
fn mul_vec2<S: Sc>(c: &Case, k: &mut Ck<S>) {
    d2::mul_vec(c, k)
}
fn mul_vec3<S: Sc>(c: &Case, k: &mut Ck<S>) {
    d3::mul_vec(c, k)
}
fn mul_vec4<S: Sc>(c: &Case, k: &mut Ck<S>) {
    d4::mul_vec(c, k)
}
fn mul_mat2<S: Sc>(c: &Case, k: &mut Ck<S>) {
    d2::mul_mat(c, k)
}
fn mul_mat3<S: Sc>(c: &Case, k: &mut Ck<S>) {
    d3::mul_mat(c, k)
}
fn mul_mat4<S: Sc>(c: &Case, k: &mut Ck<S>) {
    d4::mul_mat(c, k)
}
fn elementwise2<S: Sc>(c: &Case, k: &mut Ck<S>) {
    d2::elementwise(c, k)
}
fn elementwise3<S: Sc>(c: &Case, k: &mut Ck<S>) {
    d3::elementwise(c, k)
}
fn elementwise4<S: Sc>(c: &Case, k: &mut Ck<S>) {
    d4::elementwise(c, k)
}
fn ring2<S: Sc>(c: &Case, k: &mut Ck<S>) {
    d2::ring(c, k)
}
fn ring3<S: Sc>(c: &Case, k: &mut Ck<S>) {
    d3::ring(c, k)
}
fn ring4<S: Sc>(c: &Case, k: &mut Ck<S>) {
    d4::ring(c, k)
}

pub const RULE: &str = "cases are tuples of small rationals (numerator in [-9,9] quick / [-40,40] thorough, denominator in {1,2,3,4,5,7}) filling the matrices/vectors of each clause; a case is non-trivial when all its entries are non-zero and pairwise distinct; distinct = distinct input tuples per clause (hash set). Native part: 4x4/3x3/2x2 integer matrices in [-30,30] on f64 and f32, non-trivial when at least 12 of the 16 entries of A differ.";
pub const ASSUME: &[&str] = &[
    "exact rational arithmetic in i128 (overflow poisons the case and is counted, never judged)",
    "held on the executions listed; inputs outside the generated families are not covered",
    "matrices exist only over BaseFloat scalars, so integer scalar types are not applicable to C01",
];
