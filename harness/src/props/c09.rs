//! C09 — look_at / look_to (DESIGN §C09).
#![allow(deprecated)]

use cgmath::prelude::*;
use cgmath::{Basis2, Basis3, Decomposed, Matrix2, Matrix3, Matrix4, Point2, Point3, Quaternion, Vector2, Vector3};
use num_traits::Float;

use cgv_core::clause;
use cgv_core::conv::*;
use cgv_core::fw::{Case, Clause};
use cgv_core::gen::{self, Rng, Tier};
use cgv_core::model::*;
use cgv_core::sc::{Ck, Rat, Sc};

fn radd(a: Rat, b: Rat) -> Rat {
    Rat::new(a.n * b.d + b.n * a.d, a.d * b.d)
}
fn rmul(a: Rat, b: Rat) -> Rat {
    Rat::new(a.n * b.n, a.d * b.d)
}

/// one time in four, multiply dir and/or up by 10^-9 .. 10^6
fn rescale(rng: &mut Rng, dir: Vec<Rat>, up: Vec<Rat>) -> (Vec<Rat>, Vec<Rat>) {
    if !rng.chance(1, 4) {
        return (dir, up);
    }
    let pick = |rng: &mut Rng| -> Rat {
        let e = rng.pick(&[-9i32, -8, -6, -4, -2, 2, 4, 6]);
        if e < 0 {
            Rat::new(1, 10i64.pow((-e) as u32))
        } else {
            Rat::int(10i64.pow(e as u32))
        }
    };
    let (kd, ku) = match rng.below(3) {
        0 => (pick(rng), Rat::int(1)),
        1 => (Rat::int(1), pick(rng)),
        _ => (pick(rng), pick(rng)),
    };
    (dir.iter().map(|x| rmul(*x, kd)).collect(), up.iter().map(|x| rmul(*x, ku)).collect())
}

/// class 0: exact configuration (every normalisation is a rational square
/// root); class 1: arbitrary rational eye/dir/up in general position
fn g_view(rng: &mut Rng, tier: Tier) -> Case {
    let mut c = Case::new();
    let eye = gen::distinct_rats(rng, tier, 3);
    if rng.chance(1, 2) {
        c.class = 0;
        // exact orthonormal rational frame: rows of the rotation matrix of a unit rational quaternion
        let q = gen::unit_quat(rng, Tier::Quick);
        let qq: [cgv_core::q::Q; 4] = [
            cgv_core::q::Q::rat(q[0]),
            cgv_core::q::Q::rat(q[1]),
            cgv_core::q::Q::rat(q[2]),
            cgv_core::q::Q::rat(q[3]),
        ];
        let m = qmat(qq);
        let row = |r: usize| -> [Rat; 3] {
            let f = |x: cgv_core::q::Q| Rat::new(x.num() as i64, x.den() as i64);
            [f(m[0][r]), f(m[1][r]), f(m[2][r])]
        };
        let (s, u, f) = (row(0), row(1), row(2));
        let a = Rat::new(rng.range(1, 9), rng.pick(&[1, 2, 3]));
        let (b, e) = rng.pick(&[(3i64, 4i64), (4, 3), (5, 12), (12, 5), (1, 0), (8, 15), (3, -4), (5, -12)]);
        let cc = Rat::new(rng.range(-6, 6), rng.pick(&[1, 2]));
        let k = Rat::new(rng.range(1, 5), rng.pick(&[1, 2]));
        let dir: Vec<Rat> = (0..3).map(|i| rmul(a, f[i])).collect();
        let up: Vec<Rat> = (0..3)
            .map(|i| rmul(k, radd(radd(rmul(Rat::int(b), u[i]), rmul(cc, f[i])), rmul(Rat::int(e), s[i]))))
            .collect();
        // lengths are irrelevant to the statement: very short or long dir / up are as valid as unit ones
        let (dir, up) = rescale(rng, dir, up);
        c.push_r(&eye).push_r(&dir).push_r(&up);
        c.nontrivial = dir.iter().all(|x| !x.is_zero());
    } else {
        c.class = 1;
        loop {
            let dir = gen::distinct_rats(rng, tier, 3);
            let up = if rng.chance(1, 4) {
                vec![Rat::int(0), Rat::int(1), Rat::int(0)]
            } else {
                gen::distinct_rats(rng, tier, 3)
            };
            let d: Vec<f64> = dir.iter().map(|r| r.approx()).collect();
            let u: Vec<f64> = up.iter().map(|r| r.approx()).collect();
            let cr = [d[1] * u[2] - d[2] * u[1], d[2] * u[0] - d[0] * u[2], d[0] * u[1] - d[1] * u[0]];
            let n = |v: &[f64]| (v[0] * v[0] + v[1] * v[1] + v[2] * v[2]).sqrt();
            if n(&cr) >= 0.05 * n(&d) * n(&u) {
                let (dir, up) = rescale(rng, dir, up);
                c.push_r(&eye).push_r(&dir).push_r(&up);
                break;
            }
        }
        c.nontrivial = true;
    }
    c
}

/// The statement's conditions on the rotation part: rigid, d -> (0,0,sign|d|),
/// up -> half-plane x = 0, y > 0.  sign = 0 accepts either direction of z.
fn check_rot<S: Sc>(ck: &mut Ck<S>, name: &str, r: M<S, 3>, d: V<S, 3>, up: V<S, 3>, sign: i32) {
    ck.eqm(&format!("{name}: R^T R = I"), mmul(mtrans(r), r), mident());
    ck.eq(&format!("{name}: det R = +1"), det(r), S::i(1));
    let rd = mvec(r, d);
    let len = Float::sqrt(vdot(d, d));
    ck.eq(&format!("{name}: (R d).x = 0"), rd[0], S::i(0));
    ck.eq(&format!("{name}: (R d).y = 0"), rd[1], S::i(0));
    match sign {
        1 => ck.eq(&format!("{name}: (R d).z = +|d|"), rd[2], len),
        -1 => ck.eq(&format!("{name}: (R d).z = -|d|"), rd[2], -len),
        _ => ck.eq(&format!("{name}: |(R d).z| = |d|"), Float::abs(rd[2]), len),
    }
    let ru = mvec(r, up);
    ck.eq(&format!("{name}: (R up).x = 0"), ru[0], S::i(0));
    ck.lt(&format!("{name}: (R up).y > 0"), S::i(0), ru[1]);
}

fn view<S: Sc>(case: &Case, ck: &mut Ck<S>) {
    view_impl(case, ck, false)
}
/// the entry points that go through a quaternion (irrational in general even
/// for exact frames), kept apart so that `view3` stays decidable exactly
fn view_quat<S: Sc>(case: &Case, ck: &mut Ck<S>) {
    view_impl(case, ck, true)
}

fn view_impl<S: Sc>(case: &Case, ck: &mut Ck<S>, quat: bool) {
    let mut rd = case.rd();
    let eye: V<S, 3> = rd.arr();
    let d: V<S, 3> = rd.arr();
    let up: V<S, 3> = rd.arr();
    let (pe, vd, vu) = (mk_p3(eye), mk_v3(d), mk_v3(up));
    let center = pe + vd;
    let z3 = [S::i(0); 3];

    // ---- right-handed family
    let m4_to_rh = Matrix4::look_to_rh(pe, vd, vu);
    let r_rh = top3(m4(m4_to_rh));
    check_rot(ck, "Matrix4::look_to_rh", r_rh, d, up, -1);
    ck.eqv("Matrix4::look_to_rh eye -> origin", p3(m4_to_rh.transform_point(pe)), z3);
    let bottom = m4(m4_to_rh);
    ck.eqv("Matrix4::look_to_rh bottom row", [bottom[0][3], bottom[1][3], bottom[2][3], bottom[3][3]], [S::i(0), S::i(0), S::i(0), S::i(1)]);
    if quat {
        let r_rh = top3(m4(Matrix4::look_to_rh(pe, vd, vu)));
        let r_lh = top3(m4(Matrix4::look_to_lh(pe, vd, vu)));
        type DQ<S> = Decomposed<Vector3<S>, Quaternion<S>>;
        let rh = <DQ<S> as Transform<Point3<S>>>::look_at_rh(pe, center, vu);
        let lh = <DQ<S> as Transform<Point3<S>>>::look_at_lh(pe, center, vu);
        let dep = <DQ<S> as Transform<Point3<S>>>::look_at(pe, center, vu);
        let rot = m3(Matrix3::from(<Quaternion<S> as Rotation>::look_at(vd, vu)));
        check_rot(ck, "Rotation::look_at for Quaternion", rot, d, up, 1);
        ck.eqm("Rotation::look_at for Quaternion agrees with Matrix4::look_to_lh", rot, r_lh);
        ck.eq("Rotation::look_at for Quaternion is unit", <Quaternion<S> as Rotation>::look_at(vd, vu).magnitude2(), S::i(1));
        let r = m3(Matrix3::from(rh.rot));
        check_rot(ck, "Transform::look_at_rh for Decomposed<Quaternion>", r, d, up, -1);
        ck.eqm("Decomposed<Quaternion>::look_at_rh agrees with Matrix4::look_to_rh", r, r_rh);
        ck.eqv("Decomposed<Quaternion>::look_at_rh eye -> origin", p3(rh.transform_point(pe)), z3);
        ck.eq("Decomposed<Quaternion>::look_at_rh scale", rh.scale, S::i(1));
        let r = m3(Matrix3::from(lh.rot));
        check_rot(ck, "Transform::look_at_lh for Decomposed<Quaternion>", r, d, up, 1);
        ck.eqm("Decomposed<Quaternion>::look_at_lh agrees with Matrix4::look_to_lh", r, r_lh);
        ck.eqv("Decomposed<Quaternion>::look_at_lh eye -> origin", p3(lh.transform_point(pe)), z3);
        check_rot(ck, "Transform::look_at for Decomposed<Quaternion>", m3(Matrix3::from(dep.rot)), d, up, 0);
        ck.eqv("Decomposed<Quaternion>::look_at eye -> origin", p3(dep.transform_point(pe)), z3);
        return;
    }
    let same_rh: [(&str, M<S, 3>); 7] = [
        ("Matrix4::look_at_rh", top3(m4(Matrix4::look_at_rh(pe, center, vu)))),
        ("Matrix4::look_at (deprecated, rh)", top3(m4(Matrix4::look_at(pe, center, vu)))),
        ("Matrix4::look_at_dir (deprecated, rh)", top3(m4(Matrix4::look_at_dir(pe, vd, vu)))),
        ("Matrix3::look_to_rh", m3(Matrix3::look_to_rh(vd, vu))),
        ("Transform::look_at_rh for Matrix4", top3(m4(<Matrix4<S> as Transform<Point3<S>>>::look_at_rh(pe, center, vu)))),
        ("Transform::look_at_rh for Matrix3", m3(<Matrix3<S> as Transform<Point3<S>>>::look_at_rh(pe, center, vu))),
        (
            "Transform::look_at_rh for Decomposed<Basis3>",
            m3(Matrix3::from(<Decomposed<Vector3<S>, Basis3<S>> as Transform<Point3<S>>>::look_at_rh(pe, center, vu).rot)),
        ),
    ];
    for (name, r) in same_rh.iter() {
        check_rot(ck, name, *r, d, up, -1);
        ck.eqm(&format!("{name} agrees with Matrix4::look_to_rh"), *r, r_rh);
    }
    ck.eqm("look_at_rh(eye,c,up) = look_to_rh(eye,c-eye,up)", m4(Matrix4::look_at_rh(pe, center, vu)), m4(Matrix4::look_to_rh(pe, center - pe, vu)));
    ck.eqv("Matrix4::look_at_rh eye -> origin", p3(Matrix4::look_at_rh(pe, center, vu).transform_point(pe)), z3);
    ck.eqv("Matrix4::look_at_dir eye -> origin", p3(Matrix4::look_at_dir(pe, vd, vu).transform_point(pe)), z3);
    let db: Decomposed<Vector3<S>, Basis3<S>> = Transform::look_at_rh(pe, center, vu);
    ck.eqv("Decomposed<Basis3>::look_at_rh eye -> origin", p3(db.transform_point(pe)), z3);
    ck.eq("Decomposed<Basis3>::look_at_rh scale", db.scale, S::i(1));

    // ---- left-handed family
    let m4_to_lh = Matrix4::look_to_lh(pe, vd, vu);
    let r_lh = top3(m4(m4_to_lh));
    check_rot(ck, "Matrix4::look_to_lh", r_lh, d, up, 1);
    ck.eqv("Matrix4::look_to_lh eye -> origin", p3(m4_to_lh.transform_point(pe)), z3);
    let same_lh: [(&str, M<S, 3>); 7] = [
        ("Matrix4::look_at_lh", top3(m4(Matrix4::look_at_lh(pe, center, vu)))),
        ("Matrix3::look_to_lh", m3(Matrix3::look_to_lh(vd, vu))),
        ("Matrix3::look_at (deprecated, lh)", m3(Matrix3::look_at(vd, vu))),
        ("Rotation::look_at for Basis3", m3(Matrix3::from(<Basis3<S> as Rotation>::look_at(vd, vu)))),
        ("Transform::look_at_lh for Matrix4", top3(m4(<Matrix4<S> as Transform<Point3<S>>>::look_at_lh(pe, center, vu)))),
        ("Transform::look_at_lh for Matrix3", m3(<Matrix3<S> as Transform<Point3<S>>>::look_at_lh(pe, center, vu))),
        (
            "Transform::look_at_lh for Decomposed<Basis3>",
            m3(Matrix3::from(<Decomposed<Vector3<S>, Basis3<S>> as Transform<Point3<S>>>::look_at_lh(pe, center, vu).rot)),
        ),
    ];
    for (name, r) in same_lh.iter() {
        check_rot(ck, name, *r, d, up, 1);
        ck.eqm(&format!("{name} agrees with Matrix4::look_to_lh"), *r, r_lh);
    }
    ck.eqm("look_at_lh(eye,c,up) = look_to_lh(eye,c-eye,up)", m4(Matrix4::look_at_lh(pe, center, vu)), m4(Matrix4::look_to_lh(pe, center - pe, vu)));
    ck.eqv("Matrix4::look_at_lh eye -> origin", p3(Matrix4::look_at_lh(pe, center, vu).transform_point(pe)), z3);
    let db: Decomposed<Vector3<S>, Basis3<S>> = Transform::look_at_lh(pe, center, vu);
    ck.eqv("Decomposed<Basis3>::look_at_lh eye -> origin", p3(db.transform_point(pe)), z3);

    // ---- deprecated Transform::look_at: no handedness stated, either sign accepted
    let any: [(&str, M<S, 3>); 3] = [
        ("Transform::look_at for Matrix4", top3(m4(<Matrix4<S> as Transform<Point3<S>>>::look_at(pe, center, vu)))),
        ("Transform::look_at for Matrix3", m3(<Matrix3<S> as Transform<Point3<S>>>::look_at(pe, center, vu))),
        (
            "Transform::look_at for Decomposed<Basis3>",
            m3(Matrix3::from(<Decomposed<Vector3<S>, Basis3<S>> as Transform<Point3<S>>>::look_at(pe, center, vu).rot)),
        ),
    ];
    for (name, r) in any.iter() {
        check_rot(ck, name, *r, d, up, 0);
    }
    let db: Decomposed<Vector3<S>, Basis3<S>> = Transform::look_at(pe, center, vu);
    ck.eqv("Decomposed<Basis3>::look_at eye -> origin", p3(db.transform_point(pe)), z3);
    ck.eqv(
        "Transform::look_at for Matrix4 eye -> origin",
        p3(<Matrix4<S> as Transform<Point3<S>>>::look_at(pe, center, vu).transform_point(pe)),
        z3,
    );
    ck.note("look_to_rh", &m4_to_rh);
}

// ---------------------------------------------------------------- 2-D

fn g_view2(rng: &mut Rng, tier: Tier) -> Case {
    let mut c = Case::new();
    let eye = gen::distinct_rats(rng, tier, 2);
    if rng.chance(2, 3) {
        c.class = 0;
        let t = rng.pick(&[(3i64, 4i64), (5, 12), (8, 15), (7, 24), (20, 21), (4, 3), (12, 5), (1, 0), (0, 1), (15, 8)]);
        let k = Rat::new(rng.range(1, 6), rng.pick(&[1, 2, 3]));
        let (sx, sy) = (if rng.bool() { 1 } else { -1 }, if rng.bool() { 1 } else { -1 });
        c.push_r(&eye).push_r(&[rmul(k, Rat::int(t.0 * sx)), rmul(k, Rat::int(t.1 * sy))]);
    } else {
        c.class = 1;
        c.push_r(&eye).push_r(&gen::distinct_rats(rng, tier, 2));
    }
    // up: arbitrary, sometimes parallel to dir or zero-crossing
    let up = match rng.below(8) {
        0 => vec![Rat::int(0), Rat::int(1)],
        1 => vec![c.r[2], c.r[3]],
        _ => gen::distinct_rats(rng, tier, 2),
    };
    c.push_r(&up);
    c.push_k(&[rng.bool() as i64]);
    c.nontrivial = !c.r[2].is_zero() && !c.r[3].is_zero();
    c
}

fn check_rot2<S: Sc>(ck: &mut Ck<S>, name: &str, m: M<S, 2>, d: V<S, 2>, up: Option<V<S, 2>>, sign: i32) {
    ck.eqm(&format!("{name}: columns orthonormal"), mmul(mtrans(m), m), mident());
    let len = Float::sqrt(vdot(d, d));
    let unit = [d[0] / len, d[1] / len];
    match sign {
        1 => ck.eqv(&format!("{name}: first column = d/|d|"), m[0], unit),
        -1 => ck.eqv(&format!("{name}: first column = -d/|d|"), m[0], vneg(unit)),
        _ => {
            ck.eq(&format!("{name}: first column parallel to d"), m[0][0] * d[1] - m[0][1] * d[0], S::i(0));
        }
    }
    if let Some(up) = up {
        ck.le(&format!("{name}: second column on the side of up"), S::i(0), vdot(m[1], up));
    }
}

fn view2<S: Sc>(case: &Case, ck: &mut Ck<S>) {
    let mut rd = case.rd();
    let eye: V<S, 2> = rd.arr();
    let d: V<S, 2> = rd.arr();
    let up: V<S, 2> = rd.arr();
    let flip = rd.k() == 1;
    let (pe, vd, vu) = (mk_p2(eye), mk_v2(d), mk_v2(up));
    let center = pe + vd;
    check_rot2(ck, "Matrix2::look_at", m2(Matrix2::look_at(vd, vu)), d, Some(up), 1);
    check_rot2(ck, "Basis2::look_at", m2(Matrix2::from(<Basis2<S> as Rotation>::look_at(vd, vu))), d, Some(up), 1);
    check_rot2(ck, "Matrix2::look_at_stable", m2(Matrix2::look_at_stable(vd, flip)), d, None, 1);
    check_rot2(ck, "Basis2::look_at_stable", m2(Matrix2::from(Basis2::look_at_stable(vd, flip))), d, None, 1);
    ck.eqm("Basis2::look_at = Matrix2::look_at", m2(Matrix2::from(<Basis2<S> as Rotation>::look_at(vd, vu))), m2(Matrix2::look_at(vd, vu)));
    // look_at_stable(flip=false) is a proper rotation, flip=true its mirror image
    ck.eq("look_at_stable det", Matrix2::look_at_stable(vd, flip).determinant(), if flip { S::i(-1) } else { S::i(1) });
    // 2-D Transform wrappers: first column +-(center-eye)/|center-eye|, second on the side of up
    let top2 = |m: Matrix3<S>| -> M<S, 2> { [[m.x.x, m.x.y], [m.y.x, m.y.y]] };
    let w3: [(&str, Matrix3<S>, i32); 3] = [
        ("Transform<Point2>::look_at for Matrix3", <Matrix3<S> as Transform<Point2<S>>>::look_at(pe, center, vu), 0),
        ("Transform<Point2>::look_at_lh for Matrix3", <Matrix3<S> as Transform<Point2<S>>>::look_at_lh(pe, center, vu), 0),
        ("Transform<Point2>::look_at_rh for Matrix3", <Matrix3<S> as Transform<Point2<S>>>::look_at_rh(pe, center, vu), 0),
    ];
    for (name, m, sign) in w3.iter() {
        check_rot2(ck, name, top2(*m), d, Some(up), *sign);
        let mm = m3(*m);
        ck.eqv(&format!("{name}: third column"), mm[2], [S::i(0), S::i(0), S::i(1)]);
        ck.eq(&format!("{name}: bottom row"), mm[0][2] + mm[1][2], S::i(0));
    }
    type D2<S> = Decomposed<Vector2<S>, Basis2<S>>;
    let wd: [(&str, D2<S>); 3] = [
        ("Decomposed2::look_at", <D2<S> as Transform<Point2<S>>>::look_at(pe, center, vu)),
        ("Decomposed2::look_at_lh", <D2<S> as Transform<Point2<S>>>::look_at_lh(pe, center, vu)),
        ("Decomposed2::look_at_rh", <D2<S> as Transform<Point2<S>>>::look_at_rh(pe, center, vu)),
    ];
    for (name, t) in wd.iter() {
        check_rot2(ck, name, m2(Matrix2::from(t.rot)), d, Some(up), 0);
        ck.eq(&format!("{name}: scale 1"), t.scale, S::i(1));
        ck.eqv(&format!("{name}: eye -> origin"), p2(t.transform_point(pe)), [S::i(0), S::i(0)]);
    }
}

const EP3: &[&str] = &[
    "Matrix4::{look_to_rh,look_to_lh,look_at_rh,look_at_lh,look_at,look_at_dir}",
    "Matrix3::{look_to_lh,look_to_rh,look_at}",
    "Transform::{look_at_rh,look_at_lh,look_at} for Matrix4, Matrix3, Decomposed<Quaternion>, Decomposed<Basis3>",
    "Rotation::look_at for Quaternion, Basis3",
];
const EP2: &[&str] = &[
    "Matrix2::{look_at,look_at_stable}",
    "Basis2::{look_at,look_at_stable}",
    "Transform<Point2>::{look_at,look_at_lh,look_at_rh} for Matrix3, Decomposed<Basis2>",
];

pub fn clauses() -> Vec<Clause> {
    vec![
        clause!("view3", EP3, g_view, view, weight = 1.5, classes = 2),
        clause!("view3_quaternion", EP3, g_view, view_quat, weight = 1.0, classes = 2),
        clause!("view2", EP2, g_view2, view2, weight = 1.0, classes = 2),
    ]
}

pub const RULE: &str = "3-D: class 0 exact configurations (dir = a*f, up = k(b*u + c*f + e*s) for an exact rational orthonormal frame (s,u,f) from a unit rational quaternion and Pythagorean (b,e), so every normalisation is a rational square root and the exact engine decides); class 1 arbitrary rational eye/dir/up with |dir x up| >= 0.05|dir||up| decided by enclosures. 2-D: Pythagorean (class 0) or arbitrary (class 1) directions, arbitrary up including parallel to dir. Non-trivial = direction with all components non-zero; distinct = distinct input tuples.";
pub const ASSUME: &[&str] = &[
    "the expected rotation is characterised only by the statement's conditions (rigid, det +1, d -> -+z, up -> x = 0, y > 0), which determine it uniquely",
    "deprecated Transform::look_at and the 2-D Transform wrappers state no handedness: either sign of the viewing axis is accepted",
];
