//! C13 — Rad / Deg: conversion, normalisation, trigonometry (DESIGN §C13).

use cgmath::prelude::*;
use cgmath::{Deg, Rad};
use num_traits::Float;
use serde_json::json;

use cgv_core::fw::{Case, Clause, Extra, RunCfg};
use cgv_core::gen::{self, Rng, Tier};
use cgv_core::iv::Tri;
use cgv_core::sc::{Ck, Rat, Sc};
use cgv_core::{clause, clause_iv};

const TAU: f64 = 2.0 * std::f64::consts::PI;

/// angle = turn * (n/d) + r, with d in {1,2,3,4,6,8,12}: exact multiples and
/// simple fractions of a turn are frequent, plus an arbitrary rational offset
fn gen_angle_parts(rng: &mut Rng, tier: Tier) -> [Rat; 2] {
    let d = rng.pick(&[1i64, 1, 2, 3, 4, 6, 8, 12]);
    let frac = Rat::new(rng.range(-3 * d, 3 * d), d);
    let r = match rng.below(6) {
        0 | 1 => Rat::int(0),
        2 => Rat::new(if rng.bool() { 1 } else { -1 }, 10i64.pow(rng.range(3, 12) as u32)),
        _ => gen::small_rat(rng, tier),
    };
    [frac, r]
}

fn g_mod(rng: &mut Rng, tier: Tier) -> Case {
    let mut c = Case::new();
    let a = gen_angle_parts(rng, tier);
    let b = gen_angle_parts(rng, tier);
    c.push_r(&a).push_r(&b);
    c.push_r(&[gen::nz_rat(rng, tier)]);
    let k = rng.range(0, 6);
    c.push_k(&[k]);
    for _ in 0..k {
        c.push_r(&gen_angle_parts(rng, tier));
    }
    c.nontrivial = !a[1].is_zero() && !b[1].is_zero() && a != b;
    c
}

macro_rules! modular {
    ($name:ident, $A:ident, $turn:expr) => {
        fn $name<S: Sc>(case: &Case, ck: &mut Ck<S>) {
            let mut rd = case.rd();
            let turn: S = $turn;
            let half = turn / S::i(2);
            let quarter = turn / S::i(4);
            let mut angle = |rd: &mut cgv_core::fw::Rd| -> S {
                let f: S = rd.s();
                let r: S = rd.s();
                turn * f + r
            };
            let a = angle(&mut rd);
            let b = angle(&mut rd);
            let s: S = rd.s();
            let (aa, ab) = ($A(a), $A(b));
            let zero = S::i(0);
            // constants
            ck.eq("full_turn", $A::<S>::full_turn().0, turn);
            ck.eq("turn_div_2 * 2", $A::<S>::turn_div_2().0 * S::i(2), turn);
            ck.eq("turn_div_3 * 3", $A::<S>::turn_div_3().0 * S::i(3), turn);
            ck.eq("turn_div_4 * 4", $A::<S>::turn_div_4().0 * S::i(4), turn);
            ck.eq("turn_div_6 * 6", $A::<S>::turn_div_6().0 * S::i(6), turn);
            // normalize
            let n = aa.normalize().0;
            ck.le("0 <= normalize(a)", zero, n);
            ck.le("normalize(a) <= full turn", n, turn);
            ck.truth("normalize(a) - a is a whole number of turns", ((n - a) / turn).is_int() != Tri::False);
            let ns = aa.normalize_signed().0;
            ck.le("-half <= normalize_signed(a)", -half, ns);
            ck.le("normalize_signed(a) <= half", ns, half);
            ck.truth("normalize_signed(a) - a is a whole number of turns", ((ns - a) / turn).is_int() != Tri::False);
            // opposite
            ck.eq("opposite(a) = normalize(a + half turn)", aa.opposite().0, $A(a + half).normalize().0);
            ck.truth("opposite(a) - a - half is a whole number of turns", ((aa.opposite().0 - a - half) / turn).is_int() != Tri::False);
            // bisect: equal signed distance to both, at most a quarter turn from each
            let m = aa.bisect(ab);
            let da = (m - aa).normalize_signed().0;
            let db = (m - ab).normalize_signed().0;
            ck.eq("bisect: signed distance to a = -(signed distance to b)", da, -db);
            ck.le("bisect: |distance to a| <= quarter turn", Float::abs(da), quarter);
            ck.le("bisect: |distance to b| <= quarter turn", Float::abs(db), quarter);
            ck.eq("bisect(a,a) = normalize(a)", aa.bisect(aa).0, n);
            // arithmetic acts on the underlying number
            ck.eq("a + b", (aa + ab).0, a + b);
            ck.eq("a - b", (aa - ab).0, a - b);
            ck.eq("-a", (-aa).0, -a);
            ck.eq("a * s", (aa * s).0, a * s);
            ck.eq("a / s", (aa / s).0, a / s);
            if S::t_eq(&b, &zero) == Tri::False {
                ck.eq("a / b", aa / ab, a / b);
                ck.eq("a % b", (aa % ab).0, a % b);
                let mut t = aa;
                t %= ab;
                ck.eq("a %= b", t.0, a % b);
            }
            let mut t = aa;
            t += ab;
            ck.eq("a += b", t.0, a + b);
            let mut t = aa;
            t -= ab;
            ck.eq("a -= b", t.0, a - b);
            let mut t = aa;
            t *= s;
            ck.eq("a *= s", t.0, a * s);
            let mut t = aa;
            t /= s;
            ck.eq("a /= s", t.0, a / s);
            ck.eq("zero", $A::<S>::zero().0, zero);
            let k = rd.k();
            let mut list = vec![];
            let mut acc = zero;
            for _ in 0..k {
                let x = angle(&mut rd);
                acc = acc + x;
                list.push($A(x));
            }
            let sum: $A<S> = list.iter().sum();
            ck.eq("Sum over references", sum.0, acc);
            let sum: $A<S> = list.into_iter().sum();
            ck.eq("Sum over values", sum.0, acc);
            ck.note("a", &aa);
            ck.note("bisect(a,b)", &m);
        }
    };
}

modular!(modular_rad, Rad, S::f(TAU));
modular!(modular_deg, Deg, S::i(360));

// ---------------------------------------------------------------- conversion (exact constants)

fn g_conv(rng: &mut Rng, tier: Tier) -> Case {
    let mut c = Case::new();
    c.push_r(&[gen::small_rat(rng, tier)]);
    c.nontrivial = !c.r[0].is_zero();
    c
}
fn convert<S: Sc>(case: &Case, ck: &mut Ck<S>) {
    let x: S = case.rd().s();
    // the conversion multiplies by the f64 constants the property's "2 pi rad = 360 deg" denotes
    let d: Deg<S> = Rad(x).into();
    let r: Rad<S> = Deg(x).into();
    ck.eq("Deg::from(Rad(x)) = x * 180/pi", d.0, (x * S::i(180) / S::pi()).widen(4));
    ck.eq("Rad::from(Deg(x)) = x * pi/180", r.0, (x * S::pi() / S::i(180)).widen(4));
    let half: Deg<S> = Rad::<S>::turn_div_2().into();
    ck.eq("half turn in degrees", half.0, S::i(180).widen(4));
    let full: Rad<S> = Deg::<S>::full_turn().into();
    ck.eq("full turn in radians", full.0, (S::pi() * S::i(2)).widen(4));
}

// ---------------------------------------------------------------- trigonometry (interval engine)

fn g_trig(rng: &mut Rng, _tier: Tier) -> Case {
    let mut c = Case::new();
    let deg = rng.bool();
    let x = if deg {
        match rng.below(8) {
            0 => rng.pick(&[0.0, 30.0, 45.0, 60.0, 90.0, 180.0, 270.0, 360.0, -90.0, -180.0]),
            _ => rng.dyadic(-720.0, 720.0),
        }
    } else {
        gen::angle(rng)
    };
    // atan2 arguments: ordinary magnitudes, or (one case in three) a common tiny / huge
    // scale 10^-30..10^30 with an ordinary ratio -- atan2 depends on the ratio only
    let (ya, xa) = if rng.chance(1, 3) {
        let sc = 10f64.powf(rng.uniform(-30.0, 30.0));
        (rng.log_uniform(-1.0, 1.0) * sc, rng.log_uniform(-1.0, 1.0) * sc)
    } else {
        (rng.log_uniform(-3.0, 3.0), rng.log_uniform(-3.0, 3.0))
    };
    c.push_f(&[x, rng.dyadic(-1.0, 1.0), ya, xa]);
    c.push_k(&[deg as i64]);
    c.nontrivial = x != 0.0;
    c
}
fn trig<S: Sc>(case: &Case, ck: &mut Ck<S>) {
    let mut rd = case.rd();
    let x: S = rd.x();
    let ratio: S = rd.x();
    let (ya, xa): (S, S) = (rd.x(), rd.x());
    let deg = rd.k() == 1;
    let to_unit = |r: S| if deg { (r * S::i(180) / S::pi()).widen(4) } else { r };
    let t = if deg { (x * S::pi() / S::i(180)).widen(2) } else { x };
    let (s, c) = (Float::sin(t), Float::cos(t));
    macro_rules! fwd {
        ($A:ident) => {{
            let a = $A(x);
            ck.eq("sin", a.sin(), s);
            ck.eq("cos", a.cos(), c);
            let (ss, cc) = a.sin_cos();
            ck.eq("sin_cos.0", ss, s);
            ck.eq("sin_cos.1", cc, c);
            // only where the function is finite with margin
            let away = |v: S| S::t_lt(&S::frac(1, 1000), &Float::abs(v)) == Tri::True;
            if away(c) {
                ck.eq("tan", a.tan(), s / c);
                ck.eq("sec", a.sec(), S::i(1) / c);
            }
            if away(s) {
                ck.eq("csc", a.csc(), S::i(1) / s);
                if away(c) {
                    ck.eq("cot", a.cot(), c / s);
                }
            }
            ck.eq("asin", $A::<S>::asin(ratio).0, to_unit(Float::asin(ratio)));
            ck.eq("acos", $A::<S>::acos(ratio).0, to_unit(Float::acos(ratio)));
            ck.eq("atan", $A::<S>::atan(ya).0, to_unit(Float::atan(ya)));
            ck.eq("atan2", $A::<S>::atan2(ya, xa).0, to_unit(Float::atan2(ya, xa)));
            // the inverse really inverts, in the caller's unit
            ck.eq("sin(asin(r)) = r", $A::<S>::asin(ratio).sin(), ratio);
            ck.eq("cos(acos(r)) = r", $A::<S>::acos(ratio).cos(), ratio);
            ck.eq("tan(atan(y)) = y", $A::<S>::atan(ya).tan(), ya);
            // atan2(y,x) points along (x,y)
            let ang = $A::<S>::atan2(ya, xa);
            ck.eq("atan2 direction", ang.sin() * xa, ang.cos() * ya);
            ck.lt("atan2 half-plane", S::i(0), ang.cos() * xa + ang.sin() * ya);
        }};
    }
    if deg {
        fwd!(Deg)
    } else {
        fwd!(Rad)
    }
}

// ---------------------------------------------------------------- native f32 / f64

trait Nat: cgmath::BaseFloat + std::fmt::Debug + Send + Sync + 'static {
    const EPS: f64;
    const NAME: &'static str;
    fn to64(self) -> f64;
    fn from64(x: f64) -> Self;
    fn next_up_n(self) -> Self;
}
impl Nat for f32 {
    const EPS: f64 = f32::EPSILON as f64;
    const NAME: &'static str = "f32";
    fn to64(self) -> f64 {
        self as f64
    }
    fn from64(x: f64) -> f32 {
        x as f32
    }
    fn next_up_n(self) -> f32 {
        f32::from_bits(if self >= 0.0 { self.to_bits() + 1 } else { self.to_bits() - 1 })
    }
}
impl Nat for f64 {
    const EPS: f64 = f64::EPSILON;
    const NAME: &'static str = "f64";
    fn to64(self) -> f64 {
        self
    }
    fn from64(x: f64) -> f64 {
        x
    }
    fn next_up_n(self) -> f64 {
        cgv_core::q::next_up(self)
    }
}

fn range_check<T: Nat>(x: T) -> Option<String> {
    // Rad
    let full = Rad::<T>::full_turn().0;
    let half = Rad::<T>::turn_div_2().0;
    let n = Rad(x).normalize().0;
    if !(n >= T::zero() && n <= full) {
        return Some(format!("Rad({x:?}).normalize() = {n:?} outside [0, {full:?}]"));
    }
    let s = Rad(x).normalize_signed().0;
    if !(s >= -half && s <= half) {
        return Some(format!("Rad({x:?}).normalize_signed() = {s:?} outside [-{half:?}, {half:?}]"));
    }
    let full = Deg::<T>::full_turn().0;
    let half = Deg::<T>::turn_div_2().0;
    let n = Deg(x).normalize().0;
    if !(n >= T::zero() && n <= full) {
        return Some(format!("Deg({x:?}).normalize() = {n:?} outside [0, {full:?}]"));
    }
    let s = Deg(x).normalize_signed().0;
    if !(s >= -half && s <= half) {
        return Some(format!("Deg({x:?}).normalize_signed() = {s:?} outside [-{half:?}, {half:?}]"));
    }
    let o = Deg(x).opposite().0;
    if !(o >= T::zero() && o <= full) && (x.to64().abs() < 1e30) {
        return Some(format!("Deg({x:?}).opposite() = {o:?} outside [0, {full:?}]"));
    }
    None
}

fn native_one<T: Nat>(cfg: &RunCfg, extra: &mut Extra, lo_exp: i32, hi_exp: i32) {
    let n = if cfg.tier == Tier::Quick { 20_000 } else { 2_000_000 };
    let mut worst_rt = 0f64;
    let mut seen = std::collections::HashSet::new();
    let tag = T::NAME;
    // constants
    let two_pi = T::from64(TAU);
    let ft = Rad::<T>::full_turn().0;
    let mut fail = |clause: &str, msg: String, payload: serde_json::Value, extra: &mut Extra| {
        extra.violations.push((format!("native_{tag}_{clause}"), msg, payload));
    };
    if !(ft == two_pi || ft == two_pi.next_up_n() || ft.next_up_n() == two_pi) {
        fail("constants", format!("Rad::full_turn() = {ft:?}, not within 1 ulp of 2pi = {two_pi:?}"), json!({}), extra);
    }
    if Deg::<T>::full_turn().0 != T::from64(360.0) {
        fail("constants", format!("Deg::full_turn() = {:?} != 360", Deg::<T>::full_turn().0), json!({}), extra);
    }
    for (k, v) in [
        (2.0, Rad::<T>::turn_div_2().0),
        (3.0, Rad::<T>::turn_div_3().0),
        (4.0, Rad::<T>::turn_div_4().0),
        (6.0, Rad::<T>::turn_div_6().0),
    ] {
        let back = (v * T::from64(k)).to64();
        if ((back - ft.to64()) / ft.to64()).abs() > 2.0 * T::EPS {
            fail("constants", format!("Rad::turn_div_{k}() * {k} = {back:?}, more than 2 ulp from full_turn {ft:?}"), json!({}), extra);
        }
    }
    for (k, v) in [
        (2.0, Deg::<T>::turn_div_2().0),
        (3.0, Deg::<T>::turn_div_3().0),
        (4.0, Deg::<T>::turn_div_4().0),
        (6.0, Deg::<T>::turn_div_6().0),
    ] {
        if v.to64() != 360.0 / k {
            fail("constants", format!("Deg::turn_div_{k}() = {v:?} != {}", 360.0 / k), json!({}), extra);
        }
    }
    let mut evals = 0u64;
    for i in 0..n {
        let mut rng = Rng::for_case(cfg.seed, if tag == "f32" { "c13_native_f32" } else { "c13_native_f64" }, i);
        // round trip on the normal range: log-uniform magnitude
        let e = rng.uniform(lo_exp as f64, hi_exp as f64);
        let x = T::from64(2f64.powf(e) * if rng.bool() { 1.0 } else { -1.0 } * rng.uniform(1.0, 2.0));
        evals += 1;
        let back: Rad<T> = Deg::from(Rad(x)).into();
        let rel = ((back.0.to64() - x.to64()) / x.to64()).abs();
        worst_rt = worst_rt.max(rel / T::EPS);
        if !(rel <= 4.0 * T::EPS) {
            fail("roundtrip", format!("Rad({x:?}) -> Deg -> Rad = {:?}: relative error {:.2} eps", back.0, rel / T::EPS), json!({"x": x.to64()}), extra);
            break;
        }
        let back: Deg<T> = Rad::from(Deg(x)).into();
        let rel = ((back.0.to64() - x.to64()) / x.to64()).abs();
        // degrees shrink on the way to radians, so this direction has no overflow
        // anywhere below MAX/2: probe the top of the range as well
        {
            let top = <T as Float>::max_value() * T::from64(rng.uniform(0.01, 0.49)) * T::from64(if rng.bool() { 1.0 } else { -1.0 });
            let r: Rad<T> = Deg(top).into();
            let b2: Deg<T> = r.into();
            let rel2 = ((b2.0.to64() - top.to64()) / top.to64()).abs();
            if !(rel2 <= 4.0 * T::EPS) || !r.0.is_finite() {
                fail("roundtrip", format!("Deg({top:?}) -> Rad = {:?} -> Deg = {:?}: not within 4 eps near the top of the range", r.0, b2.0), json!({"x": top.to64()}), extra);
                break;
            }
        }
        worst_rt = worst_rt.max(rel / T::EPS);
        if !(rel <= 4.0 * T::EPS) {
            fail("roundtrip", format!("Deg({x:?}) -> Rad -> Deg = {:?}: relative error {:.2} eps", back.0, rel / T::EPS), json!({"x": x.to64()}), extra);
            break;
        }
        // range membership: random and adversarial values
        let y = match rng.below(10) {
            0 => T::from64(-2f64.powi(-(rng.range(1, 140) as i32))),
            1 => T::from64(rng.range(-20, 20) as f64 * 360.0),
            2 => T::from64(rng.range(-20, 20) as f64 * TAU),
            3 => T::from64(rng.range(-20, 20) as f64 * 180.0),
            4 => {
                if rng.bool() {
                    <T as Float>::max_value()
                } else {
                    -<T as Float>::max_value()
                }
            }
            5 => T::from64(rng.range(-8, 8) as f64 * std::f64::consts::PI).next_up_n(),
            6 => T::from64(0.0),
            _ => x,
        };
        if let Some(msg) = range_check(y) {
            fail("range", msg, json!({"x": y.to64()}), extra);
            break;
        }
        seen.insert(x.to64().to_bits());
        if i < 2 {
            extra.samples.push(json!({"clause": format!("native_{tag}"), "x": x.to64(), "rad->deg->rad": back.0.to64(),
                "normalize(Rad(y))": Rad(y).normalize().0.to64(), "y": y.to64()}));
        }
    }
    // arithmetic on angles IS arithmetic on the underlying number: bitwise, every spelling
    for i in 0..n.min(20_000) {
        let mut rng = Rng::for_case(cfg.seed, if tag == "f32" { "c13_arith_f32" } else { "c13_arith_f64" }, i);
        let x = T::from64(rng.uniform(-800.0, 800.0));
        let y = T::from64(rng.uniform(0.1, 800.0) * if rng.bool() { 1.0 } else { -1.0 });
        let s = T::from64(match rng.below(4) {
            0 => rng.pick(&[3.0, 10.0, 49.0, 7.0, 0.1]),
            _ => rng.uniform(0.05, 50.0),
        });
        evals += 1;
        let bits = |v: T| v.to64().to_bits();
        macro_rules! both_units {
            ($A:ident) => {{
                let (a, b) = ($A(x), $A(y));
                let mut bad: Option<&str> = None;
                let mut chk = |name: &'static str, got: T, exp: T| {
                    if bits(got) != bits(exp) && bad.is_none() {
                        bad = Some(name);
                    }
                };
                chk("a + b", (a + b).0, x + y);
                chk("&a + &b", (&a + &b).0, x + y);
                chk("a - b", (a - b).0, x - y);
                chk("a * s", (a * s).0, x * s);
                chk("&a * s", (&a * s).0, x * s);
                chk("a / s", (a / s).0, x / s);
                chk("&a / s", (&a / s).0, x / s);
                chk("a / b", a / b, x / y);
                chk("a % b", (a % b).0, x % y);
                chk("-a", (-a).0, -x);
                let mut t = a;
                t += b;
                chk("a += b", t.0, x + y);
                let mut t = a;
                t -= b;
                chk("a -= b", t.0, x - y);
                let mut t = a;
                t *= s;
                chk("a *= s", t.0, x * s);
                let mut t = a;
                t /= s;
                chk("a /= s", t.0, x / s);
                let mut t = a;
                t %= b;
                chk("a %= b", t.0, x % y);
                let sum: $A<T> = [a, b, a].iter().sum();
                chk("Sum", sum.0, T::from64(0.0) + x + y + x);
                chk("-&a", (-&a).0, -x);
                chk("&a - &b", (&a - &b).0, x - y);
                chk("&a % &b", (&a % &b).0, x % y);
                // Sum is the left fold from zero whatever the iterator: by value, through adaptors
                // whose size hint has lower bound 0, and over a list longer than any block size
                let list = [a, b, a, b, b];
                let want = T::from64(0.0) + x + y + x + y + y;
                let v: $A<T> = list.iter().cloned().sum();
                chk("Sum over values", v.0, want);
                let v: $A<T> = list.iter().filter(|_| true).sum();
                chk("Sum over references through filter", v.0, want);
                let v: $A<T> = list.iter().cloned().skip_while(|_| false).sum();
                chk("Sum over values through skip_while", v.0, want);
                let mut k = 0usize;
                let v: $A<T> = std::iter::from_fn(|| { let r = list.get(k).cloned(); k += 1; r }).sum();
                chk("Sum over values from from_fn", v.0, want);
                let v: $A<T> = list.iter().filter(|t| t.0 > T::from64(0.0)).sum();
                let mut w = T::from64(0.0);
                for t in list.iter() { if t.0 > T::from64(0.0) { w = w + t.0; } }
                chk("Sum over the positive angles only", v.0, w);
                if i % 64 == 0 {
                    let long: Vec<$A<T>> = (0..300).map(|j| if j % 3 == 0 { a } else { b }).collect();
                    let mut w = T::from64(0.0);
                    for t in long.iter() { w = w + t.0; }
                    let v: $A<T> = long.iter().sum();
                    chk("Sum over 300 references", v.0, w);
                    let v: $A<T> = long.iter().cloned().sum();
                    chk("Sum over 300 values", v.0, w);
                }
                bad
            }};
        }
        let bad = both_units!(Rad).or(both_units!(Deg));
        if let Some(name) = bad {
            fail("arithmetic", format!("{name} on angles {x:?}, {y:?}, scalar {s:?} does not equal the operation on the underlying numbers (bitwise)"), json!({"x": x.to64(), "y": y.to64(), "s": s.to64()}), extra);
            break;
        }
    }
    // +-0 round trip exactly
    let z: Rad<T> = Deg::from(Rad(T::from64(0.0))).into();
    if z.0 != T::from64(0.0) {
        fail("roundtrip", "0 does not round trip".into(), json!({}), extra);
    }
    extra.evaluations += evals;
    extra.distinct_nontrivial += seen.len() as u64;
    extra.sections.insert(
        format!("native_{tag}"),
        json!({"cases": evals, "worst_round_trip_error_in_eps": worst_rt, "round_trip_domain": format!("2^{lo_exp} .. 2^{hi_exp}")}),
    );
}

/// every finite f32 bit pattern through normalize / normalize_signed of both units
fn exhaustive_f32(cfg: &RunCfg, extra: &mut Extra) {
    let threads = cfg.threads.max(1) as u64;
    let t0 = std::time::Instant::now();
    let results: Vec<(u64, Option<(u32, String)>)> = std::thread::scope(|s| {
        let hs: Vec<_> = (0..threads)
            .map(|k| {
                s.spawn(move || {
                    let mut n = 0u64;
                    let mut bits = k;
                    while bits <= u32::MAX as u64 {
                        let x = f32::from_bits(bits as u32);
                        if x.is_finite() {
                            n += 1;
                            if let Some(m) = range_check(x) {
                                return (n, Some((bits as u32, m)));
                            }
                        }
                        bits += threads;
                    }
                    (n, None)
                })
            })
            .collect();
        hs.into_iter().map(|h| h.join().unwrap()).collect()
    });
    let total: u64 = results.iter().map(|r| r.0).sum();
    for (_, bad) in &results {
        if let Some((bits, msg)) = bad {
            extra.violations.push(("native_f32_range_exhaustive".into(), msg.clone(), json!({"bits": bits})));
            break;
        }
    }
    extra.evaluations += total;
    extra.sections.insert(
        "exhaustive_f32_range_membership".into(),
        json!({"finite_bit_patterns": total, "exhaustive": true, "wall_s": t0.elapsed().as_secs_f64(),
               "functions": ["Rad::normalize", "Rad::normalize_signed", "Deg::normalize", "Deg::normalize_signed", "Deg::opposite"]}),
    );
    extra.exhaustive = Some(false); // only this sub-clause is exhaustive, not the property
}

pub fn native(cfg: &RunCfg, extra: &mut Extra) {
    native_one::<f32>(cfg, extra, -100, 100);
    native_one::<f64>(cfg, extra, -1000, 1000);
    if cfg.tier == Tier::Thorough {
        exhaustive_f32(cfg, extra);
    }
}

const EP_MOD: &[&str] = &[
    "Angle::{normalize,normalize_signed,opposite,bisect,full_turn,turn_div_2,turn_div_3,turn_div_4,turn_div_6}",
    "Angle + - * / % and op=, Neg, Sum",
];
const EP_TRIG: &[&str] = &["Angle::{sin,cos,tan,sin_cos,csc,sec,cot,asin,acos,atan,atan2}", "Rad::from(Deg)", "Deg::from(Rad)"];
const EP_CONV: &[&str] = &["Rad::from(Deg)", "Deg::from(Rad)"];

pub fn clauses() -> Vec<Clause> {
    vec![
        clause!("modular_rad", EP_MOD, g_mod, modular_rad, weight = 1.5, classes = 0),
        clause!("modular_deg", EP_MOD, g_mod, modular_deg, weight = 1.5, classes = 0),
        clause!("convert", EP_CONV, g_conv, convert, weight = 0.5, classes = 0),
        clause_iv!("trig", EP_TRIG, g_trig, trig, weight = 2.0, classes = 0),
    ]
}

pub const RULE: &str = "modular clauses: angles turn*(n/d)+r with d in {1,2,3,4,6,8,12}, |n/d| <= 3 and r = 0, +-10^-k or a small rational, in both units, evaluated exactly (a turn of Rad is the dyadic rational 2*PI_f64); non-trivial = both offsets non-zero and a != b. Trigonometry: angles on a 2^-20 grid in [-4pi,4pi] / [-720,720] degrees plus special values, ratios in [-1,1], atan2 arguments log-uniform in 10^-3..10^3, one case in three with a common scale 10^-30..10^30. Native: round trip on 2^-100..2^100 (f32) / 2^-1000..2^1000 (f64) log-uniform, range membership on random and adversarial values (tiny negatives, exact multiples of the turn, +-MAX, next_up(k*pi)); thorough tier: every finite f32 bit pattern. Distinct = distinct input tuples.";
pub const ASSUME: &[&str] = &[
    "the round-trip bound of 4 machine epsilons is checked on the normal range only (subnormal or overflowing intermediates lose relative accuracy by the nature of floating point)",
    "trigonometric plumbing is compared with the harness' own interval functions of the radian measure; glibc within 4 ulp",
    "bisect: equal signed distance is demanded through normalize_signed of the differences, which treats the two legitimate bisectors of opposite angles alike",
];
