//! C19 — numeric cast of compound values (DESIGN §C19).  Native; the scalar
//! `num_traits::NumCast` is the oracle.

use cgmath::{Matrix2, Matrix3, Matrix4, Point1, Point2, Point3, Quaternion, Vector1, Vector2, Vector3, Vector4};
use num_traits::NumCast;
use serde_json::json;

use cgv_core::fw::{Clause, Extra, RunCfg};
use cgv_core::gen::{Rng, Tier};
use cgv_core::bits::Bits;

pub trait Sc: NumCast + Copy + std::fmt::Debug + Bits + PartialEq + 'static {
    const NAME: &'static str;
    /// boundary values of this type and of every other primitive type that it can represent
    fn samples(rng: &mut Rng) -> Vec<Self>;
}

fn int_candidates() -> Vec<i128> {
    let mut v: Vec<i128> = vec![0, 1, -1, 2, -2, 3, 7, 100, -100];
    // values whose conversion to f32 differs when it goes through f64 first (double rounding),
    // and values just above 2^53 that f64 cannot hold
    for k in [54u32, 57, 60, 62] {
        let x = (1i128 << k) + (1i128 << (k - 24)) + 1;
        v.push(x);
        v.push(-x);
        v.push((1i128 << k) + (1i128 << (k - 24)) - 1);
    }
    v.push((1i128 << 53) + 1);
    v.push(-((1i128 << 53) + 1));
    v.push((1i128 << 24) + 1);
    for k in [7u32, 8, 15, 16, 24, 31, 32, 53, 63, 64] {
        let p = 1i128 << k;
        for d in [-2i128, -1, 0, 1, 2] {
            v.push(p + d);
            v.push(-p + d);
        }
    }
    v
}
macro_rules! int_sc {
    ($($T:ty),*) => {$(
        impl Sc for $T {
            const NAME: &'static str = stringify!($T);
            fn samples(rng: &mut Rng) -> Vec<$T> {
                let mut out: Vec<$T> = vec![<$T>::MIN, <$T>::MAX];
                for c in int_candidates() {
                    if c >= <$T>::MIN as i128 && c <= <$T>::MAX as i128 {
                        out.push(c as $T);
                    }
                }
                for _ in 0..4 {
                    out.push(rng.next() as $T);
                }
                out.dedup();
                out
            }
        }
    )*};
}
int_sc!(u8, u16, u32, u64, usize, i8, i16, i32, i64, isize);
macro_rules! float_sc {
    ($($T:ident),*) => {$(
        impl Sc for $T {
            const NAME: &'static str = stringify!($T);
            fn samples(rng: &mut Rng) -> Vec<$T> {
                let mut out: Vec<$T> = vec![
                    0.0, -0.0, 1.0, -1.0, 0.5, -0.5, 1.5, -1.5, 0.999, -0.999, $T::NAN, $T::INFINITY, $T::NEG_INFINITY,
                    $T::MAX, $T::MIN, $T::MIN_POSITIVE, $T::MIN_POSITIVE / 4.0, -$T::MIN_POSITIVE / 8.0, $T::EPSILON,
                    1e10, -1e10, 1e20, -1e20, 3.4e38, -3.4e38, 255.5, 255.99, 256.0, -128.5, -129.0, 127.5, 65535.5, 65536.0,
                ];
                for c in int_candidates() {
                    out.push(c as $T);
                    out.push((c as $T) + 0.5);
                    out.push((c as $T) - 0.5);
                }
                // values just inside / outside the 64-bit ranges
                out.push(9.223372036854775e18);
                out.push(9.223372036854776e18);
                out.push(-9.223372036854776e18);
                out.push(-9.223372036854778e18);
                out.push(1.8446744073709550e19);
                out.push(1.8446744073709552e19);
                for _ in 0..4 {
                    out.push((rng.uniform(-1.0, 1.0) * 10f64.powf(rng.uniform(-3.0, 12.0))) as $T);
                }
                out
            }
        }
    )*};
}
float_sc!(f32, f64);

pub struct Rec {
    pub checks: u64,
    pub none_expected: u64,
    pub some_expected: u64,
    pub fail: Option<String>,
    pub pairs: std::collections::BTreeSet<String>,
}

/// drive one compound type: comps -> value, value.cast::<T>() -> Option<components>
fn drive<S: Sc, T: Sc, const N: usize>(
    rec: &mut Rec,
    tyname: &str,
    samples: &[S],
    good: &[S],
    cast: &dyn Fn([S; N]) -> Option<[T; N]>,
) {
    if good.is_empty() {
        return;
    }
    // two backgrounds for the probe value: convertible sample values, and the 0 / 1 pattern of an
    // identity matrix (unit vector), i.e. the exactly-affine, exactly-diagonal values real matrices have
    let side = (1..=4).find(|s| s * s == N).unwrap_or(N);
    let (zero, one) = (<S as NumCast>::from(0u8), <S as NumCast>::from(1u8));
    for pass in 0..2 {
      if pass == 1 && (zero.is_none() || one.is_none() || <T as NumCast>::from(1u8).is_none()) {
        continue;
      }
      for i in 0..N {
        for (k, v) in samples.iter().enumerate() {
            let mut c: [S; N] = if pass == 0 {
                std::array::from_fn(|j| good[(j * 7 + k + i) % good.len()])
            } else {
                std::array::from_fn(|j| if N == side || j % (side + 1) == 0 { if N == side && j != 0 { zero.unwrap() } else { one.unwrap() } } else { zero.unwrap() })
            };
            c[i] = *v;
            let scalar: Vec<Option<T>> = c.iter().map(|x| <T as NumCast>::from(*x)).collect();
            let exp: Option<Vec<u64>> = if scalar.iter().all(|s| s.is_some()) {
                Some(scalar.iter().flat_map(|s| s.unwrap().bits()).collect())
            } else {
                None
            };
            let got = cast(c).map(|a| a.iter().flat_map(|x| x.bits()).collect::<Vec<u64>>());
            rec.checks += 1;
            if exp.is_some() {
                rec.some_expected += 1
            } else {
                rec.none_expected += 1
            }
            if got != exp && rec.fail.is_none() {
                rec.fail = Some(format!(
                    "{tyname}<{}>::cast::<{}>() of {:?} (probe value {:?} at component {i}): got {}, scalar NumCast per component gives {:?}",
                    S::NAME,
                    T::NAME,
                    c,
                    v,
                    match cast(c) {
                        Some(a) => format!("Some({:?})", a),
                        None => "None".to_string(),
                    },
                    scalar
                ));
            }
        }
      }
    }
}

fn pair<S: Sc, T: Sc>(rec: &mut Rec, rng: &mut Rng) {
    rec.pairs.insert(format!("{}->{}", S::NAME, T::NAME));
    let samples = S::samples(rng);
    let good: Vec<S> = samples.iter().cloned().filter(|x| <T as NumCast>::from(*x).is_some()).collect();
    drive::<S, T, 1>(rec, "Vector1", &samples, &good, &|c| Vector1::new(c[0]).cast::<T>().map(|v| [v.x]));
    drive::<S, T, 2>(rec, "Vector2", &samples, &good, &|c| Vector2::new(c[0], c[1]).cast::<T>().map(|v| [v.x, v.y]));
    drive::<S, T, 3>(rec, "Vector3", &samples, &good, &|c| Vector3::new(c[0], c[1], c[2]).cast::<T>().map(|v| [v.x, v.y, v.z]));
    drive::<S, T, 4>(rec, "Vector4", &samples, &good, &|c| {
        Vector4::new(c[0], c[1], c[2], c[3]).cast::<T>().map(|v| [v.x, v.y, v.z, v.w])
    });
    drive::<S, T, 1>(rec, "Point1", &samples, &good, &|c| Point1::new(c[0]).cast::<T>().map(|v| [v.x]));
    drive::<S, T, 2>(rec, "Point2", &samples, &good, &|c| Point2::new(c[0], c[1]).cast::<T>().map(|v| [v.x, v.y]));
    drive::<S, T, 3>(rec, "Point3", &samples, &good, &|c| Point3::new(c[0], c[1], c[2]).cast::<T>().map(|v| [v.x, v.y, v.z]));
    drive::<S, T, 4>(rec, "Matrix2", &samples, &good, &|c| {
        Matrix2::new(c[0], c[1], c[2], c[3]).cast::<T>().map(|m| [m.x.x, m.x.y, m.y.x, m.y.y])
    });
    drive::<S, T, 9>(rec, "Matrix3", &samples, &good, &|c| {
        Matrix3::new(c[0], c[1], c[2], c[3], c[4], c[5], c[6], c[7], c[8])
            .cast::<T>()
            .map(|m| [m.x.x, m.x.y, m.x.z, m.y.x, m.y.y, m.y.z, m.z.x, m.z.y, m.z.z])
    });
    drive::<S, T, 16>(rec, "Matrix4", &samples, &good, &|c| {
        Matrix4::new(
            c[0], c[1], c[2], c[3], c[4], c[5], c[6], c[7], c[8], c[9], c[10], c[11], c[12], c[13], c[14], c[15],
        )
        .cast::<T>()
        .map(|m| {
            [
                m.x.x, m.x.y, m.x.z, m.x.w, m.y.x, m.y.y, m.y.z, m.y.w, m.z.x, m.z.y, m.z.z, m.z.w, m.w.x, m.w.y, m.w.z, m.w.w,
            ]
        })
    });
}

fn pair_quat<S: Sc, T: Sc + cgmath::BaseFloat>(rec: &mut Rec, rng: &mut Rng) {
    let samples = S::samples(rng);
    let good: Vec<S> = samples.iter().cloned().filter(|x| <T as NumCast>::from(*x).is_some()).collect();
    // component order handed to new(): w, x, y, z
    drive::<S, T, 4>(rec, "Quaternion", &samples, &good, &|c| {
        Quaternion::new(c[0], c[1], c[2], c[3]).cast::<T>().map(|q| [q.s, q.v.x, q.v.y, q.v.z])
    });
}

macro_rules! all_targets {
    ($rec:expr, $rng:expr, $S:ty) => {{
        pair::<$S, u8>($rec, $rng);
        pair::<$S, u16>($rec, $rng);
        pair::<$S, u32>($rec, $rng);
        pair::<$S, u64>($rec, $rng);
        pair::<$S, usize>($rec, $rng);
        pair::<$S, i8>($rec, $rng);
        pair::<$S, i16>($rec, $rng);
        pair::<$S, i32>($rec, $rng);
        pair::<$S, i64>($rec, $rng);
        pair::<$S, isize>($rec, $rng);
        pair::<$S, f32>($rec, $rng);
        pair::<$S, f64>($rec, $rng);
        pair_quat::<$S, f32>($rec, $rng);
        pair_quat::<$S, f64>($rec, $rng);
    }};
}

pub fn native(cfg: &RunCfg, extra: &mut Extra) {
    let rounds = if cfg.tier == Tier::Quick { 1 } else { 40 };
    let mut rec = Rec { checks: 0, none_expected: 0, some_expected: 0, fail: None, pairs: Default::default() };
    for i in 0..rounds {
        let mut rng = Rng::for_case(cfg.seed, "c19_native", i);
        let r = cgv_core::fw::catch(|| {
            let (rec, rng) = (&mut rec, &mut rng);
            all_targets!(rec, rng, u8);
            all_targets!(rec, rng, u16);
            all_targets!(rec, rng, u32);
            all_targets!(rec, rng, u64);
            all_targets!(rec, rng, usize);
            all_targets!(rec, rng, i8);
            all_targets!(rec, rng, i16);
            all_targets!(rec, rng, i32);
            all_targets!(rec, rng, i64);
            all_targets!(rec, rng, isize);
            all_targets!(rec, rng, f32);
            all_targets!(rec, rng, f64);
        });
        if let Err(p) = r {
            if rec.fail.is_none() {
                rec.fail = Some(format!("unexpected panic: {p}"));
            }
        }
        if rec.fail.is_some() {
            break;
        }
    }
    if let Some(f) = &rec.fail {
        extra.violations.push(("native_cast".into(), f.clone(), json!({"seed": cfg.seed})));
    }
    extra.evaluations += rec.checks;
    extra.distinct_nontrivial += rec.checks; // every (types, position, probe value) combination is a distinct case
    extra.samples.push(json!({"clause": "native_cast", "example": "Vector3<f64>{good, probe, good}.cast::<u8>() with probe in {255.5, 255.99, 256.0, -0.5, NaN, inf, ...} at each position vs NumCast per component"}));
    extra.sections.insert(
        "native_cast".into(),
        json!({"compound_casts": rec.checks, "expected_none": rec.none_expected, "expected_some": rec.some_expected,
               "scalar_pairs": rec.pairs.len(), "rounds": rounds,
               "compound_types": ["Vector1-4", "Point1-3", "Matrix2-4", "Quaternion (float targets)"]}),
    );
}

pub fn clauses() -> Vec<Clause> {
    vec![]
}

pub const RULE: &str = "for each of the 12 x 12 source/target scalar pairs and each compound type (Quaternion: f32/f64 targets) and each component position, the probe position holds every value of the source type's boundary set (MIN, MAX, 0, +-1, 2^k+-{0,1,2} for k in 7..64 and their halves for floats, NaN, +-inf, +-0.0, subnormals, the edges of the 64-bit ranges, a few random values) while the other positions hold values whose scalar cast succeeds; evaluations = compound casts compared; all cases are distinct by construction and non-trivial (the outcome depends on the probe).";
pub const ASSUME: &[&str] = &["num_traits::NumCast::from on the primitive types is the oracle (trusted)", "float results are compared bitwise"];
