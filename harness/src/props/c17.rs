//! C17 — every spelling of an operator computes the same value (DESIGN §C17).
//! Native, bit equality.

use cgmath::prelude::*;
use cgmath::{
    Basis2, Basis3, Decomposed, Deg, Matrix2, Matrix3, Matrix4, Point1, Point2, Point3, Quaternion, Rad, Vector1,
    Vector2, Vector3, Vector4,
};
use serde_json::json;

use cgv_core::fw::{catch, Clause, Extra, RunCfg};
use cgv_core::gen::{Rng, Tier};

pub use cgv_core::bits::Bits;

pub struct Rec {
    pub checks: u64,
    pub fail: Option<String>,
    pub forms: std::collections::BTreeMap<&'static str, u64>,
}
impl Rec {
    fn same<T: Bits + std::fmt::Debug>(&mut self, what: &'static str, canon: &T, other: &T) {
        self.checks += 1;
        *self.forms.entry(what).or_default() += 1;
        if canon.bits() != other.bits() && self.fail.is_none() {
            self.fail = Some(format!("{what}: by-value form gives {canon:?}, this spelling gives {other:?}"));
        }
    }
}

/// yields `left` items of the inner iterator, then None once, then the rest: not fused
struct Flaky<I> {
    inner: I,
    left: usize,
    tripped: bool,
}
impl<I: Iterator> Iterator for Flaky<I> {
    type Item = I::Item;
    fn next(&mut self) -> Option<I::Item> {
        if self.left == 0 && !self.tripped {
            self.tripped = true;
            return None;
        }
        if self.left > 0 {
            self.left -= 1;
        }
        self.inner.next()
    }
}

/// value ∘ value in all four operand forms
macro_rules! forms4 {
    ($rec:expr, $name:expr, $a:expr, $b:expr, $op:tt) => {{
        let (a, b) = ($a, $b);
        let r = a $op b;
        $rec.same(concat!($name, " (v, &v)"), &r, &(a $op &b));
        $rec.same(concat!($name, " (&v, v)"), &r, &(&a $op b));
        $rec.same(concat!($name, " (&v, &v)"), &r, &(&a $op &b));
        r
    }};
}
/// compound ∘ scalar in both forms
macro_rules! forms2 {
    ($rec:expr, $name:expr, $a:expr, $s:expr, $op:tt) => {{
        let (a, s) = ($a, $s);
        let r = a $op s;
        $rec.same(concat!($name, " (&v, s)"), &r, &(&a $op s));
        r
    }};
}
/// compound-assignment form equals the by-value binary form
macro_rules! assign {
    ($rec:expr, $name:expr, $a:expr, $b:expr, $op:tt, $opa:tt) => {{
        let (a, b) = ($a, $b);
        let r = a $op b;
        let mut x = a;
        x $opa b;
        $rec.same(concat!($name, " (op=)"), &r, &x);
    }};
}

macro_rules! vector_ops {
    ($rec:expr, $V:ident, $tag:expr, $a:expr, $b:expr, $s:expr) => {{
        forms4!($rec, concat!($tag, " + ", $tag), $a, $b, +);
        forms4!($rec, concat!($tag, " - ", $tag), $a, $b, -);
        forms2!($rec, concat!($tag, " * s"), $a, $s, *);
        forms2!($rec, concat!($tag, " / s"), $a, $s, /);
        forms2!($rec, concat!($tag, " % s"), $a, $s, %);
        assign!($rec, concat!($tag, " + ", $tag), $a, $b, +, +=);
        assign!($rec, concat!($tag, " - ", $tag), $a, $b, -, -=);
        assign!($rec, concat!($tag, " * s"), $a, $s, *, *=);
        assign!($rec, concat!($tag, " / s"), $a, $s, /, /=);
        assign!($rec, concat!($tag, " % s"), $a, $s, %, %=);
    }};
}
macro_rules! point_ops {
    ($rec:expr, $tag:expr, $p:expr, $q:expr, $v:expr, $s:expr) => {{
        forms4!($rec, concat!($tag, " + Vector"), $p, $v, +);
        forms4!($rec, concat!($tag, " - Vector"), $p, $v, -);
        forms4!($rec, concat!($tag, " - ", $tag), $p, $q, -);
        forms2!($rec, concat!($tag, " * s"), $p, $s, *);
        forms2!($rec, concat!($tag, " / s"), $p, $s, /);
        forms2!($rec, concat!($tag, " % s"), $p, $s, %);
        assign!($rec, concat!($tag, " + Vector"), $p, $v, +, +=);
        assign!($rec, concat!($tag, " - Vector"), $p, $v, -, -=);
        assign!($rec, concat!($tag, " * s"), $p, $s, *, *=);
        assign!($rec, concat!($tag, " / s"), $p, $s, /, /=);
        assign!($rec, concat!($tag, " % s"), $p, $s, %, %=);
    }};
}
macro_rules! matrix_ops {
    ($rec:expr, $tag:expr, $a:expr, $b:expr, $v:expr, $s:expr) => {{
        let a = $a;
        $rec.same(concat!("-", $tag, " (&m)"), &(-a), &(-&a));
        forms2!($rec, concat!($tag, " * s"), $a, $s, *);
        forms2!($rec, concat!($tag, " / s"), $a, $s, /);
        forms2!($rec, concat!($tag, " % s"), $a, $s, %);
        forms4!($rec, concat!($tag, " + ", $tag), $a, $b, +);
        forms4!($rec, concat!($tag, " - ", $tag), $a, $b, -);
        forms4!($rec, concat!($tag, " * ", $tag), $a, $b, *);
        forms4!($rec, concat!($tag, " * Vector"), $a, $v, *);
        assign!($rec, concat!($tag, " * s"), $a, $s, *, *=);
        assign!($rec, concat!($tag, " / s"), $a, $s, /, /=);
        assign!($rec, concat!($tag, " % s"), $a, $s, %, %=);
        assign!($rec, concat!($tag, " + ", $tag), $a, $b, +, +=);
        assign!($rec, concat!($tag, " - ", $tag), $a, $b, -, -=);
    }};
}

trait Fl: cgmath::BaseFloat + Bits + std::fmt::Debug + std::iter::Sum + 'static {
    fn r(rng: &mut Rng) -> Self;
    fn nz(rng: &mut Rng) -> Self;
}
impl Fl for f64 {
    fn r(rng: &mut Rng) -> f64 {
        // signed zeros are ordinary values: 0.0 + -0.0 is +0.0, -0.0 alone is -0.0
        match rng.below(24) {
            0 => -0.0,
            1 => 0.0,
            _ => rng.uniform(-8.0, 8.0),
        }
    }
    fn nz(rng: &mut Rng) -> f64 {
        let x = rng.uniform(0.25, 8.0);
        if rng.bool() {
            x
        } else {
            -x
        }
    }
}
impl Fl for f32 {
    fn r(rng: &mut Rng) -> f32 {
        <f64 as Fl>::r(rng) as f32
    }
    fn nz(rng: &mut Rng) -> f32 {
        <f64 as Fl>::nz(rng) as f32
    }
}

fn float_forms<T: Fl>(rec: &mut Rec, rng: &mut Rng) {
    let mut r = || T::r(rng);
    let (a1, b1) = (Vector1::new(r()), Vector1::new(r()));
    let (a2, b2) = (Vector2::new(r(), r()), Vector2::new(r(), r()));
    let (a3, b3) = (Vector3::new(r(), r(), r()), Vector3::new(r(), r(), r()));
    let (a4, b4) = (Vector4::new(r(), r(), r(), r()), Vector4::new(r(), r(), r(), r()));
    let (m2a, m2b) = (Matrix2::from_cols(a2, b2), Matrix2::new(r(), r(), r(), r()));
    let (m3a, m3b) = (
        Matrix3::from_cols(a3, b3, Vector3::new(r(), r(), r())),
        Matrix3::new(r(), r(), r(), r(), r(), r(), r(), r(), r()),
    );
    let (m4a, m4b) = (
        Matrix4::from_cols(a4, b4, Vector4::new(r(), r(), r(), r()), Vector4::new(r(), r(), r(), r())),
        Matrix4::new(r(), r(), r(), r(), r(), r(), r(), r(), r(), r(), r(), r(), r(), r(), r(), r()),
    );
    let (qa, qb) = (Quaternion::new(r(), r(), r(), r()), Quaternion::new(r(), r(), r(), r()));
    let (ra, rb) = (Rad(r()), Rad(T::nz(rng)));
    let s = T::nz(rng);
    let mut r = || T::r(rng);
    let (da, db) = (Deg(r()), Deg(T::nz(rng)));
    vector_ops!(rec, Vector1, "Vector1", a1, b1, s);
    vector_ops!(rec, Vector2, "Vector2", a2, b2, s);
    vector_ops!(rec, Vector3, "Vector3", a3, b3, s);
    vector_ops!(rec, Vector4, "Vector4", a4, b4, s);
    point_ops!(rec, "Point1", Point1::from_vec(a1), Point1::from_vec(b1), b1, s);
    point_ops!(rec, "Point2", Point2::from_vec(a2), Point2::from_vec(b2), b2, s);
    point_ops!(rec, "Point3", Point3::from_vec(a3), Point3::from_vec(b3), b3, s);
    matrix_ops!(rec, "Matrix2", m2a, m2b, a2, s);
    matrix_ops!(rec, "Matrix3", m3a, m3b, a3, s);
    matrix_ops!(rec, "Matrix4", m4a, m4b, a4, s);
    // quaternion
    rec.same("-Quaternion (&q)", &(-qa), &(-&qa));
    forms2!(rec, "Quaternion * s", qa, s, *);
    forms2!(rec, "Quaternion / s", qa, s, /);
    forms2!(rec, "Quaternion % s", qa, s, %);
    forms4!(rec, "Quaternion + Quaternion", qa, qb, +);
    forms4!(rec, "Quaternion - Quaternion", qa, qb, -);
    forms4!(rec, "Quaternion * Quaternion", qa, qb, *);
    forms4!(rec, "Quaternion * Vector3", qa, a3, *);
    assign!(rec, "Quaternion * s", qa, s, *, *=);
    assign!(rec, "Quaternion / s", qa, s, /, /=);
    assign!(rec, "Quaternion % s", qa, s, %, %=);
    assign!(rec, "Quaternion + Quaternion", qa, qb, +, +=);
    assign!(rec, "Quaternion - Quaternion", qa, qb, -, -=);
    // angles
    macro_rules! angle_ops {
        ($tag:expr, $a:expr, $b:expr) => {{
            rec.same(concat!("-", $tag, " (&a)"), &(-$a), &(-&$a));
            forms4!(rec, concat!($tag, " + ", $tag), $a, $b, +);
            forms4!(rec, concat!($tag, " - ", $tag), $a, $b, -);
            forms4!(rec, concat!($tag, " / ", $tag), $a, $b, /);
            forms4!(rec, concat!($tag, " % ", $tag), $a, $b, %);
            forms2!(rec, concat!($tag, " * s"), $a, s, *);
            forms2!(rec, concat!($tag, " / s"), $a, s, /);
            assign!(rec, concat!($tag, " + ", $tag), $a, $b, +, +=);
            assign!(rec, concat!($tag, " - ", $tag), $a, $b, -, -=);
            assign!(rec, concat!($tag, " % ", $tag), $a, $b, %, %=);
            assign!(rec, concat!($tag, " * s"), $a, s, *, *=);
            assign!(rec, concat!($tag, " / s"), $a, s, /, /=);
        }};
    }
    angle_ops!("Rad", ra, rb);
    angle_ops!("Deg", da, db);
    // bases
    let (ba, bb) = (Basis2::<T>::from_angle(ra), Basis2::<T>::from_angle(rb));
    forms4!(rec, "Basis2 * Basis2", ba, bb, *);
    let ax = Vector3::new(T::from(0.6).unwrap(), T::from(0.0).unwrap(), T::from(0.8).unwrap());
    let (b3a, b3bb) = (Basis3::from_axis_angle(ax, ra), Basis3::<T>::from_angle_y(rb));
    forms4!(rec, "Basis3 * Basis3", b3a, b3bb, *);
    // Decomposed * Decomposed equals concat
    let d1 = Decomposed { scale: s, rot: qa, disp: a3 };
    let d2 = Decomposed { scale: T::from(0.5).unwrap(), rot: qb, disp: b3 };
    let p = d1 * d2;
    let c = d1.concat(&d2);
    rec.same("Decomposed * Decomposed vs concat (scale)", &c.scale, &p.scale);
    rec.same("Decomposed * Decomposed vs concat (rot)", &c.rot, &p.rot);
    rec.same("Decomposed * Decomposed vs concat (disp)", &c.disp, &p.disp);

    // Sum / Product equal the left folds, over values and over references -- for every kind of
    // iterator: exact size hint (slice), lower bound 0 (filter, skip_while, from_fn), and a
    // non-fused iterator that yields None once and would then go on (a fold stops at the first
    // None); lengths 0-6 mostly, sometimes up to 20, sometimes long (block sizes 8, 64, 256 +- 1).
    let n = match rng.below(12) {
        0..=7 => rng.below(7) as usize,
        8 | 9 => 7 + rng.below(14) as usize,
        _ => rng.pick(&[8usize, 9, 16, 17, 63, 64, 65, 100, 255, 256, 257, 300, 513, 600]),
    };
    let cut = if n > 0 { rng.below(n as u64 + 1) as usize } else { 0 };
    macro_rules! iter_kinds {
        ($name:expr, $T:ty, $xs:expr, $fold:expr, $meth:ident, $what:expr) => {{
            let xs: &Vec<$T> = $xs;
            let by_val: $T = xs.iter().cloned().$meth();
            let by_ref: $T = xs.iter().$meth();
            rec.same(concat!($name, " ", $what, " over values"), &$fold(xs.len()), &by_val);
            rec.same(concat!($name, " ", $what, " over references"), &$fold(xs.len()), &by_ref);
            let v: $T = xs.iter().cloned().filter(|_| true).$meth();
            rec.same(concat!($name, " ", $what, " over values through filter (size hint 0..n)"), &$fold(xs.len()), &v);
            let v: $T = xs.iter().filter(|_| true).$meth();
            rec.same(concat!($name, " ", $what, " over references through filter (size hint 0..n)"), &$fold(xs.len()), &v);
            let v: $T = xs.iter().skip_while(|_| false).$meth();
            rec.same(concat!($name, " ", $what, " over references through skip_while"), &$fold(xs.len()), &v);
            let mut i = 0usize;
            let v: $T = std::iter::from_fn(|| { let r = xs.get(i).cloned(); i += 1; r }).$meth();
            rec.same(concat!($name, " ", $what, " over values from from_fn (size hint 0..)"), &$fold(xs.len()), &v);
            let v: $T = Flaky { inner: xs.iter().cloned(), left: cut, tripped: false }.$meth();
            rec.same(concat!($name, " ", $what, " over values of a non-fused iterator stops at the first None"), &$fold(cut), &v);
            let v: $T = Flaky { inner: xs.iter(), left: cut, tripped: false }.$meth();
            rec.same(concat!($name, " ", $what, " over references of a non-fused iterator stops at the first None"), &$fold(cut), &v);
        }};
    }
    macro_rules! sums {
        ($name:expr, $T:ty, $mk:expr) => {{
            let xs: Vec<$T> = (0..n).map(|_| $mk).collect();
            let fold = |k: usize| xs[..k].iter().fold(<$T>::zero(), |acc, x| acc + *x);
            iter_kinds!($name, $T, &xs, fold, sum, "Sum");
        }};
    }
    macro_rules! prods {
        ($name:expr, $T:ty, $mk:expr) => {{
            let xs: Vec<$T> = (0..n).map(|_| $mk).collect();
            let fold = |k: usize| xs[..k].iter().fold(<$T>::one(), |acc, x| acc * *x);
            iter_kinds!($name, $T, &xs, fold, product, "Product");
        }};
    }
    sums!("Vector1", Vector1<T>, Vector1::new(T::r(rng)));
    sums!("Vector2", Vector2<T>, Vector2::new(T::r(rng), T::r(rng)));
    sums!("Vector3", Vector3<T>, Vector3::new(T::r(rng), T::r(rng), T::r(rng)));
    sums!("Vector4", Vector4<T>, Vector4::new(T::r(rng), T::r(rng), T::r(rng), T::r(rng)));
    sums!("Matrix2", Matrix2<T>, Matrix2::new(T::r(rng), T::r(rng), T::r(rng), T::r(rng)));
    sums!("Matrix3", Matrix3<T>, Matrix3::from_value(T::r(rng)) + Matrix3::from_cols(a3, b3, a3) * T::r(rng));
    sums!("Matrix4", Matrix4<T>, Matrix4::from_value(T::r(rng)) + Matrix4::from_cols(a4, b4, a4, b4) * T::r(rng));
    sums!("Quaternion", Quaternion<T>, Quaternion::new(T::r(rng), T::r(rng), T::r(rng), T::r(rng)));
    sums!("Rad", Rad<T>, Rad(T::r(rng)));
    sums!("Deg", Deg<T>, Deg(T::r(rng)));
    // factors of modest size, so that long products stay finite (a NaN would still compare equal
    // bit for bit, but says nothing)
    let sm = T::from(if n > 20 { 0.03 } else { 1.0 }).unwrap();
    prods!("Matrix2", Matrix2<T>, Matrix2::new(T::r(rng), T::r(rng), T::r(rng), T::r(rng)) * sm);
    prods!("Matrix3", Matrix3<T>, (Matrix3::from_value(T::r(rng)) + Matrix3::from_cols(a3, b3, a3) * T::r(rng)) * sm);
    prods!("Matrix4", Matrix4<T>, (Matrix4::from_value(T::r(rng)) + Matrix4::from_cols(a4, b4, a4, b4) * T::r(rng)) * sm * sm);
    prods!("Quaternion", Quaternion<T>, Quaternion::new(T::r(rng), T::r(rng), T::r(rng), T::r(rng)) * (sm + sm + sm));
    // proper rotations commute in 2-D; mirrored bases (look_at_stable with flip) do not
    prods!("Basis2", Basis2<T>, if rng.bool() {
        Basis2::from_angle(Rad(T::r(rng)))
    } else {
        Basis2::look_at_stable(Vector2::new(T::nz(rng), T::nz(rng)), rng.bool())
    });
    prods!("Basis3", Basis3<T>, match rng.below(3) {
        0 => Basis3::from_angle_x(Rad(T::r(rng))),
        1 => Basis3::from_angle_y(Rad(T::r(rng))),
        _ => Basis3::from_angle_z(Rad(T::r(rng))),
    });
}

// integer vectors and points: the same spellings (no overflow, no division by zero)
macro_rules! int_forms {
    ($rec:expr, $rng:expr, $($T:ty),*) => {$(
        {
            let n = $rng.below(6) as usize;
            let mut r = || $rng.range(1, 11) as $T;
            let big = |x: $T| x + 20; // keeps a - b >= 0 for unsigned types
            let (a2, b2) = (Vector2::new(big(r()), big(r())), Vector2::new(r(), r()));
            let (a3, b3) = (Vector3::new(big(r()), big(r()), big(r())), Vector3::new(r(), r(), r()));
            let (a4, b4) = (Vector4::new(big(r()), big(r()), big(r()), big(r())), Vector4::new(r(), r(), r(), r()));
            let (a1, b1) = (Vector1::new(big(r())), Vector1::new(r()));
            let s = (r() % 3) + 1;
            vector_ops!($rec, Vector1, "Vector1<int>", a1, b1, s);
            vector_ops!($rec, Vector2, "Vector2<int>", a2, b2, s);
            vector_ops!($rec, Vector3, "Vector3<int>", a3, b3, s);
            vector_ops!($rec, Vector4, "Vector4<int>", a4, b4, s);
            point_ops!($rec, "Point1<int>", Point1::new(a1.x + 5), Point1::new(b1.x), b1, s);
            point_ops!($rec, "Point2<int>", Point2::new(a2.x + 5, a2.y + 5), Point2::new(b2.x, b2.y), b2, s);
            point_ops!($rec, "Point3<int>", Point3::new(a3.x + 5, a3.y + 5, a3.z + 5), Point3::new(b3.x, b3.y, b3.z), b3, s);
            let xs: Vec<Vector3<$T>> = (0..n).map(|_| Vector3::new(r(), r(), r())).collect();
            let fold = xs.iter().fold(Vector3::<$T>::zero(), |acc, x| acc + *x);
            let by_val: Vector3<$T> = xs.iter().cloned().sum();
            let by_ref: Vector3<$T> = xs.iter().sum();
            $rec.same("Vector3<int> Sum over values", &fold, &by_val);
            $rec.same("Vector3<int> Sum over references", &fold, &by_ref);
            let v: Vector3<$T> = xs.iter().cloned().filter(|_| true).sum();
            $rec.same("Vector3<int> Sum over values through filter", &fold, &v);
            let v: Vector3<$T> = xs.iter().filter(|_| true).sum();
            $rec.same("Vector3<int> Sum over references through filter", &fold, &v);
        }
    )*};
}

// scalar on the left: primitive op per component with the scalar as left operand
macro_rules! scalar_left {
    ($rec:expr, $rng:expr, $float:expr, $($T:ty),*) => {$(
        {
            // left scalar larger than every component so that % and / are informative
            let s: $T = if $float { (($rng.range(65, 200) as f64) * 0.375) as $T } else { $rng.range(10, 13) as $T };
            let mut nzv = || -> $T {
                if $float { (($rng.range(1, 64) as f64) * 0.125) as $T } else { $rng.range(1, 9) as $T }
            };
            let c: [$T; 16] = std::array::from_fn(|_| nzv());
            macro_rules! chk {
                ($name:expr, $val:expr, $n:expr) => {{
                    let v = $val;
                    let comps: Vec<$T> = c[..$n].to_vec();
                    let exp_mul: Vec<u64> = comps.iter().flat_map(|x| (s * *x).bits()).collect();
                    let exp_div: Vec<u64> = comps.iter().flat_map(|x| (s / *x).bits()).collect();
                    let exp_rem: Vec<u64> = comps.iter().flat_map(|x| (s % *x).bits()).collect();
                    let pairs = [
                        (concat!("s * ", $name), (s * v).bits(), (s * &v).bits(), &exp_mul),
                        (concat!("s / ", $name), (s / v).bits(), (s / &v).bits(), &exp_div),
                        (concat!("s % ", $name), (s % v).bits(), (s % &v).bits(), &exp_rem),
                    ];
                    for (what, by_val, by_ref, exp) in pairs {
                        $rec.checks += 2;
                        *$rec.forms.entry(what).or_default() += 2;
                        if &by_val != exp && $rec.fail.is_none() {
                            $rec.fail = Some(format!("{what} <{}>: s = {s:?}, operand {v:?}: result does not apply the primitive operation per component with the scalar on the left", stringify!($T)));
                        }
                        if &by_ref != exp && $rec.fail.is_none() {
                            $rec.fail = Some(format!("{what} (&) <{}>: s = {s:?}, operand {v:?}: by-reference form differs", stringify!($T)));
                        }
                    }
                }};
            }
            chk!("Vector1", Vector1::new(c[0]), 1);
            chk!("Vector2", Vector2::new(c[0], c[1]), 2);
            chk!("Vector3", Vector3::new(c[0], c[1], c[2]), 3);
            chk!("Vector4", Vector4::new(c[0], c[1], c[2], c[3]), 4);
            chk!("Point1", Point1::new(c[0]), 1);
            chk!("Point2", Point2::new(c[0], c[1]), 2);
            chk!("Point3", Point3::new(c[0], c[1], c[2]), 3);
            chk!("Matrix2", Matrix2::new(c[0], c[1], c[2], c[3]), 4);
            chk!("Matrix3", Matrix3::new(c[0], c[1], c[2], c[3], c[4], c[5], c[6], c[7], c[8]), 9);
            chk!("Matrix4", Matrix4::new(c[0], c[1], c[2], c[3], c[4], c[5], c[6], c[7], c[8], c[9], c[10], c[11], c[12], c[13], c[14], c[15]), 16);
        }
    )*};
}

fn scalar_left_quat(rec: &mut Rec, rng: &mut Rng) {
    macro_rules! one {
        ($T:ty) => {{
            let mut nz = || ((rng.range(1, 64) as f64) * 0.125) as $T;
            let s: $T = 7.375;
            let q = Quaternion::new(nz(), nz(), nz(), nz());
            let exp_mul: Vec<u64> = [q.v.x, q.v.y, q.v.z, q.s].iter().flat_map(|x| (s * *x).bits()).collect();
            let exp_div: Vec<u64> = [q.v.x, q.v.y, q.v.z, q.s].iter().flat_map(|x| (s / *x).bits()).collect();
            for (what, a, b, e) in [
                ("s * Quaternion", (s * q).bits(), (s * &q).bits(), &exp_mul),
                ("s / Quaternion", (s / q).bits(), (s / &q).bits(), &exp_div),
            ] {
                rec.checks += 2;
                *rec.forms.entry(what).or_default() += 2;
                if (&a != e || &b != e) && rec.fail.is_none() {
                    rec.fail = Some(format!("{what} <{}>: s = {s:?}, q = {q:?}", stringify!($T)));
                }
            }
        }};
    }
    one!(f32);
    one!(f64);
}

// random straight-line programs, canonical by-value spelling vs a random spelling per instruction
fn programs(rec: &mut Rec, rng: &mut Rng) {
    let len = rng.range(8, 20);
    let mut v: [Vector3<f64>; 3] = std::array::from_fn(|_| Vector3::new(f64::r(rng), f64::r(rng), f64::r(rng)));
    let mut m: [Matrix3<f64>; 2] = std::array::from_fn(|_| Matrix3::from_value(f64::nz(rng)) + Matrix3::from_cols(v[0], v[1], v[2]) * 0.125);
    let mut q: [Quaternion<f64>; 2] = std::array::from_fn(|_| Quaternion::new(f64::r(rng), f64::r(rng), f64::r(rng), f64::r(rng)) * 0.25);
    let mut p = Point3::new(f64::r(rng), f64::r(rng), f64::r(rng));
    let (mut v2, mut m2, mut q2, mut p2) = (v, m, q, p);
    let mut trace = vec![];
    for _ in 0..len {
        let op = rng.below(12);
        let (i, j) = (rng.below(3) as usize, rng.below(3) as usize);
        let (k, l) = (rng.below(2) as usize, rng.below(2) as usize);
        let s = f64::nz(rng) * 0.25;
        let sp = rng.below(4);
        trace.push((op, sp));
        match op {
            0 => {
                v[i] = v[i] + v[j];
                match sp {
                    0 => v2[i] = v2[i] + &v2[j],
                    1 => v2[i] = &v2[i] + v2[j],
                    2 => v2[i] = &v2[i] + &v2[j],
                    _ => { let t = v2[j]; v2[i] += t; }
                }
            }
            1 => {
                v[i] = v[i] - v[j];
                match sp {
                    0 => v2[i] = v2[i] - &v2[j],
                    1 => v2[i] = &v2[i] - v2[j],
                    2 => v2[i] = &v2[i] - &v2[j],
                    _ => { let t = v2[j]; v2[i] -= t; }
                }
            }
            2 => {
                v[i] = v[i] * s;
                match sp {
                    0 | 1 => v2[i] = &v2[i] * s,
                    2 => v2[i] *= s,
                    _ => v2[i] = s * v2[i],
                }
            }
            3 => {
                v[i] = v[i] / s;
                match sp {
                    0 | 1 => v2[i] = &v2[i] / s,
                    _ => v2[i] /= s,
                }
            }
            4 => {
                v[i] = m[k] * v[j];
                match sp {
                    0 => v2[i] = m2[k] * &v2[j],
                    1 => v2[i] = &m2[k] * v2[j],
                    2 => v2[i] = &m2[k] * &v2[j],
                    _ => v2[i] = m2[k] * v2[j],
                }
            }
            5 => {
                m[k] = m[k] * m[l] * 0.25;
                match sp {
                    0 => m2[k] = (m2[k] * &m2[l]) * 0.25,
                    1 => m2[k] = &(&m2[k] * m2[l]) * 0.25,
                    2 => { let mut t = &m2[k] * &m2[l]; t *= 0.25; m2[k] = t; }
                    _ => m2[k] = m2[k] * m2[l] * 0.25,
                }
            }
            6 => {
                m[k] = m[k] + m[l];
                match sp {
                    0 => m2[k] = m2[k] + &m2[l],
                    1 => m2[k] = &m2[k] + m2[l],
                    2 => m2[k] = &m2[k] + &m2[l],
                    _ => { let t = m2[l]; m2[k] += t; }
                }
            }
            7 => {
                q[k] = q[k] * q[l];
                match sp {
                    0 => q2[k] = q2[k] * &q2[l],
                    1 => q2[k] = &q2[k] * q2[l],
                    2 => q2[k] = &q2[k] * &q2[l],
                    _ => { let (a, b) = (q2[k], q2[l]); q2[k] = a * b; }
                }
            }
            8 => {
                v[i] = q[k] * v[j];
                match sp {
                    0 => v2[i] = q2[k] * &v2[j],
                    1 => v2[i] = &q2[k] * v2[j],
                    2 => v2[i] = &q2[k] * &v2[j],
                    _ => v2[i] = q2[k].rotate_vector(v2[j]),
                }
            }
            9 => {
                p = p + v[j];
                match sp {
                    0 => p2 = p2 + &v2[j],
                    1 => p2 = &p2 + v2[j],
                    2 => p2 = &p2 + &v2[j],
                    _ => p2 += v2[j],
                }
            }
            10 => {
                v[i] = p - Point3::new(s, s, s);
                match sp {
                    0 => v2[i] = p2 - &Point3::new(s, s, s),
                    1 => v2[i] = &p2 - Point3::new(s, s, s),
                    _ => v2[i] = &p2 - &Point3::new(s, s, s),
                }
            }
            _ => {
                q[k] = q[k] - q[l] * s;
                match sp {
                    0 => q2[k] = q2[k] - &(&q2[l] * s),
                    1 => { let t = q2[l] * s; q2[k] -= t; }
                    _ => { let mut t = q2[l]; t *= s; q2[k] = &q2[k] - t; }
                }
            }
        }
    }
    rec.checks += 1;
    *rec.forms.entry("straight-line program").or_default() += 1;
    let same = v.iter().zip(v2.iter()).all(|(a, b)| a.bits() == b.bits())
        && m.iter().zip(m2.iter()).all(|(a, b)| a.bits() == b.bits())
        && q.iter().zip(q2.iter()).all(|(a, b)| a.bits() == b.bits())
        && p.bits() == p2.bits();
    if !same && rec.fail.is_none() {
        rec.fail = Some(format!("straight-line program of {len} instructions gives different register files in two spellings; (op, spelling) trace = {trace:?}"));
    }
}

pub fn native(cfg: &RunCfg, extra: &mut Extra) {
    let n = if cfg.tier == Tier::Quick { 1500 } else { 100_000 };
    let mut rec = Rec { checks: 0, fail: None, forms: Default::default() };
    let mut seen = std::collections::HashSet::new();
    let mut cases = 0u64;
    for i in 0..n {
        let mut rng = Rng::for_case(cfg.seed, "c17_native", i);
        seen.insert(rng.clone().next());
        cases += 1;
        let r = catch(|| {
            float_forms::<f64>(&mut rec, &mut rng);
            float_forms::<f32>(&mut rec, &mut rng);
            int_forms!(rec, rng, i32, i64, u32, u8, i8, u16, i16, u64, usize, isize);
            scalar_left!(rec, rng, false, usize, u8, u16, u32, u64, isize, i8, i16, i32, i64);
            scalar_left!(rec, rng, true, f32, f64);
            scalar_left_quat(&mut rec, &mut rng);
            programs(&mut rec, &mut rng);
            programs(&mut rec, &mut rng);
        });
        if let Err(p) = r {
            if rec.fail.is_none() {
                rec.fail = Some(format!("unexpected panic on overflow-free operands: {p}"));
            }
        }
        if let Some(f) = &rec.fail {
            extra.violations.push(("native_spellings".into(), f.clone(), json!({"index": i, "seed": cfg.seed})));
            break;
        }
    }
    extra.evaluations += rec.checks;
    extra.distinct_nontrivial += seen.len() as u64;
    extra.samples.push(json!({"clause": "native_spellings", "example": "Vector3 + Vector3 in forms (v,v) (v,&v) (&v,v) (&v,&v) and +=; 12.375f32 % Matrix3<f32> per component; 8-20 instruction programs over 3 vectors, 2 matrices, 2 quaternions, 1 point"}));
    extra.sections.insert(
        "native_spellings".into(),
        json!({"random_operand_sets": cases, "comparisons": rec.checks, "distinct_spelling_kinds": rec.forms.len(),
               "comparisons_per_kind_sample": rec.forms.iter().take(12).collect::<Vec<_>>()}),
    );
}

pub fn clauses() -> Vec<Clause> {
    vec![]
}

pub const RULE: &str = "each case draws fresh random operands (floats uniform in [-8,8], divisors bounded away from 0; integers 1..10 with the left operand shifted up so unsigned subtraction cannot underflow) and evaluates every operator of every compound type in all spellings that exist, the scalar-on-the-left forms for the 12 primitives, Sum/Product by value and by reference over 0-6 (two cases in three), 7-20 or 8..600 elements (block sizes 8, 64, 256 +- 1) and over five kinds of iterator (slice, filter, skip_while, from_fn, a non-fused iterator with a None in the middle), and two random straight-line programs of 8-20 instructions in two spellings; evaluations = number of bitwise comparisons; distinct_nontrivial = number of distinct operand sets (all are non-trivial: components are independent random values).";
pub const ASSUME: &[&str] = &[
    "identical means bitwise identical components (to_bits for floats)",
    "operands are chosen so that no overflow, underflow of unsigned types or division by zero occurs; overflow-checks are on, so such an event inside cgmath would be reported as an unexpected panic",
];
