//! C11 — magnitude, distance, normalisation, angle, projection (DESIGN §C11).

use cgmath::prelude::*;
use cgmath::{Point1, Point2, Point3, Quaternion, Vector1, Vector2, Vector3, Vector4};
use num_traits::Float;

use cgv_core::clause;
use cgv_core::conv::*;
use cgv_core::fw::{Case, Clause};
use cgv_core::gen::{self, Rng, Tier};
use cgv_core::model::*;
use cgv_core::sc::{Ck, Rat, Sc};

fn rmul(a: Rat, b: Rat) -> Rat {
    Rat::new(a.n * b.n, a.d * b.d)
}

/// a vector of dimension n with rational length: k * (rational unit vector)
fn rational_length(rng: &mut Rng, tier: Tier, n: usize) -> Vec<Rat> {
    let k = gen::nz_rat(rng, tier);
    let u: Vec<Rat> = match n {
        1 => vec![Rat::int(1)],
        2 => gen::unit_vec2(rng, tier).to_vec(),
        3 => gen::unit_vec3(rng, tier).to_vec(),
        _ => gen::unit_quat(rng, tier).to_vec(),
    };
    u.iter().map(|x| rmul(*x, k)).collect()
}

/// class 0: rational lengths everywhere (exact engine decides); class 1: arbitrary rationals
fn gen_pair(rng: &mut Rng, tier: Tier, n: usize) -> Case {
    let mut c = Case::new();
    if n >= 2 && rng.chance(1, 8) {
        // lengths 1 + 2^-k and 1 - 2^-k: "nearly unit" is not unit (still rational lengths, class 0)
        c.class = 0;
        let k = rng.range(16, 30) as u32;
        let unit = |rng: &mut Rng| -> Vec<Rat> {
            match n {
                2 => gen::unit_vec2(rng, Tier::Quick).to_vec(),
                3 => gen::unit_vec3(rng, Tier::Quick).to_vec(),
                _ => gen::unit_quat(rng, Tier::Quick).to_vec(),
            }
        };
        let scale = |v: Vec<Rat>, num: i64| -> Vec<Rat> { v.iter().map(|x| Rat::new(x.n * num, x.d << k)).collect() };
        let u = scale(unit(rng), (1i64 << k) + 1);
        let v = scale(unit(rng), (1i64 << k) - 1);
        if v.iter().any(|x| !x.is_zero()) {
            c.push_r(&u).push_r(&v);
            c.nontrivial = true;
            c.push_r(&[gen::nz_rat(rng, tier)]);
            return c;
        }
    }
    if rng.chance(1, 2) {
        c.class = 0;
        // v = u + w so that |u - v| is rational as well; the property needs non-zero lengths
        let (u, v) = loop {
            let u = rational_length(rng, tier, n);
            let w = rational_length(rng, tier, n);
            let v: Vec<Rat> = (0..n).map(|i| Rat::new(u[i].n * w[i].d + w[i].n * u[i].d, u[i].d * w[i].d)).collect();
            if v.iter().any(|x| !x.is_zero()) && u.iter().any(|x| !x.is_zero()) {
                break (u, v);
            }
        };
        c.push_r(&u).push_r(&v);
        c.nontrivial = gen::is_nontrivial(&u);
    } else {
        c.class = 1;
        let u = gen::distinct_rats(rng, tier, n);
        let v = gen::distinct_rats(rng, tier, n);
        c.push_r(&u).push_r(&v);
        c.nontrivial = true;
    }
    // a target magnitude (positive and negative) for normalize_to
    c.push_r(&[gen::nz_rat(rng, tier)]);
    c
}

macro_rules! space {
    ($md:ident, $N:expr, $T:ident, $arr:ident, $mk:ident) => {
        pub mod $md {
            use super::*;
            const N: usize = $N;
            pub fn g(rng: &mut Rng, tier: Tier) -> Case {
                gen_pair(rng, tier, N)
            }
            pub fn body<S: Sc>(case: &Case, ck: &mut Ck<S>) {
                let mut rd = case.rd();
                let (u, v): (V<S, N>, V<S, N>) = (rd.arr(), rd.arr());
                let m: S = rd.s();
                let (vu, vv) = ($mk(u), $mk(v));
                let zero = S::i(0);
                // magnitude
                let mag = vu.magnitude();
                ck.eq("magnitude^2 = magnitude2", mag * mag, vu.magnitude2());
                ck.eq("magnitude2 vs model", vu.magnitude2(), vdot(u, u));
                ck.le("magnitude2 >= 0", zero, vu.magnitude2());
                ck.le("magnitude >= 0", zero, mag);
                // distance
                let d = vu.distance(vv);
                ck.eq("distance symmetric", d, vv.distance(vu));
                ck.eq("distance = magnitude(u - v)", d, (vu - vv).magnitude());
                ck.eq("distance2 = distance^2", vu.distance2(vv), d * d);
                ck.eq("distance2 vs model", vu.distance2(vv), vdot(vsub(u, v), vsub(u, v)));
                ck.eq("distance2 symmetric", vu.distance2(vv), vv.distance2(vu));
                // normalisation
                let nu = vu.normalize();
                ck.eq("|normalize(u)|^2 = 1", nu.magnitude2(), S::i(1));
                let nm = vu.normalize_to(m);
                ck.eq("|normalize_to(u,m)|^2 = m^2", nm.magnitude2(), m * m);
                let (a, b) = ($arr(nu), $arr(nm));
                for i in 0..N {
                    for j in 0..i {
                        ck.eq("normalize(u) parallel to u", a[i] * u[j], a[j] * u[i]);
                        ck.eq("normalize_to(u,m) parallel to u", b[i] * u[j], b[j] * u[i]);
                    }
                }
                ck.lt("normalize(u) . u > 0", zero, vdot(a, u));
                // positive multiple for m > 0, negative for m < 0
                ck.lt("sign(normalize_to(u,m) . u) = sign(m)", zero, vdot(b, u) * m);
                // projection
                let p = $arr(vu.project_on(vv));
                for i in 0..N {
                    for j in 0..i {
                        ck.eq("project_on(u,v) parallel to v", p[i] * v[j], p[j] * v[i]);
                    }
                }
                ck.eq("(u - project_on(u,v)) . v = 0", vdot(vsub(u, p), v), zero);
                ck.eq("project_on(u,v) . v = u . v", vdot(p, v), vdot(u, v));
                ck.note("magnitude", &mag);
            }
            /// |u||v|cos(angle) = u.v, range, symmetry (irrational: interval engine)
            pub fn angle<S: Sc>(case: &Case, ck: &mut Ck<S>) {
                let mut rd = case.rd();
                let (u, v): (V<S, N>, V<S, N>) = (rd.arr(), rd.arr());
                let (vu, vv) = ($mk(u), $mk(v));
                let zero = S::i(0);
                if N != 2 {
                    let ang = vu.angle(vv);
                    ck.eq("|u||v|cos(angle) = u.v", vu.magnitude() * vv.magnitude() * Float::cos(ang.0), vdot(u, v));
                    ck.le("angle >= 0", zero, ang.0);
                    ck.le("angle <= pi", ang.0, S::pi().widen(4));
                    ck.eq("angle symmetric", ang.0, vv.angle(vu).0);
                    ck.note("angle", &ang);
                } else {
                    let ang = vu.angle(vv);
                    ck.eq("|u||v|cos(angle) = u.v", vu.magnitude() * vv.magnitude() * Float::cos(ang.0), vdot(u, v));
                    ck.le("angle <= pi", ang.0, S::pi().widen(4));
                    ck.le("angle >= -pi", -S::pi().widen(4), ang.0);
                    // sign: counter-clockwise positive (perp-dot sign)
                    ck.le("sign(angle) = sign(u x v)", zero, ang.0 * (u[0] * v[1 % N] - u[1 % N] * v[0]));
                }
            }
        }
    };
}

space!(s1, 1, Vector1, v1, mk_v1);
space!(s2, 2, Vector2, v2, mk_v2);
space!(s3, 3, Vector3, v3, mk_v3);
space!(s4, 4, Vector4, v4, mk_v4);
space!(sq, 4, Quaternion, qt, mk_qt);

// ---------------------------------------------------------------- 2-D signed angle

fn g_angle2(rng: &mut Rng, tier: Tier) -> Case {
    use std::f64::consts::PI;
    let mut c = Case::new();
    c.push_r(&gen::distinct_rats(rng, tier, 2));
    c.push_r(&[Rat::new(rng.range(1, 9), rng.pick(&[1, 2, 3]))]);
    let theta = match rng.below(10) {
        0 => rng.pick(&[0.0, PI / 2.0, -PI / 2.0, 1e-6, -1e-6, 3.0, -3.0]),
        _ => rng.dyadic(-PI + 0.01, PI - 0.01),
    };
    c.push_f(&[theta]);
    c.nontrivial = theta != 0.0;
    c
}
fn angle2<S: Sc>(case: &Case, ck: &mut Ck<S>) {
    let mut rd = case.rd();
    let u: V<S, 2> = rd.arr();
    let k: S = rd.s();
    let th: S = rd.x();
    let (s, c) = (Float::sin(th), Float::cos(th));
    // v = k * Rot(theta) u : counter-clockwise by theta
    let v = [(c * u[0] - s * u[1]) * k, (s * u[0] + c * u[1]) * k];
    let (vu, vv) = (mk_v2(u), mk_v2(v));
    let a = vu.angle(vv);
    ck.eq("angle(u, k Rot(t) u) = t", a.0, th);
    ck.eq("angle(v,u) = -angle(u,v)", vv.angle(vu).0, -th);
    ck.le("angle <= pi", a.0, S::pi().widen(4));
    ck.le("angle >= -pi", -S::pi().widen(4), a.0);
    ck.eq("|u||v|cos(angle) = u.v", vu.magnitude() * vv.magnitude() * Float::cos(a.0), vdot(u, v));
    ck.note("angle", &a);
}

// ---------------------------------------------------------------- points (metric only)

fn g_points(rng: &mut Rng, tier: Tier) -> Case {
    let mut c = gen_pair(rng, tier, 3);
    c.r.pop();
    c
}
fn points<S: Sc>(case: &Case, ck: &mut Ck<S>) {
    let mut rd = case.rd();
    let (p, q): (V<S, 3>, V<S, 3>) = (rd.arr(), rd.arr());
    macro_rules! chk {
        ($P:ident, $n:expr, $mkp:ident, $mkv:ident, $tag:expr) => {{
            let mut a = [S::i(0); $n];
            let mut b = [S::i(0); $n];
            for i in 0..$n {
                a[i] = p[i];
                b[i] = q[i];
            }
            let (pa, pb) = ($mkp(a), $mkp(b));
            let d = pa.distance(pb);
            ck.eq(concat!($tag, " distance symmetric"), d, pb.distance(pa));
            ck.eq(concat!($tag, " distance = |p - q|"), d, (pa - pb).magnitude());
            ck.eq(concat!($tag, " distance2 = distance^2"), pa.distance2(pb), d * d);
            ck.eq(concat!($tag, " distance2 vs model"), pa.distance2(pb), vdot(vsub(a, b), vsub(a, b)));
            ck.le(concat!($tag, " distance >= 0"), S::i(0), d);
        }};
    }
    chk!(Point1, 1, mk_p1, mk_v1, "Point1");
    chk!(Point2, 2, mk_p2, mk_v2, "Point2");
    chk!(Point3, 3, mk_p3, mk_v3, "Point3");
    let _: Option<(Point1<S>, Point2<S>, Point3<S>)> = None;
}

const EP: &[&str] = &[
    "InnerSpace::{magnitude,magnitude2,normalize,normalize_to,angle,project_on}",
    "MetricSpace::{distance,distance2}",
];

fn b1<S: Sc>(c: &Case, k: &mut Ck<S>) {
    s1::body(c, k)
}
fn b2<S: Sc>(c: &Case, k: &mut Ck<S>) {
    s2::body(c, k)
}
fn b3<S: Sc>(c: &Case, k: &mut Ck<S>) {
    s3::body(c, k)
}
fn b4<S: Sc>(c: &Case, k: &mut Ck<S>) {
    s4::body(c, k)
}
fn bq<S: Sc>(c: &Case, k: &mut Ck<S>) {
    sq::body(c, k)
}
fn a1<S: Sc>(c: &Case, k: &mut Ck<S>) {
    s1::angle(c, k)
}
fn a2<S: Sc>(c: &Case, k: &mut Ck<S>) {
    s2::angle(c, k)
}
fn a3<S: Sc>(c: &Case, k: &mut Ck<S>) {
    s3::angle(c, k)
}
fn a4<S: Sc>(c: &Case, k: &mut Ck<S>) {
    s4::angle(c, k)
}
fn aq<S: Sc>(c: &Case, k: &mut Ck<S>) {
    sq::angle(c, k)
}

pub fn clauses() -> Vec<Clause> {
    vec![
        clause!("vector1", EP, s1::g, b1, weight = 0.5, classes = 2),
        clause!("vector2", EP, s2::g, b2, weight = 1.0, classes = 2),
        clause!("vector3", EP, s3::g, b3, weight = 1.0, classes = 2),
        clause!("vector4", EP, s4::g, b4, weight = 1.0, classes = 2),
        clause!("quaternion", EP, sq::g, bq, weight = 1.0, classes = 2),
        clause!("angle1", EP, s1::g, a1, weight = 0.25, classes = 0),
        clause!("angle2", EP, s2::g, a2, weight = 0.5, classes = 0),
        clause!("angle3", EP, s3::g, a3, weight = 0.5, classes = 0),
        clause!("angle4", EP, s4::g, a4, weight = 0.5, classes = 0),
        clause!("angle_quaternion", EP, sq::g, aq, weight = 0.5, classes = 0),
        clause!("angle2d", EP, g_angle2, angle2),
        clause!("points", EP, g_points, points, weight = 1.0, classes = 2),
    ]
}

pub const RULE: &str = "pairs (u,v) of dimension 1-4 (and quaternions, points): class 0 has rational lengths everywhere (u = k*unit rational point, v = u + such a vector) so that the exact engine decides every square root; class 1 arbitrary small rationals decided by enclosures; 2-D signed angle: v = k*Rot(theta)*u built by the model for theta on a 2^-20 grid in (-pi,pi) plus special values; normalize_to uses positive and negative magnitudes. Non-trivial = u with non-zero pairwise distinct components; distinct = distinct input tuples.";
pub const ASSUME: &[&str] = &[
    "enclosure arithmetic as in C06; acos is evaluated on the argument clipped to [-1,1] (the property is stated over the reals)",
    "parallelism is tested by cross ratios x_i y_j = x_j y_i, direction by the sign of the dot product",
];


// ---------------------------------------------------------------- native f64 / f32: accuracy where a field cannot tell

/// Two formulas that agree over a field can differ wildly in floating point
/// (catastrophic cancellation).  These monitors run the real f64/f32 code on
/// inputs where the exact answer is known by construction and flag only errors
/// orders of magnitude above rounding: points far from the origin but close
/// together (integer grid: the exact squared distance is an integer), exactly
/// opposite / nearly opposite 2-D vectors, and nearly unit vectors.
pub fn native(cfg: &cgv_core::fw::RunCfg, extra: &mut cgv_core::fw::Extra) {
    use cgmath::{Rad, Vector2 as V2};
    use serde_json::json;
    let n = if cfg.tier == Tier::Quick { 4000 } else { 300_000 };
    let mut evals = 0u64;
    let mut seen = std::collections::HashSet::new();
    let mut worst = [0f64; 4];
    let mut fail: Option<(String, String, serde_json::Value)> = None;
    for i in 0..n {
        if fail.is_some() {
            break;
        }
        let mut rng = Rng::for_case(cfg.seed, "c11_native", i);
        evals += 1;
        // (1) integer grid far from the origin: exact squared distance
        let base = [rng.range(-400_000_000, 400_000_000), rng.range(-400_000_000, 400_000_000), rng.range(-400_000_000, 400_000_000)];
        let off = [rng.range(-2000, 2000), rng.range(-2000, 2000), rng.range(-2000, 2000)];
        let exact2: i64 = off.iter().map(|x| x * x).sum();
        seen.insert((base[0], off[0]));
        let r = cgv_core::fw::catch(|| {
            let p = Point3::new(base[0] as f64, base[1] as f64, base[2] as f64);
            let q = Point3::new((base[0] + off[0]) as f64, (base[1] + off[1]) as f64, (base[2] + off[2]) as f64);
            let (u, v) = (p.to_vec(), q.to_vec());
            let e3 = exact2 as f64;
            let e2 = (off[0] * off[0] + off[1] * off[1]) as f64;
            let e1 = (off[0] * off[0]) as f64;
            let rel = |got: f64, exp: f64| if exp == 0.0 { got.abs() } else { ((got - exp) / exp).abs() };
            let mut w = 0f64;
            w = w.max(rel(p.distance2(q), e3)).max(rel(q.distance2(p), e3)).max(rel(u.distance2(v), e3));
            w = w.max(rel(p.distance(q), e3.sqrt())).max(rel(u.distance(v), e3.sqrt())).max(rel((u - v).magnitude(), e3.sqrt()));
            let (p2a, q2a) = (Point2::new(p.x, p.y), Point2::new(q.x, q.y));
            w = w.max(rel(p2a.distance2(q2a), e2)).max(rel(p2a.to_vec().distance2(q2a.to_vec()), e2));
            let (p1a, q1a) = (Point1::new(p.x), Point1::new(q.x));
            w = w.max(rel(p1a.distance2(q1a), e1));
            let qa = Quaternion::new(p.x, p.y, p.z, 7.0);
            let qb = Quaternion::new(q.x, q.y, q.z, 7.0);
            w = w.max(rel(qa.distance2(qb), e3));
            // f32: coordinates around 1000, offsets of halves
            let pf = Point3::new(base[0] as f32 % 4096.0, base[1] as f32 % 4096.0, base[2] as f32 % 4096.0);
            let of = [(off[0] % 8) as f32 * 0.5, (off[1] % 8) as f32 * 0.5, (off[2] % 8) as f32 * 0.5];
            let qf = Point3::new(pf.x + of[0], pf.y + of[1], pf.z + of[2]);
            let ef = of[0] * of[0] + of[1] * of[1] + of[2] * of[2];
            let wf = if ef == 0.0 { pf.distance2(qf).abs() as f64 } else { ((pf.distance2(qf) - ef) / ef).abs() as f64 };
            (w, wf)
        });
        match r {
            Err(p) => fail = Some(("native_distance".into(), format!("unexpected panic: {p}"), json!({"index": i}))),
            Ok((w, wf)) => {
                worst[0] = worst[0].max(w);
                worst[1] = worst[1].max(wf);
                if !(w <= 1e-9) {
                    fail = Some(("native_distance".into(), format!("f64 distance/distance2 of points {base:?} and +{off:?}: relative error {w:e} (exact value {exact2}); tolerance 1e-9"), json!({"base": base, "offset": off})));
                } else if !(wf <= 1e-4) {
                    fail = Some(("native_distance".into(), format!("f32 distance2 of nearby points far from the origin: relative error {wf:e}; tolerance 1e-4"), json!({"base": base, "offset": off})));
                }
            }
        }
        // (2) 2-D signed angle: exactly opposite / equal direction, and close to opposite
        let u = V2::new(rng.uniform(-4.0, 4.0), rng.uniform(-4.0, 4.0));
        if u.magnitude2() > 0.01 {
            let k = 2f64.powi(rng.range(-3, 3) as i32);
            let a_opp = u.angle(-u * k).0;
            let a_same = u.angle(u * k).0;
            let delta = 10f64.powf(rng.uniform(-9.0, -2.0)) * if rng.bool() { 1.0 } else { -1.0 };
            let th = std::f64::consts::PI - delta.abs();
            let th = if delta < 0.0 { -th } else { th };
            let v = V2::new(th.cos() * u.x - th.sin() * u.y, th.sin() * u.x + th.cos() * u.y) * k;
            let a_near = u.angle(v).0;
            let e = (a_near - th).abs();
            worst[2] = worst[2].max(e);
            let pi = std::f64::consts::PI;
            if !((a_opp.abs() - pi).abs() <= 1e-12) {
                fail = Some(("native_angle2d".into(), format!("angle({u:?}, -{k} u) = {a_opp:e}, expected +-pi"), json!({"u": [u.x, u.y], "k": k})));
            } else if !(a_same.abs() <= 1e-12) {
                fail = Some(("native_angle2d".into(), format!("angle({u:?}, {k} u) = {a_same:e}, expected 0"), json!({"u": [u.x, u.y], "k": k})));
            } else if !(e <= 1e-11) {
                fail = Some(("native_angle2d".into(), format!("angle(u, Rot({th}) u) is off by {e:e} rad (tolerance 1e-11) {} rad away from opposite", delta.abs()), json!({"u": [u.x, u.y], "theta": th})));
            }
            let _ = Rad(0.0f64);
        }
        // (3) nearly unit quaternions / vectors: normalize really normalizes
        let d = 10f64.powf(rng.uniform(-12.0, -3.0)) * if rng.bool() { 1.0 } else { -1.0 };
        let q = Quaternion::new(rng.uniform(-1.0, 1.0), rng.uniform(-1.0, 1.0), rng.uniform(-1.0, 1.0), rng.uniform(-1.0, 1.0));
        if q.magnitude2() > 0.01 {
            let q = q.normalize() * (1.0 + d);
            let e = (q.normalize().magnitude() - 1.0).abs().max((q.normalize_to(2.0).magnitude() - 2.0).abs());
            let v3n = (q.v.normalize().magnitude() - 1.0).abs();
            worst[3] = worst[3].max(e).max(v3n);
            if !(e <= 1e-13 && v3n <= 1e-13) {
                fail = Some(("native_normalize".into(), format!("normalize of a quaternion/vector of length 1{d:+e} has length off by {:e} (tolerance 1e-13)", e.max(v3n)), json!({"d": d})));
            }
        }
    }
    if let Some(f) = fail {
        extra.violations.push(f);
    }
    extra.evaluations += evals;
    extra.distinct_nontrivial += seen.len() as u64;
    extra.samples.push(json!({"clause": "native", "example": "points (3.1e8,-2.2e8,1.0e8) and the same +(3,-4,12): distance2 must be 169 within 1e-9 relative; angle(u, -2u) = +-pi; |normalize(q*(1+1e-8))| = 1"}));
    extra.sections.insert(
        "native_accuracy".into(),
        json!({"cases": evals, "worst_relative_error_distance_f64": worst[0], "tolerance": 1e-9, "worst_relative_error_distance2_f32": worst[1], "tolerance_f32": 1e-4,
               "worst_error_2d_angle_near_opposite_rad": worst[2], "tolerance_angle": 1e-11, "worst_error_normalized_length": worst[3], "tolerance_length": 1e-13}),
    );
}
