//! C11 — magnitude, distance, normalisation, angle, projection (DESIGN §C11).

use cgmath::prelude::*;
use cgmath::{Point1, Point2, Point3, Quaternion, Vector1, Vector3, Vector4};
use num_traits::Float;

use cgv_core::clause;
use cgv_core::conv::*;
use cgv_core::fw::{Case, Clause};
use cgv_core::gen::{self, Rng, Tier};
use cgv_core::model::*;
use cgv_core::sc::{Ck, Rat, Sc};

fn rmul(a: Rat, b: Rat) -> Rat {
    Rat::new(a.n * b.n, a.d * b.d)
}

/// a vector of dimension n with rational length: k * (rational unit vector)
fn rational_length(rng: &mut Rng, tier: Tier, n: usize) -> Vec<Rat> {
    let k = gen::nz_rat(rng, tier);
    let u: Vec<Rat> = match n {
        1 => vec![Rat::int(1)],
        2 => gen::unit_vec2(rng, tier).to_vec(),
        3 => gen::unit_vec3(rng, tier).to_vec(),
        _ => gen::unit_quat(rng, tier).to_vec(),
    };
    u.iter().map(|x| rmul(*x, k)).collect()
}

/// class 0: rational lengths everywhere (exact engine decides); class 1: arbitrary rationals
fn gen_pair(rng: &mut Rng, tier: Tier, n: usize) -> Case {
    let mut c = Case::new();
    if n >= 2 && rng.chance(1, 8) {
        // lengths 1 + 2^-k and 1 - 2^-k: "nearly unit" is not unit (still rational lengths, class 0)
        c.class = 0;
        let k = rng.range(16, 30) as u32;
        let unit = |rng: &mut Rng| -> Vec<Rat> {
            match n {
                2 => gen::unit_vec2(rng, Tier::Quick).to_vec(),
                3 => gen::unit_vec3(rng, Tier::Quick).to_vec(),
                _ => gen::unit_quat(rng, Tier::Quick).to_vec(),
            }
        };
        let scale = |v: Vec<Rat>, num: i64| -> Vec<Rat> { v.iter().map(|x| Rat::new(x.n * num, x.d << k)).collect() };
        let u = scale(unit(rng), (1i64 << k) + 1);
        let v = scale(unit(rng), (1i64 << k) - 1);
        if v.iter().any(|x| !x.is_zero()) {
            c.push_r(&u).push_r(&v);
            c.nontrivial = true;
            c.push_r(&[gen::nz_rat(rng, tier)]);
            return c;
        }
    }
    if rng.chance(1, 2) {
        c.class = 0;
        // v = u + w so that |u - v| is rational as well; the property needs non-zero lengths
        let (u, v) = loop {
            let u = rational_length(rng, tier, n);
            let w = rational_length(rng, tier, n);
            let v: Vec<Rat> = (0..n).map(|i| Rat::new(u[i].n * w[i].d + w[i].n * u[i].d, u[i].d * w[i].d)).collect();
            if v.iter().any(|x| !x.is_zero()) && u.iter().any(|x| !x.is_zero()) {
                break (u, v);
            }
        };
        c.push_r(&u).push_r(&v);
        c.nontrivial = gen::is_nontrivial(&u);
    } else {
        c.class = 1;
        let u = gen::distinct_rats(rng, tier, n);
        let v = gen::distinct_rats(rng, tier, n);
        c.push_r(&u).push_r(&v);
        c.nontrivial = true;
    }
    // a target magnitude (positive and negative) for normalize_to
    c.push_r(&[gen::nz_rat(rng, tier)]);
    c
}

macro_rules! space {
    ($md:ident, $N:expr, $T:ident, $arr:ident, $mk:ident) => {
        pub mod $md {
            use super::*;
            const N: usize = $N;
            pub fn g(rng: &mut Rng, tier: Tier) -> Case {
                gen_pair(rng, tier, N)
            }
            pub fn body<S: Sc>(case: &Case, ck: &mut Ck<S>) {
                let mut rd = case.rd();
                let (u, v): (V<S, N>, V<S, N>) = (rd.arr(), rd.arr());
                let m: S = rd.s();
                let (vu, vv) = ($mk(u), $mk(v));
                let zero = S::i(0);
                // magnitude
                let mag = vu.magnitude();
                ck.eq("magnitude^2 = magnitude2", mag * mag, vu.magnitude2());
                ck.eq("magnitude2 vs model", vu.magnitude2(), vdot(u, u));
                ck.le("magnitude2 >= 0", zero, vu.magnitude2());
                ck.le("magnitude >= 0", zero, mag);
                // distance
                let d = vu.distance(vv);
                ck.eq("distance symmetric", d, vv.distance(vu));
                ck.eq("distance = magnitude(u - v)", d, (vu - vv).magnitude());
                ck.eq("distance2 = distance^2", vu.distance2(vv), d * d);
                ck.eq("distance2 vs model", vu.distance2(vv), vdot(vsub(u, v), vsub(u, v)));
                ck.eq("distance2 symmetric", vu.distance2(vv), vv.distance2(vu));
                // normalisation
                let nu = vu.normalize();
                ck.eq("|normalize(u)|^2 = 1", nu.magnitude2(), S::i(1));
                let nm = vu.normalize_to(m);
                ck.eq("|normalize_to(u,m)|^2 = m^2", nm.magnitude2(), m * m);
                let (a, b) = ($arr(nu), $arr(nm));
                for i in 0..N {
                    for j in 0..i {
                        ck.eq("normalize(u) parallel to u", a[i] * u[j], a[j] * u[i]);
                        ck.eq("normalize_to(u,m) parallel to u", b[i] * u[j], b[j] * u[i]);
                    }
                }
                ck.lt("normalize(u) . u > 0", zero, vdot(a, u));
                // positive multiple for m > 0, negative for m < 0
                ck.lt("sign(normalize_to(u,m) . u) = sign(m)", zero, vdot(b, u) * m);
                // projection
                let p = $arr(vu.project_on(vv));
                for i in 0..N {
                    for j in 0..i {
                        ck.eq("project_on(u,v) parallel to v", p[i] * v[j], p[j] * v[i]);
                    }
                }
                ck.eq("(u - project_on(u,v)) . v = 0", vdot(vsub(u, p), v), zero);
                ck.eq("project_on(u,v) . v = u . v", vdot(p, v), vdot(u, v));
                ck.note("magnitude", &mag);
            }
            /// |u||v|cos(angle) = u.v, range, symmetry (irrational: interval engine)
            pub fn angle<S: Sc>(case: &Case, ck: &mut Ck<S>) {
                let mut rd = case.rd();
                let (u, v): (V<S, N>, V<S, N>) = (rd.arr(), rd.arr());
                let (vu, vv) = ($mk(u), $mk(v));
                let zero = S::i(0);
                if N != 2 {
                    let ang = vu.angle(vv);
                    ck.eq("|u||v|cos(angle) = u.v", vu.magnitude() * vv.magnitude() * Float::cos(ang.0), vdot(u, v));
                    ck.le("angle >= 0", zero, ang.0);
                    ck.le("angle <= pi", ang.0, S::pi().widen(4));
                    ck.eq("angle symmetric", ang.0, vv.angle(vu).0);
                    ck.note("angle", &ang);
                } else {
                    let ang = vu.angle(vv);
                    ck.eq("|u||v|cos(angle) = u.v", vu.magnitude() * vv.magnitude() * Float::cos(ang.0), vdot(u, v));
                    ck.le("angle <= pi", ang.0, S::pi().widen(4));
                    ck.le("angle >= -pi", -S::pi().widen(4), ang.0);
                    // sign: counter-clockwise positive (perp-dot sign)
                    ck.le("sign(angle) = sign(u x v)", zero, ang.0 * (u[0] * v[1 % N] - u[1 % N] * v[0]));
                }
            }
        }
    };
}

space!(s1, 1, Vector1, v1, mk_v1);
space!(s2, 2, Vector2, v2, mk_v2);
space!(s3, 3, Vector3, v3, mk_v3);
space!(s4, 4, Vector4, v4, mk_v4);
space!(sq, 4, Quaternion, qt, mk_qt);

// ---------------------------------------------------------------- 2-D signed angle

fn g_angle2(rng: &mut Rng, tier: Tier) -> Case {
    use std::f64::consts::PI;
    let mut c = Case::new();
    c.push_r(&gen::distinct_rats(rng, tier, 2));
    c.push_r(&[Rat::new(rng.range(1, 9), rng.pick(&[1, 2, 3]))]);
    let theta = match rng.below(10) {
        0 => rng.pick(&[0.0, PI / 2.0, -PI / 2.0, 1e-6, -1e-6, 3.0, -3.0]),
        _ => rng.dyadic(-PI + 0.01, PI - 0.01),
    };
    c.push_f(&[theta]);
    c.nontrivial = theta != 0.0;
    c
}
fn angle2<S: Sc>(case: &Case, ck: &mut Ck<S>) {
    let mut rd = case.rd();
    let u: V<S, 2> = rd.arr();
    let k: S = rd.s();
    let th: S = rd.x();
    let (s, c) = (Float::sin(th), Float::cos(th));
    // v = k * Rot(theta) u : counter-clockwise by theta
    let v = [(c * u[0] - s * u[1]) * k, (s * u[0] + c * u[1]) * k];
    let (vu, vv) = (mk_v2(u), mk_v2(v));
    let a = vu.angle(vv);
    ck.eq("angle(u, k Rot(t) u) = t", a.0, th);
    ck.eq("angle(v,u) = -angle(u,v)", vv.angle(vu).0, -th);
    ck.le("angle <= pi", a.0, S::pi().widen(4));
    ck.le("angle >= -pi", -S::pi().widen(4), a.0);
    ck.eq("|u||v|cos(angle) = u.v", vu.magnitude() * vv.magnitude() * Float::cos(a.0), vdot(u, v));
    ck.note("angle", &a);
}

// ---------------------------------------------------------------- points (metric only)

fn g_points(rng: &mut Rng, tier: Tier) -> Case {
    let mut c = gen_pair(rng, tier, 3);
    c.r.pop();
    c
}
fn points<S: Sc>(case: &Case, ck: &mut Ck<S>) {
    let mut rd = case.rd();
    let (p, q): (V<S, 3>, V<S, 3>) = (rd.arr(), rd.arr());
    macro_rules! chk {
        ($P:ident, $n:expr, $mkp:ident, $mkv:ident, $tag:expr) => {{
            let mut a = [S::i(0); $n];
            let mut b = [S::i(0); $n];
            for i in 0..$n {
                a[i] = p[i];
                b[i] = q[i];
            }
            let (pa, pb) = ($mkp(a), $mkp(b));
            let d = pa.distance(pb);
            ck.eq(concat!($tag, " distance symmetric"), d, pb.distance(pa));
            ck.eq(concat!($tag, " distance = |p - q|"), d, (pa - pb).magnitude());
            ck.eq(concat!($tag, " distance2 = distance^2"), pa.distance2(pb), d * d);
            ck.eq(concat!($tag, " distance2 vs model"), pa.distance2(pb), vdot(vsub(a, b), vsub(a, b)));
            ck.le(concat!($tag, " distance >= 0"), S::i(0), d);
        }};
    }
    chk!(Point1, 1, mk_p1, mk_v1, "Point1");
    chk!(Point2, 2, mk_p2, mk_v2, "Point2");
    chk!(Point3, 3, mk_p3, mk_v3, "Point3");
    let _: Option<(Point1<S>, Point2<S>, Point3<S>)> = None;
}

const EP: &[&str] = &[
    "InnerSpace::{magnitude,magnitude2,normalize,normalize_to,angle,project_on}",
    "MetricSpace::{distance,distance2}",
];

fn b1<S: Sc>(c: &Case, k: &mut Ck<S>) {
    s1::body(c, k)
}
fn b2<S: Sc>(c: &Case, k: &mut Ck<S>) {
    s2::body(c, k)
}
fn b3<S: Sc>(c: &Case, k: &mut Ck<S>) {
    s3::body(c, k)
}
fn b4<S: Sc>(c: &Case, k: &mut Ck<S>) {
    s4::body(c, k)
}
fn bq<S: Sc>(c: &Case, k: &mut Ck<S>) {
    sq::body(c, k)
}
fn a1<S: Sc>(c: &Case, k: &mut Ck<S>) {
    s1::angle(c, k)
}
fn a2<S: Sc>(c: &Case, k: &mut Ck<S>) {
    s2::angle(c, k)
}
fn a3<S: Sc>(c: &Case, k: &mut Ck<S>) {
    s3::angle(c, k)
}
fn a4<S: Sc>(c: &Case, k: &mut Ck<S>) {
    s4::angle(c, k)
}
fn aq<S: Sc>(c: &Case, k: &mut Ck<S>) {
    sq::angle(c, k)
}

pub fn clauses() -> Vec<Clause> {
    vec![
        clause!("vector1", EP, s1::g, b1, weight = 0.5, classes = 2),
        clause!("vector2", EP, s2::g, b2, weight = 1.0, classes = 2),
        clause!("vector3", EP, s3::g, b3, weight = 1.0, classes = 2),
        clause!("vector4", EP, s4::g, b4, weight = 1.0, classes = 2),
        clause!("quaternion", EP, sq::g, bq, weight = 1.0, classes = 2),
        clause!("angle1", EP, s1::g, a1, weight = 0.25, classes = 0),
        clause!("angle2", EP, s2::g, a2, weight = 0.5, classes = 0),
        clause!("angle3", EP, s3::g, a3, weight = 0.5, classes = 0),
        clause!("angle4", EP, s4::g, a4, weight = 0.5, classes = 0),
        clause!("angle_quaternion", EP, sq::g, aq, weight = 0.5, classes = 0),
        clause!("angle2d", EP, g_angle2, angle2),
        clause!("points", EP, g_points, points, weight = 1.0, classes = 2),
    ]
}

/// Native f32 / f64: (a) integer vectors times 2^k over the whole window in
/// which lengths and squared lengths stay normal -- magnitude, normalize,
/// normalize_to, project_on and distance against an f64 / exact-integer model
/// (allowance 128 eps); a guard with an absolute threshold (`magnitude2 <=
/// epsilon => zero vector`) is wrong exactly on the short vectors of this
/// family.  (b) nearly parallel and nearly anti-parallel vectors in 2-D and
/// 3-D whose angle is known in closed form: v = k*u + 2^-j*w with integer u and
/// an integer w perpendicular to u, all components exactly representable, so
/// angle(u,v) = atan2(|w| 2^-j, k|u|); the cross / perp-dot form is accurate to
/// a few eps *absolutely* here (allowance 256 eps rad), while a form that goes
/// through 1 - cos^2 or acos loses eps/angle.
pub fn native_scaled(cfg: &cgv_core::fw::RunCfg, extra: &mut cgv_core::fw::Extra) {
    use cgmath::{BaseFloat, Vector2 as V2};
    use cgv_core::acc::Acc;
    use serde_json::json;
    fn scaled<T: BaseFloat>(tag: &str, vi: [i64; 4], ui: [i64; 4], k: i32, m: f64, acc: &mut Acc, inputs: &dyn Fn() -> serde_json::Value) {
        let eps = T::epsilon().to_f64().unwrap();
        let s = (2.0f64).powi(k);
        let f = |x: f64| T::from(x).unwrap();
        let g = |x: T| x.to_f64().unwrap();
        let tol = 128.0 * eps;
        for n in 1..=4usize {
            let len2: i64 = vi[..n].iter().map(|x| x * x).sum();
            if len2 == 0 {
                continue;
            }
            let len = (len2 as f64).sqrt();
            let comps: Vec<T> = vi[..n].iter().map(|x| f(*x as f64 * s)).collect();
            let ucomps: Vec<T> = ui[..n].iter().map(|x| f(*x as f64 * s)).collect();
            let (mag, mag2, nrm, nto, dist): (T, T, Vec<T>, Vec<T>, T) = match n {
                1 => {
                    let (v, u) = (Vector1::new(comps[0]), Vector1::new(ucomps[0]));
                    (v.magnitude(), v.magnitude2(), vec![v.normalize().x], vec![v.normalize_to(f(m)).x], v.distance(u))
                }
                2 => {
                    let (v, u) = (V2::new(comps[0], comps[1]), V2::new(ucomps[0], ucomps[1]));
                    let (a, b) = (v.normalize(), v.normalize_to(f(m)));
                    (v.magnitude(), v.magnitude2(), vec![a.x, a.y], vec![b.x, b.y], v.distance(u))
                }
                3 => {
                    let (v, u) = (Vector3::new(comps[0], comps[1], comps[2]), Vector3::new(ucomps[0], ucomps[1], ucomps[2]));
                    let (a, b) = (v.normalize(), v.normalize_to(f(m)));
                    (v.magnitude(), v.magnitude2(), vec![a.x, a.y, a.z], vec![b.x, b.y, b.z], v.distance(u))
                }
                _ => {
                    let (v, u) = (Vector4::new(comps[0], comps[1], comps[2], comps[3]), Vector4::new(ucomps[0], ucomps[1], ucomps[2], ucomps[3]));
                    let (a, b) = (v.normalize(), v.normalize_to(f(m)));
                    (v.magnitude(), v.magnitude2(), vec![a.x, a.y, a.z, a.w], vec![b.x, b.y, b.z, b.w], v.distance(u))
                }
            };
            acc.check(&format!("{tag} Vector{n} magnitude / 2^{k}"), g(mag) / s, len, tol * len, inputs);
            acc.check(&format!("{tag} Vector{n} magnitude2 / 2^{}", 2 * k), g(mag2) / s / s, len2 as f64, tol * len2 as f64, inputs);
            let d2: i64 = (0..n).map(|i| (vi[i] - ui[i]) * (vi[i] - ui[i])).sum();
            acc.check(&format!("{tag} Vector{n} distance / 2^{k}"), g(dist) / s, (d2 as f64).sqrt(), tol * ((d2 as f64).sqrt() + len), inputs);
            for i in 0..n {
                let want = vi[i] as f64 / len;
                acc.check(&format!("{tag} Vector{n} normalize()[{i}] at scale 2^{k}"), g(nrm[i]), want, tol, inputs);
                acc.check(&format!("{tag} Vector{n} normalize_to({m})[{i}] at scale 2^{k}"), g(nto[i]), want * m, tol * m.abs(), inputs);
            }
        }
        // quaternion (s, x, y, z) = vi
        let len2: i64 = vi.iter().map(|x| x * x).sum();
        if len2 != 0 {
            let len = (len2 as f64).sqrt();
            let q = Quaternion::new(f(vi[0] as f64 * s), f(vi[1] as f64 * s), f(vi[2] as f64 * s), f(vi[3] as f64 * s));
            acc.check(&format!("{tag} Quaternion magnitude / 2^{k}"), g(q.magnitude()) / s, len, tol * len, inputs);
            let nq = q.normalize();
            for (i, c) in [nq.s, nq.v.x, nq.v.y, nq.v.z].iter().enumerate() {
                acc.check(&format!("{tag} Quaternion normalize()[{i}] at scale 2^{k}"), g(*c), vi[i] as f64 / len, tol, inputs);
            }
        }
        // project_on: 3-D, u onto v, both scaled (the result scales with u)
        let (vv, uu) = (
            Vector3::new(f(vi[0] as f64 * s), f(vi[1] as f64 * s), f(vi[2] as f64 * s)),
            Vector3::new(f(ui[0] as f64), f(ui[1] as f64), f(ui[2] as f64)),
        );
        let l3: i64 = vi[..3].iter().map(|x| x * x).sum();
        if l3 != 0 {
            let dot: i64 = (0..3).map(|i| vi[i] * ui[i]).sum();
            let pr = uu.project_on(vv);
            let ul: f64 = (ui[..3].iter().map(|x| x * x).sum::<i64>() as f64).sqrt();
            for i in 0..3 {
                acc.check(&format!("{tag} project_on(u, 2^{k} v)[{i}]"), g(pr[i]), vi[i] as f64 * dot as f64 / l3 as f64, tol * (ul + 1.0), inputs);
            }
        }
    }
    fn near_parallel<T: BaseFloat>(tag: &str, u: [i64; 3], w: [i64; 3], kk: i64, j: i32, acc: &mut Acc, inputs: &dyn Fn() -> serde_json::Value) {
        let eps = T::epsilon().to_f64().unwrap();
        let f = |x: f64| T::from(x).unwrap();
        let g = |x: T| x.to_f64().unwrap();
        let sj = (2.0f64).powi(-j);
        let tol = 256.0 * eps;
        // 3-D
        let ul2: i64 = u.iter().map(|x| x * x).sum();
        let wl2: i64 = w.iter().map(|x| x * x).sum();
        if ul2 != 0 && wl2 != 0 {
            let uu = Vector3::new(f(u[0] as f64), f(u[1] as f64), f(u[2] as f64));
            let vv = Vector3::new(f(kk as f64 * u[0] as f64 + w[0] as f64 * sj), f(kk as f64 * u[1] as f64 + w[1] as f64 * sj), f(kk as f64 * u[2] as f64 + w[2] as f64 * sj));
            let want = ((wl2 as f64).sqrt() * sj).atan2(kk as f64 * (ul2 as f64).sqrt());
            acc.check(&format!("{tag} Vector3 angle(u, {kk}u + 2^-{j} w)"), g(uu.angle(vv).0), want, tol, inputs);
            acc.check(&format!("{tag} Vector3 angle({kk}u + 2^-{j} w, u)"), g(vv.angle(uu).0), want, tol, inputs);
        }
        // 2-D: w = rot90(u) (counter-clockwise) or its opposite
        let u2l: i64 = u[0] * u[0] + u[1] * u[1];
        if u2l != 0 {
            let side = if w[0] >= 0 { 1.0 } else { -1.0 };
            let (wx, wy) = (-(u[1] as f64) * side, u[0] as f64 * side);
            let uu = V2::new(f(u[0] as f64), f(u[1] as f64));
            let vv = V2::new(f(kk as f64 * u[0] as f64 + wx * sj), f(kk as f64 * u[1] as f64 + wy * sj));
            let want = (side * sj).atan2(kk as f64);
            acc.check(&format!("{tag} Vector2 angle(u, {kk}u + 2^-{j} rot90(u))"), g(uu.angle(vv).0), want, tol, inputs);
            acc.check(&format!("{tag} Vector2 angle({kk}u + 2^-{j} rot90(u), u)"), g(vv.angle(uu).0), -want, tol, inputs);
        }
    }
    // the same configuration after normalising both vectors in the type under test (the usual
    // way two directions reach `angle`): reference = atan2(|u x v|, u.v) of the *rounded* unit
    // vectors, cross product and dot product evaluated in double-double
    fn near_parallel_unit<T: BaseFloat>(tag: &str, u: [i64; 3], w: [i64; 3], kk: i64, j: i32, acc: &mut Acc, inputs: &dyn Fn() -> serde_json::Value) {
        use cgv_core::dd;
        let eps = T::epsilon().to_f64().unwrap();
        let f = |x: f64| T::from(x).unwrap();
        let g = |x: T| x.to_f64().unwrap();
        let sj = (2.0f64).powi(-j);
        if u.iter().all(|x| *x == 0) || w.iter().all(|x| *x == 0) {
            return;
        }
        let uu = Vector3::new(f(u[0] as f64), f(u[1] as f64), f(u[2] as f64)).normalize();
        let vv = Vector3::new(f(kk as f64 * u[0] as f64 + w[0] as f64 * sj), f(kk as f64 * u[1] as f64 + w[1] as f64 * sj), f(kk as f64 * u[2] as f64 + w[2] as f64 * sj)).normalize();
        let (a, b) = ([g(uu.x), g(uu.y), g(uu.z)], [g(vv.x), g(vv.y), g(vv.z)]);
        let c = [
            dd::dot(&[a[1], -a[2]], &[b[2], b[1]]).0,
            dd::dot(&[a[2], -a[0]], &[b[0], b[2]]).0,
            dd::dot(&[a[0], -a[1]], &[b[1], b[0]]).0,
        ];
        let cl = (c[0] * c[0] + c[1] * c[1] + c[2] * c[2]).sqrt();
        let want = cl.atan2(dd::dot(&a, &b).0);
        acc.check(&format!("{tag} Vector3 angle(normalize(u), normalize({kk}u + 2^-{j} w))"), g(uu.angle(vv).0), want, 256.0 * eps, inputs);
        acc.check(&format!("{tag} Vector3 angle(n, n) of a normalised vector with itself"), g(uu.angle(uu).0), 0.0, 256.0 * eps, inputs);
    }
    let n = if cfg.tier == Tier::Quick { 3000 } else { 200_000 };
    let mut acc = Acc::new("c11_scaled_and_nearly_parallel");
    for i in 0..n {
        let mut rng = Rng::for_case(cfg.seed, "c11_native_scaled", i);
        let mut vi = [0i64; 4];
        let mut ui = [0i64; 4];
        for c in 0..4 {
            vi[c] = rng.range(-15, 15);
            ui[c] = rng.range(-15, 15);
        }
        if vi[0] == 0 {
            vi[0] = 3;
        }
        let (k64, k32) = (rng.range(-500, 500) as i32, rng.range(-55, 55) as i32);
        let m = rng.pick(&[0.5, 2.0, 3.0, 0.125, 7.0]);
        // perpendicular integer vector: w = u x r
        let r = [rng.range(-9, 9), rng.range(-9, 9), rng.range(-9, 9)];
        let u3 = [ui[0], ui[1], ui[2]];
        let w = [u3[1] * r[2] - u3[2] * r[1], u3[2] * r[0] - u3[0] * r[2], u3[0] * r[1] - u3[1] * r[0]];
        let kk = rng.pick(&[1i64, 2, 3, -1, -2, -3]);
        let (j64, j32) = (rng.range(3, 40) as i32, rng.range(3, 11) as i32);
        acc.case("integer vectors * 2^k; u, k*u + 2^-j*w with w perpendicular to u");
        let in64 = || json!({"v": vi, "u": ui, "scale_log2": k64, "w": w, "k": kk, "j": j64, "m": m, "type": "f64", "index": i});
        let in32 = || json!({"v": vi, "u": ui, "scale_log2": k32, "w": w, "k": kk, "j": j32, "m": m, "type": "f32", "index": i});
        match cgv_core::fw::catch(|| {
            let mut local = Acc::new("c11_scaled_and_nearly_parallel");
            scaled::<f64>("f64", vi, ui, k64, m, &mut local, &in64);
            scaled::<f32>("f32", vi, ui, k32, m, &mut local, &in32);
            near_parallel::<f64>("f64", u3, w, kk, j64, &mut local, &in64);
            near_parallel::<f32>("f32", u3, w, kk, j32, &mut local, &in32);
            near_parallel_unit::<f64>("f64", u3, w, kk, j64.min(26), &mut local, &in64);
            near_parallel_unit::<f32>("f32", u3, w, kk, j32, &mut local, &in32);
            local
        }) {
            Ok(l) => {
                acc.checks += l.checks;
                acc.worst = acc.worst.max(l.worst);
                if acc.fail.is_none() {
                    acc.fail = l.fail;
                }
            }
            Err(p) => acc.truth(&format!("unexpected panic: {p}"), false, &in64),
        }
        if acc.failed() {
            break;
        }
    }
    acc.finish(extra, "f64 / exact-integer model; allowance 128 eps (relative) for lengths and directions, 256 eps rad (absolute) for the closed-form angles");
}

/// The same call spelled with method syntax on the concrete type (which picks up an inherent
/// method if one exists for that very type) and through the trait (`InnerSpace::normalize(v)`),
/// on f32 and f64 vectors and quaternions: both spellings must give the same bits, and the
/// value must be the documented one.  The generic monitors above are blind to a method that
/// exists for one concrete instantiation only, or to a trait method that differs from an
/// inherent one of the same name.
pub fn native_spellings(cfg: &cgv_core::fw::RunCfg, extra: &mut cgv_core::fw::Extra) {
    use cgmath::Vector2 as V2;
    use cgv_core::acc::Acc;
    use cgv_core::bits::Bits;
    use serde_json::json;
    let n = if cfg.tier == Tier::Quick { 1500 } else { 100_000 };
    let mut acc = Acc::new("c11_method_vs_trait_spelling");
    for i in 0..n {
        let mut rng = Rng::for_case(cfg.seed, "c11_native_spellings", i);
        let raw: [f64; 8] = std::array::from_fn(|_| rng.uniform(-4.0, 4.0));
        let m = rng.uniform(0.25, 3.0);
        let inputs = || json!({"components": raw, "m": m, "index": i});
        acc.case("random vectors, both spellings");
        macro_rules! one {
            ($T:ty, $V:ident, $name:expr, ($($k:expr),+)) => {{
                let v = $V::new($(raw[$k] as $T),+);
                let u = $V::new($(raw[$k + 4] as $T),+);
                let same = |a: &dyn Fn() -> Vec<u64>, b: &dyn Fn() -> Vec<u64>| a() == b();
                let tag = concat!($name, "<", stringify!($T), ">");
                acc.truth(&format!("{tag}: v.normalize() differs from InnerSpace::normalize(v)"), same(&|| v.normalize().bits(), &|| InnerSpace::normalize(v).bits()), &inputs);
                acc.truth(&format!("{tag}: v.normalize_to(m) differs from InnerSpace::normalize_to(v, m)"), same(&|| v.normalize_to(m as $T).bits(), &|| InnerSpace::normalize_to(v, m as $T).bits()), &inputs);
                acc.truth(&format!("{tag}: v.magnitude() differs from InnerSpace::magnitude(v)"), same(&|| v.magnitude().bits(), &|| InnerSpace::magnitude(v).bits()), &inputs);
                acc.truth(&format!("{tag}: v.magnitude2() differs from InnerSpace::magnitude2(v)"), same(&|| v.magnitude2().bits(), &|| InnerSpace::magnitude2(v).bits()), &inputs);
                acc.truth(&format!("{tag}: v.dot(u) differs from InnerSpace::dot(v, u)"), same(&|| v.dot(u).bits(), &|| InnerSpace::dot(v, u).bits()), &inputs);
                acc.truth(&format!("{tag}: v.angle(u) differs from InnerSpace::angle(v, u)"), same(&|| v.angle(u).0.bits(), &|| InnerSpace::angle(v, u).0.bits()), &inputs);
                acc.truth(&format!("{tag}: v.project_on(u) differs from InnerSpace::project_on(v, u)"), same(&|| v.project_on(u).bits(), &|| InnerSpace::project_on(v, u).bits()), &inputs);
                acc.truth(&format!("{tag}: v.distance(u) differs from MetricSpace::distance(v, u)"), same(&|| v.distance(u).bits(), &|| MetricSpace::distance(v, u).bits()), &inputs);
                acc.truth(&format!("{tag}: v.distance2(u) differs from MetricSpace::distance2(v, u)"), same(&|| v.distance2(u).bits(), &|| MetricSpace::distance2(v, u).bits()), &inputs);
                // value: unit length, positive multiple of v
                let eps = <$T>::EPSILON as f64;
                let nv = v.normalize();
                acc.check(&format!("{tag}: |v.normalize()|"), nv.magnitude() as f64, 1.0, 64.0 * eps, &inputs);
                acc.check(&format!("{tag}: |v.normalize_to(m)|"), v.normalize_to(m as $T).magnitude() as f64, m, 64.0 * eps * m, &inputs);
                acc.check(&format!("{tag}: v.normalize() . v = |v|"), nv.dot(v) as f64, v.magnitude() as f64, 64.0 * eps * (v.magnitude() as f64), &inputs);
            }};
        }
        one!(f32, Vector1, "Vector1", (0));
        one!(f64, Vector1, "Vector1", (0));
        one!(f32, V2, "Vector2", (0, 1));
        one!(f64, V2, "Vector2", (0, 1));
        one!(f32, Vector3, "Vector3", (0, 1, 2));
        one!(f64, Vector3, "Vector3", (0, 1, 2));
        one!(f32, Vector4, "Vector4", (0, 1, 2, 3));
        one!(f64, Vector4, "Vector4", (0, 1, 2, 3));
        one!(f32, Quaternion, "Quaternion", (0, 1, 2, 3));
        one!(f64, Quaternion, "Quaternion", (0, 1, 2, 3));
        if acc.failed() {
            break;
        }
    }
    acc.finish(extra, "bit equality of method-syntax and trait-path spellings on concrete f32/f64 types; unit length within 64 eps");
}

pub fn native_all(cfg: &cgv_core::fw::RunCfg, extra: &mut cgv_core::fw::Extra) {
    native(cfg, extra);
    native_scaled(cfg, extra);
    native_spellings(cfg, extra);
}

pub const RULE: &str = "pairs (u,v) of dimension 1-4 (and quaternions, points): class 0 has rational lengths everywhere (u = k*unit rational point, v = u + such a vector) so that the exact engine decides every square root; class 1 arbitrary small rationals decided by enclosures; 2-D signed angle: v = k*Rot(theta)*u built by the model for theta on a 2^-20 grid in (-pi,pi) plus special values; normalize_to uses positive and negative magnitudes. Non-trivial = u with non-zero pairwise distinct components; distinct = distinct input tuples.";
pub const ASSUME: &[&str] = &[
    "enclosure arithmetic as in C06; acos is evaluated on the argument clipped to [-1,1] (the property is stated over the reals)",
    "parallelism is tested by cross ratios x_i y_j = x_j y_i, direction by the sign of the dot product",
];


// ---------------------------------------------------------------- native f64 / f32: accuracy where a field cannot tell

/// Two formulas that agree over a field can differ wildly in floating point
/// (catastrophic cancellation).  These monitors run the real f64/f32 code on
/// inputs where the exact answer is known by construction and flag only errors
/// orders of magnitude above rounding: points far from the origin but close
/// together (integer grid: the exact squared distance is an integer), exactly
/// opposite / nearly opposite 2-D vectors, and nearly unit vectors.
pub fn native(cfg: &cgv_core::fw::RunCfg, extra: &mut cgv_core::fw::Extra) {
    use cgmath::{Rad, Vector2 as V2};
    use serde_json::json;
    let n = if cfg.tier == Tier::Quick { 4000 } else { 300_000 };
    let mut evals = 0u64;
    let mut seen = std::collections::HashSet::new();
    let mut worst = [0f64; 4];
    let mut fail: Option<(String, String, serde_json::Value)> = None;
    for i in 0..n {
        if fail.is_some() {
            break;
        }
        let mut rng = Rng::for_case(cfg.seed, "c11_native", i);
        evals += 1;
        // (1) integer grid far from the origin: exact squared distance
        let base = [rng.range(-400_000_000, 400_000_000), rng.range(-400_000_000, 400_000_000), rng.range(-400_000_000, 400_000_000)];
        let off = [rng.range(-2000, 2000), rng.range(-2000, 2000), rng.range(-2000, 2000)];
        let exact2: i64 = off.iter().map(|x| x * x).sum();
        seen.insert((base[0], off[0]));
        let r = cgv_core::fw::catch(|| {
            let p = Point3::new(base[0] as f64, base[1] as f64, base[2] as f64);
            let q = Point3::new((base[0] + off[0]) as f64, (base[1] + off[1]) as f64, (base[2] + off[2]) as f64);
            let (u, v) = (p.to_vec(), q.to_vec());
            let e3 = exact2 as f64;
            let e2 = (off[0] * off[0] + off[1] * off[1]) as f64;
            let e1 = (off[0] * off[0]) as f64;
            let rel = |got: f64, exp: f64| if exp == 0.0 { got.abs() } else { ((got - exp) / exp).abs() };
            let mut w = 0f64;
            w = w.max(rel(p.distance2(q), e3)).max(rel(q.distance2(p), e3)).max(rel(u.distance2(v), e3));
            w = w.max(rel(p.distance(q), e3.sqrt())).max(rel(u.distance(v), e3.sqrt())).max(rel((u - v).magnitude(), e3.sqrt()));
            let (p2a, q2a) = (Point2::new(p.x, p.y), Point2::new(q.x, q.y));
            w = w.max(rel(p2a.distance2(q2a), e2)).max(rel(p2a.to_vec().distance2(q2a.to_vec()), e2));
            let (p1a, q1a) = (Point1::new(p.x), Point1::new(q.x));
            w = w.max(rel(p1a.distance2(q1a), e1));
            let qa = Quaternion::new(p.x, p.y, p.z, 7.0);
            let qb = Quaternion::new(q.x, q.y, q.z, 7.0);
            w = w.max(rel(qa.distance2(qb), e3));
            // f32: coordinates around 1000, offsets of halves
            let pf = Point3::new(base[0] as f32 % 4096.0, base[1] as f32 % 4096.0, base[2] as f32 % 4096.0);
            let of = [(off[0] % 8) as f32 * 0.5, (off[1] % 8) as f32 * 0.5, (off[2] % 8) as f32 * 0.5];
            let qf = Point3::new(pf.x + of[0], pf.y + of[1], pf.z + of[2]);
            let ef = of[0] * of[0] + of[1] * of[1] + of[2] * of[2];
            let wf = if ef == 0.0 { pf.distance2(qf).abs() as f64 } else { ((pf.distance2(qf) - ef) / ef).abs() as f64 };
            (w, wf)
        });
        match r {
            Err(p) => fail = Some(("native_distance".into(), format!("unexpected panic: {p}"), json!({"index": i}))),
            Ok((w, wf)) => {
                worst[0] = worst[0].max(w);
                worst[1] = worst[1].max(wf);
                if !(w <= 1e-9) {
                    fail = Some(("native_distance".into(), format!("f64 distance/distance2 of points {base:?} and +{off:?}: relative error {w:e} (exact value {exact2}); tolerance 1e-9"), json!({"base": base, "offset": off})));
                } else if !(wf <= 1e-4) {
                    fail = Some(("native_distance".into(), format!("f32 distance2 of nearby points far from the origin: relative error {wf:e}; tolerance 1e-4"), json!({"base": base, "offset": off})));
                }
            }
        }
        // (2) 2-D signed angle: exactly opposite / equal direction, and close to opposite
        let u = V2::new(rng.uniform(-4.0, 4.0), rng.uniform(-4.0, 4.0));
        if u.magnitude2() > 0.01 {
            let k = 2f64.powi(rng.range(-3, 3) as i32);
            let a_opp = u.angle(-u * k).0;
            let a_same = u.angle(u * k).0;
            let delta = 10f64.powf(rng.uniform(-9.0, -2.0)) * if rng.bool() { 1.0 } else { -1.0 };
            let th = std::f64::consts::PI - delta.abs();
            let th = if delta < 0.0 { -th } else { th };
            let v = V2::new(th.cos() * u.x - th.sin() * u.y, th.sin() * u.x + th.cos() * u.y) * k;
            let a_near = u.angle(v).0;
            let e = (a_near - th).abs();
            worst[2] = worst[2].max(e);
            let pi = std::f64::consts::PI;
            if !((a_opp.abs() - pi).abs() <= 1e-12) {
                fail = Some(("native_angle2d".into(), format!("angle({u:?}, -{k} u) = {a_opp:e}, expected +-pi"), json!({"u": [u.x, u.y], "k": k})));
            } else if !(a_same.abs() <= 1e-12) {
                fail = Some(("native_angle2d".into(), format!("angle({u:?}, {k} u) = {a_same:e}, expected 0"), json!({"u": [u.x, u.y], "k": k})));
            } else if !(e <= 1e-11) {
                fail = Some(("native_angle2d".into(), format!("angle(u, Rot({th}) u) is off by {e:e} rad (tolerance 1e-11) {} rad away from opposite", delta.abs()), json!({"u": [u.x, u.y], "theta": th})));
            }
            let _ = Rad(0.0f64);
        }
        // (3) nearly unit quaternions / vectors: normalize really normalizes
        let d = 10f64.powf(rng.uniform(-12.0, -3.0)) * if rng.bool() { 1.0 } else { -1.0 };
        let q = Quaternion::new(rng.uniform(-1.0, 1.0), rng.uniform(-1.0, 1.0), rng.uniform(-1.0, 1.0), rng.uniform(-1.0, 1.0));
        if q.magnitude2() > 0.01 {
            let q = q.normalize() * (1.0 + d);
            let e = (q.normalize().magnitude() - 1.0).abs().max((q.normalize_to(2.0).magnitude() - 2.0).abs());
            let v3n = (q.v.normalize().magnitude() - 1.0).abs();
            worst[3] = worst[3].max(e).max(v3n);
            if !(e <= 1e-13 && v3n <= 1e-13) {
                fail = Some(("native_normalize".into(), format!("normalize of a quaternion/vector of length 1{d:+e} has length off by {:e} (tolerance 1e-13)", e.max(v3n)), json!({"d": d})));
            }
        }
    }
    if let Some(f) = fail {
        extra.violations.push(f);
    }
    extra.evaluations += evals;
    extra.distinct_nontrivial += seen.len() as u64;
    extra.samples.push(json!({"clause": "native", "example": "points (3.1e8,-2.2e8,1.0e8) and the same +(3,-4,12): distance2 must be 169 within 1e-9 relative; angle(u, -2u) = +-pi; |normalize(q*(1+1e-8))| = 1"}));
    extra.sections.insert(
        "native_accuracy".into(),
        json!({"cases": evals, "worst_relative_error_distance_f64": worst[0], "tolerance": 1e-9, "worst_relative_error_distance2_f32": worst[1], "tolerance_f32": 1e-4,
               "worst_error_2d_angle_near_opposite_rad": worst[2], "tolerance_angle": 1e-11, "worst_error_normalized_length": worst[3], "tolerance_length": 1e-13}),
    );
}
