//! C11 — magnitude, distance, normalisation, angle, projection (DESIGN §C11).

use cgmath::prelude::*;
use cgmath::{Point1, Point2, Point3, Quaternion, Vector1, Vector2, Vector3, Vector4};
use num_traits::Float;

use cgv_core::clause;
use cgv_core::conv::*;
use cgv_core::fw::{Case, Clause};
use cgv_core::gen::{self, Rng, Tier};
use cgv_core::model::*;
use cgv_core::sc::{Ck, Rat, Sc};

fn rmul(a: Rat, b: Rat) -> Rat {
    Rat::new(a.n * b.n, a.d * b.d)
}

/// a vector of dimension n with rational length: k * (rational unit vector)
fn rational_length(rng: &mut Rng, tier: Tier, n: usize) -> Vec<Rat> {
    let k = gen::nz_rat(rng, tier);
    let u: Vec<Rat> = match n {
        1 => vec![Rat::int(1)],
        2 => gen::unit_vec2(rng, tier).to_vec(),
        3 => gen::unit_vec3(rng, tier).to_vec(),
        _ => gen::unit_quat(rng, tier).to_vec(),
    };
    u.iter().map(|x| rmul(*x, k)).collect()
}

/// class 0: rational lengths everywhere (exact engine decides); class 1: arbitrary rationals
fn gen_pair(rng: &mut Rng, tier: Tier, n: usize) -> Case {
    let mut c = Case::new();
    if rng.chance(1, 2) {
        c.class = 0;
        // v = u + w so that |u - v| is rational as well; the property needs non-zero lengths
        let (u, v) = loop {
            let u = rational_length(rng, tier, n);
            let w = rational_length(rng, tier, n);
            let v: Vec<Rat> = (0..n).map(|i| Rat::new(u[i].n * w[i].d + w[i].n * u[i].d, u[i].d * w[i].d)).collect();
            if v.iter().any(|x| !x.is_zero()) && u.iter().any(|x| !x.is_zero()) {
                break (u, v);
            }
        };
        c.push_r(&u).push_r(&v);
        c.nontrivial = gen::is_nontrivial(&u);
    } else {
        c.class = 1;
        let u = gen::distinct_rats(rng, tier, n);
        let v = gen::distinct_rats(rng, tier, n);
        c.push_r(&u).push_r(&v);
        c.nontrivial = true;
    }
    // a target magnitude (positive and negative) for normalize_to
    c.push_r(&[gen::nz_rat(rng, tier)]);
    c
}

macro_rules! space {
    ($md:ident, $N:expr, $T:ident, $arr:ident, $mk:ident) => {
        pub mod $md {
            use super::*;
            const N: usize = $N;
            pub fn g(rng: &mut Rng, tier: Tier) -> Case {
                gen_pair(rng, tier, N)
            }
            pub fn body<S: Sc>(case: &Case, ck: &mut Ck<S>) {
                let mut rd = case.rd();
                let (u, v): (V<S, N>, V<S, N>) = (rd.arr(), rd.arr());
                let m: S = rd.s();
                let (vu, vv) = ($mk(u), $mk(v));
                let zero = S::i(0);
                // magnitude
                let mag = vu.magnitude();
                ck.eq("magnitude^2 = magnitude2", mag * mag, vu.magnitude2());
                ck.eq("magnitude2 vs model", vu.magnitude2(), vdot(u, u));
                ck.le("magnitude2 >= 0", zero, vu.magnitude2());
                ck.le("magnitude >= 0", zero, mag);
                // distance
                let d = vu.distance(vv);
                ck.eq("distance symmetric", d, vv.distance(vu));
                ck.eq("distance = magnitude(u - v)", d, (vu - vv).magnitude());
                ck.eq("distance2 = distance^2", vu.distance2(vv), d * d);
                ck.eq("distance2 vs model", vu.distance2(vv), vdot(vsub(u, v), vsub(u, v)));
                ck.eq("distance2 symmetric", vu.distance2(vv), vv.distance2(vu));
                // normalisation
                let nu = vu.normalize();
                ck.eq("|normalize(u)|^2 = 1", nu.magnitude2(), S::i(1));
                let nm = vu.normalize_to(m);
                ck.eq("|normalize_to(u,m)|^2 = m^2", nm.magnitude2(), m * m);
                let (a, b) = ($arr(nu), $arr(nm));
                for i in 0..N {
                    for j in 0..i {
                        ck.eq("normalize(u) parallel to u", a[i] * u[j], a[j] * u[i]);
                        ck.eq("normalize_to(u,m) parallel to u", b[i] * u[j], b[j] * u[i]);
                    }
                }
                ck.lt("normalize(u) . u > 0", zero, vdot(a, u));
                // positive multiple for m > 0, negative for m < 0
                ck.lt("sign(normalize_to(u,m) . u) = sign(m)", zero, vdot(b, u) * m);
                // projection
                let p = $arr(vu.project_on(vv));
                for i in 0..N {
                    for j in 0..i {
                        ck.eq("project_on(u,v) parallel to v", p[i] * v[j], p[j] * v[i]);
                    }
                }
                ck.eq("(u - project_on(u,v)) . v = 0", vdot(vsub(u, p), v), zero);
                ck.eq("project_on(u,v) . v = u . v", vdot(p, v), vdot(u, v));
                ck.note("magnitude", &mag);
            }
            /// |u||v|cos(angle) = u.v, range, symmetry (irrational: interval engine)
            pub fn angle<S: Sc>(case: &Case, ck: &mut Ck<S>) {
                let mut rd = case.rd();
                let (u, v): (V<S, N>, V<S, N>) = (rd.arr(), rd.arr());
                let (vu, vv) = ($mk(u), $mk(v));
                let zero = S::i(0);
                if N != 2 {
                    let ang = vu.angle(vv);
                    ck.eq("|u||v|cos(angle) = u.v", vu.magnitude() * vv.magnitude() * Float::cos(ang.0), vdot(u, v));
                    ck.le("angle >= 0", zero, ang.0);
                    ck.le("angle <= pi", ang.0, S::pi().widen(4));
                    ck.eq("angle symmetric", ang.0, vv.angle(vu).0);
                    ck.note("angle", &ang);
                } else {
                    let ang = vu.angle(vv);
                    ck.eq("|u||v|cos(angle) = u.v", vu.magnitude() * vv.magnitude() * Float::cos(ang.0), vdot(u, v));
                    ck.le("angle <= pi", ang.0, S::pi().widen(4));
                    ck.le("angle >= -pi", -S::pi().widen(4), ang.0);
                    // sign: counter-clockwise positive (perp-dot sign)
                    ck.le("sign(angle) = sign(u x v)", zero, ang.0 * (u[0] * v[1 % N] - u[1 % N] * v[0]));
                }
            }
        }
    };
}

space!(s1, 1, Vector1, v1, mk_v1);
space!(s2, 2, Vector2, v2, mk_v2);
space!(s3, 3, Vector3, v3, mk_v3);
space!(s4, 4, Vector4, v4, mk_v4);
space!(sq, 4, Quaternion, qt, mk_qt);

// ---------------------------------------------------------------- 2-D signed angle

fn g_angle2(rng: &mut Rng, tier: Tier) -> Case {
    use std::f64::consts::PI;
    let mut c = Case::new();
    c.push_r(&gen::distinct_rats(rng, tier, 2));
    c.push_r(&[Rat::new(rng.range(1, 9), rng.pick(&[1, 2, 3]))]);
    let theta = match rng.below(10) {
        0 => rng.pick(&[0.0, PI / 2.0, -PI / 2.0, 1e-6, -1e-6, 3.0, -3.0]),
        _ => rng.dyadic(-PI + 0.01, PI - 0.01),
    };
    c.push_f(&[theta]);
    c.nontrivial = theta != 0.0;
    c
}
fn angle2<S: Sc>(case: &Case, ck: &mut Ck<S>) {
    let mut rd = case.rd();
    let u: V<S, 2> = rd.arr();
    let k: S = rd.s();
    let th: S = rd.x();
    let (s, c) = (Float::sin(th), Float::cos(th));
    // v = k * Rot(theta) u : counter-clockwise by theta
    let v = [(c * u[0] - s * u[1]) * k, (s * u[0] + c * u[1]) * k];
    let (vu, vv) = (mk_v2(u), mk_v2(v));
    let a = vu.angle(vv);
    ck.eq("angle(u, k Rot(t) u) = t", a.0, th);
    ck.eq("angle(v,u) = -angle(u,v)", vv.angle(vu).0, -th);
    ck.le("angle <= pi", a.0, S::pi().widen(4));
    ck.le("angle >= -pi", -S::pi().widen(4), a.0);
    ck.eq("|u||v|cos(angle) = u.v", vu.magnitude() * vv.magnitude() * Float::cos(a.0), vdot(u, v));
    ck.note("angle", &a);
}

// ---------------------------------------------------------------- points (metric only)

fn g_points(rng: &mut Rng, tier: Tier) -> Case {
    let mut c = gen_pair(rng, tier, 3);
    c.r.pop();
    c
}
fn points<S: Sc>(case: &Case, ck: &mut Ck<S>) {
    let mut rd = case.rd();
    let (p, q): (V<S, 3>, V<S, 3>) = (rd.arr(), rd.arr());
    macro_rules! chk {
        ($P:ident, $n:expr, $mkp:ident, $mkv:ident, $tag:expr) => {{
            let mut a = [S::i(0); $n];
            let mut b = [S::i(0); $n];
            for i in 0..$n {
                a[i] = p[i];
                b[i] = q[i];
            }
            let (pa, pb) = ($mkp(a), $mkp(b));
            let d = pa.distance(pb);
            ck.eq(concat!($tag, " distance symmetric"), d, pb.distance(pa));
            ck.eq(concat!($tag, " distance = |p - q|"), d, (pa - pb).magnitude());
            ck.eq(concat!($tag, " distance2 = distance^2"), pa.distance2(pb), d * d);
            ck.eq(concat!($tag, " distance2 vs model"), pa.distance2(pb), vdot(vsub(a, b), vsub(a, b)));
            ck.le(concat!($tag, " distance >= 0"), S::i(0), d);
        }};
    }
    chk!(Point1, 1, mk_p1, mk_v1, "Point1");
    chk!(Point2, 2, mk_p2, mk_v2, "Point2");
    chk!(Point3, 3, mk_p3, mk_v3, "Point3");
    let _: Option<(Point1<S>, Point2<S>, Point3<S>)> = None;
}

const EP: &[&str] = &[
    "InnerSpace::{magnitude,magnitude2,normalize,normalize_to,angle,project_on}",
    "MetricSpace::{distance,distance2}",
];

fn b1<S: Sc>(c: &Case, k: &mut Ck<S>) {
    s1::body(c, k)
}
fn b2<S: Sc>(c: &Case, k: &mut Ck<S>) {
    s2::body(c, k)
}
fn b3<S: Sc>(c: &Case, k: &mut Ck<S>) {
    s3::body(c, k)
}
fn b4<S: Sc>(c: &Case, k: &mut Ck<S>) {
    s4::body(c, k)
}
fn bq<S: Sc>(c: &Case, k: &mut Ck<S>) {
    sq::body(c, k)
}
fn a1<S: Sc>(c: &Case, k: &mut Ck<S>) {
    s1::angle(c, k)
}
fn a2<S: Sc>(c: &Case, k: &mut Ck<S>) {
    s2::angle(c, k)
}
fn a3<S: Sc>(c: &Case, k: &mut Ck<S>) {
    s3::angle(c, k)
}
fn a4<S: Sc>(c: &Case, k: &mut Ck<S>) {
    s4::angle(c, k)
}
fn aq<S: Sc>(c: &Case, k: &mut Ck<S>) {
    sq::angle(c, k)
}

pub fn clauses() -> Vec<Clause> {
    vec![
        clause!("vector1", EP, s1::g, b1, weight = 0.5, classes = 2),
        clause!("vector2", EP, s2::g, b2, weight = 1.0, classes = 2),
        clause!("vector3", EP, s3::g, b3, weight = 1.0, classes = 2),
        clause!("vector4", EP, s4::g, b4, weight = 1.0, classes = 2),
        clause!("quaternion", EP, sq::g, bq, weight = 1.0, classes = 2),
        clause!("angle1", EP, s1::g, a1, weight = 0.25, classes = 0),
        clause!("angle2", EP, s2::g, a2, weight = 0.5, classes = 0),
        clause!("angle3", EP, s3::g, a3, weight = 0.5, classes = 0),
        clause!("angle4", EP, s4::g, a4, weight = 0.5, classes = 0),
        clause!("angle_quaternion", EP, sq::g, aq, weight = 0.5, classes = 0),
        clause!("angle2d", EP, g_angle2, angle2),
        clause!("points", EP, g_points, points, weight = 1.0, classes = 2),
    ]
}

pub const RULE: &str = "pairs (u,v) of dimension 1-4 (and quaternions, points): class 0 has rational lengths everywhere (u = k*unit rational point, v = u + such a vector) so that the exact engine decides every square root; class 1 arbitrary small rationals decided by enclosures; 2-D signed angle: v = k*Rot(theta)*u built by the model for theta on a 2^-20 grid in (-pi,pi) plus special values; normalize_to uses positive and negative magnitudes. Non-trivial = u with non-zero pairwise distinct components; distinct = distinct input tuples.";
pub const ASSUME: &[&str] = &[
    "enclosure arithmetic as in C06; acos is evaluated on the argument clipped to [-1,1] (the property is stated over the reals)",
    "parallelism is tested by cross ratios x_i y_j = x_j y_i, direction by the sign of the dot product",
];
