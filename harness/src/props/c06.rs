//! C06 — angle and axis-angle constructors (DESIGN §C06).

use cgmath::prelude::*;
use cgmath::{Basis2, Basis3, Deg, Matrix2, Matrix3, Matrix4, Point2, Point3, Quaternion, Rad};
use num_traits::Float;

use cgv_core::clause;
use cgv_core::conv::*;
use cgv_core::fw::{Case, Clause};
use cgv_core::gen::{self, Rng, Tier};
use cgv_core::model::*;
use cgv_core::sc::{Ck, Rat, Sc};

/// angle in the unit chosen by `unit` (0 = Rad, 1 = Deg), returned as
/// (radian measure at S for the spec, code-side Rad, code-side Deg)
pub fn gen_angle(rng: &mut Rng, c: &mut Case) {
    let unit = rng.below(3) == 0;
    if unit {
        let d = match rng.below(8) {
            0 => rng.pick(&[0.0, 90.0, -90.0, 180.0, -180.0, 360.0, 45.0, 30.0, 1e-7]),
            _ => rng.dyadic(-720.0, 720.0),
        };
        c.push_f(&[d]);
        c.push_k(&[1]);
    } else {
        c.push_f(&[gen::angle(rng)]);
        c.push_k(&[0]);
    }
}

/// spec-side radian measure of the angle read from the case
pub fn read_angle<S: Sc>(rd: &mut cgv_core::fw::Rd) -> (S, S, bool) {
    let x: S = rd.x();
    let deg = rd.k() == 1;
    let t = if deg { (x * S::pi() / S::i(180)).widen(2) } else { x };
    (t, x, deg)
}

fn g_axis(rng: &mut Rng, tier: Tier) -> Case {
    let mut c = Case::new();
    // class 0: exact rational unit axis; class 1: normalised arbitrary axis
    if rng.chance(3, 4) {
        c.push_r(&gen::unit_vec3(rng, tier));
        c.push_k(&[0]);
        c.class = 0;
    } else {
        // arbitrary non-zero rational direction, including "round" ones such as the space
        // diagonals (+-1,+-1,+-1) and face diagonals, normalised inside the engine
        loop {
            let (v, _) = gen::rats(rng, tier, 3);
            if v.iter().any(|r| !r.is_zero()) {
                c.push_r(&v);
                break;
            }
        }
        c.push_k(&[1]);
        c.class = 1;
    }
    let (v, t) = gen::rats(rng, tier, 3);
    c.push_r(&v);
    c.nontrivial = t;
    gen_angle(rng, &mut c);
    c
}

fn read_axis<S: Sc>(rd: &mut cgv_core::fw::Rd) -> V<S, 3> {
    let a: V<S, 3> = rd.arr();
    if rd.k() == 1 {
        let n = Float::sqrt(vdot(a, a));
        [a[0] / n, a[1] / n, a[2] / n]
    } else {
        a
    }
}

fn axis_angle<S: Sc>(case: &Case, ck: &mut Ck<S>) {
    let mut rd = case.rd();
    let a = read_axis::<S>(&mut rd);
    let v: V<S, 3> = rd.arr();
    let (t, x, deg) = read_angle::<S>(&mut rd);
    let (s, c) = (Float::sin(t), Float::cos(t));
    let exp = rodrigues(a, s, c, v);
    let (va, vv) = (mk_v3(a), mk_v3(v));
    let m3r: Matrix3<S> = if deg { Matrix3::from_axis_angle(va, Deg(x)) } else { Matrix3::from_axis_angle(va, Rad(x)) };
    let m4r: Matrix4<S> = if deg { Matrix4::from_axis_angle(va, Deg(x)) } else { Matrix4::from_axis_angle(va, Rad(x)) };
    let b3r: Basis3<S> = if deg { Basis3::from_axis_angle(va, Deg(x)) } else { Basis3::from_axis_angle(va, Rad(x)) };
    let qr: Quaternion<S> = if deg { Quaternion::from_axis_angle(va, Deg(x)) } else { Quaternion::from_axis_angle(va, Rad(x)) };
    ck.eqv("Matrix3 Rodrigues", v3(m3r * vv), exp);
    ck.eqv("Matrix4 Rodrigues", v3((m4r * vv.extend(S::i(0))).truncate()), exp);
    ck.eqv("Basis3 Rodrigues", v3(b3r.rotate_vector(vv)), exp);
    ck.eqv("Quaternion Rodrigues", v3(qr.rotate_vector(vv)), exp);
    ck.eqm("Matrix3 vs model matrix", m3(m3r), rot_axis(a, s, c));
    ck.eqm("Matrix4 vs model matrix", m4(m4r), embed34(rot_axis(a, s, c)));
    // quaternion components: (cos t/2, a sin t/2)
    let h = t / S::i(2);
    let (sh, chh) = (Float::sin(h), Float::cos(h));
    ck.eqv("Quaternion components", qt(qr), [chh, a[0] * sh, a[1] * sh, a[2] * sh]);
    // fixes the axis, orthonormal, det +1
    ck.eqv("M a = a", v3(m3r * va), a);
    ck.eqv("q a = a", v3(qr * va), a);
    ck.eqm("M^T M = I", m3(m3r.transpose() * m3r), mident());
    ck.eq("det M = 1", m3r.determinant(), S::i(1));
    ck.eq("det M4 = 1", m4r.determinant(), S::i(1));
    ck.eq("|q|^2 = 1", qr.magnitude2(), S::i(1));
    // inverse
    ck.eqm("M3 * invert = I", m3(m3r * SquareMatrix::invert(&m3r).unwrap()), mident());
    ck.eqm("Basis3 * invert = one", m3(Matrix3::from(b3r * Rotation::invert(&b3r))), mident());
    ck.eqv(
        "q * invert = one",
        qt(qr * Rotation::invert(&qr)),
        [S::i(1), S::i(0), S::i(0), S::i(0)],
    );
    // rotate_point(p) = rotate_vector(p - origin)
    let p = Point3::new(v[0], v[1], v[2]);
    ck.eqv("Basis3 rotate_point", p3(b3r.rotate_point(p)), v3(b3r.rotate_vector(p - Point3::origin())));
    ck.eqv("Quaternion rotate_point", p3(qr.rotate_point(p)), v3(qr.rotate_vector(p - Point3::origin())));
    ck.note("t(rad)", &t);
    ck.note("M3*v", &(m3r * vv));
}

fn g_xyz(rng: &mut Rng, tier: Tier) -> Case {
    let mut c = Case::new();
    let (v, t) = gen::rats(rng, tier, 3);
    c.push_r(&v);
    c.nontrivial = t;
    gen_angle(rng, &mut c);
    c
}

fn angle_xyz<S: Sc>(case: &Case, ck: &mut Ck<S>) {
    let mut rd = case.rd();
    let v: V<S, 3> = rd.arr();
    let (t, x, deg) = read_angle::<S>(&mut rd);
    let (s, c) = (Float::sin(t), Float::cos(t));
    let vv = mk_v3(v);
    let (z, o) = (S::i(0), S::i(1));
    let axes = [[o, z, z], [z, o, z], [z, z, o]];
    let models = [rot_x(s, c), rot_y(s, c), rot_z(s, c)];
    macro_rules! mk {
        ($T:ty, $f:ident) => {
            if deg {
                <$T>::$f(Deg(x))
            } else {
                <$T>::$f(Rad(x))
            }
        };
    }
    let m3s: [Matrix3<S>; 3] = [mk!(Matrix3<S>, from_angle_x), mk!(Matrix3<S>, from_angle_y), mk!(Matrix3<S>, from_angle_z)];
    let m4s: [Matrix4<S>; 3] = [mk!(Matrix4<S>, from_angle_x), mk!(Matrix4<S>, from_angle_y), mk!(Matrix4<S>, from_angle_z)];
    let b3s: [Basis3<S>; 3] = [mk!(Basis3<S>, from_angle_x), mk!(Basis3<S>, from_angle_y), mk!(Basis3<S>, from_angle_z)];
    let qs: [Quaternion<S>; 3] = [mk!(Quaternion<S>, from_angle_x), mk!(Quaternion<S>, from_angle_y), mk!(Quaternion<S>, from_angle_z)];
    let names = ["x", "y", "z"];
    for i in 0..3 {
        let n = names[i];
        let ax = mk_v3(axes[i]);
        ck.eqm(&format!("Matrix3::from_angle_{n} vs model"), m3(m3s[i]), models[i]);
        ck.eqm(&format!("Matrix4::from_angle_{n} vs model"), m4(m4s[i]), embed34(models[i]));
        ck.eqm(&format!("Basis3::from_angle_{n} vs model"), m3(Matrix3::from(b3s[i])), models[i]);
        ck.eqv(&format!("Quaternion::from_angle_{n} acts like model"), v3(qs[i] * vv), mvec(models[i], v));
        // equal to from_axis_angle about the unit axis
        let m3a: Matrix3<S> = if deg { Matrix3::from_axis_angle(ax, Deg(x)) } else { Matrix3::from_axis_angle(ax, Rad(x)) };
        let m4a: Matrix4<S> = if deg { Matrix4::from_axis_angle(ax, Deg(x)) } else { Matrix4::from_axis_angle(ax, Rad(x)) };
        let b3a: Basis3<S> = if deg { Basis3::from_axis_angle(ax, Deg(x)) } else { Basis3::from_axis_angle(ax, Rad(x)) };
        let qa: Quaternion<S> = if deg { Quaternion::from_axis_angle(ax, Deg(x)) } else { Quaternion::from_axis_angle(ax, Rad(x)) };
        ck.eqm(&format!("Matrix3 angle_{n} = axis_angle"), m3(m3s[i]), m3(m3a));
        ck.eqm(&format!("Matrix4 angle_{n} = axis_angle"), m4(m4s[i]), m4(m4a));
        ck.eqm(&format!("Basis3 angle_{n} = axis_angle"), m3(Matrix3::from(b3s[i])), m3(Matrix3::from(b3a)));
        ck.eqv(&format!("Quaternion angle_{n} = axis_angle"), qt(qs[i]), qt(qa));
    }
    ck.note("t(rad)", &t);
}

fn g_2d(rng: &mut Rng, tier: Tier) -> Case {
    let mut c = Case::new();
    let (v, t) = gen::rats(rng, tier, 2);
    c.push_r(&v);
    c.nontrivial = t;
    gen_angle(rng, &mut c);
    c
}

fn angle_2d<S: Sc>(case: &Case, ck: &mut Ck<S>) {
    let mut rd = case.rd();
    let v: V<S, 2> = rd.arr();
    let (t, x, deg) = read_angle::<S>(&mut rd);
    let (s, c) = (Float::sin(t), Float::cos(t));
    let m: Matrix2<S> = if deg { Matrix2::from_angle(Deg(x)) } else { Matrix2::from_angle(Rad(x)) };
    let b: Basis2<S> = if deg { Basis2::from_angle(Deg(x)) } else { Basis2::from_angle(Rad(x)) };
    let (z, o) = (S::i(0), S::i(1));
    ck.eqv("Matrix2 (1,0) -> (cos,sin)", v2(m * mk_v2([o, z])), [c, s]);
    ck.eqv("Matrix2 (0,1) -> (-sin,cos)", v2(m * mk_v2([z, o])), [-s, c]);
    ck.eqv("Basis2 (1,0) -> (cos,sin)", v2(b.rotate_vector(mk_v2([o, z]))), [c, s]);
    ck.eqv("Basis2 (0,1) -> (-sin,cos)", v2(b.rotate_vector(mk_v2([z, o]))), [-s, c]);
    let exp = [c * v[0] - s * v[1], s * v[0] + c * v[1]];
    ck.eqv("Matrix2 * v", v2(m * mk_v2(v)), exp);
    ck.eqv("Basis2.rotate_vector(v)", v2(b.rotate_vector(mk_v2(v))), exp);
    ck.eqm("Basis2 as matrix", m2(Matrix2::from(b)), m2(m));
    ck.eqm("Basis2 * invert = one", m2(Matrix2::from(b * Rotation::invert(&b))), mident());
    ck.eqm("Basis2::one", m2(Matrix2::from(Basis2::<S>::one())), mident());
    let p = Point2::new(v[0], v[1]);
    ck.eqv("Basis2 rotate_point", p2(b.rotate_point(p)), v2(b.rotate_vector(p - Point2::origin())));
    ck.eq("det = 1", m.determinant(), S::i(1));
}

fn g_compose(rng: &mut Rng, tier: Tier) -> Case {
    let mut c = Case::new();
    c.push_r(&gen::unit_vec3(rng, tier));
    let (v, t) = gen::rats(rng, tier, 3);
    c.push_r(&v);
    c.nontrivial = t;
    // one case in four composes a rotation with itself (bit-equal operands)
    let t1 = gen::angle(rng);
    let t2 = if rng.chance(1, 4) { t1 } else { gen::angle(rng) };
    c.push_f(&[t1, t2]);
    c
}

fn compose<S: Sc>(case: &Case, ck: &mut Ck<S>) {
    let mut rd = case.rd();
    let a: V<S, 3> = rd.arr();
    let v: V<S, 3> = rd.arr();
    let (t1, t2): (S, S) = (rd.x(), rd.x());
    let (va, vv) = (mk_v3(a), mk_v3(v));
    let t12 = t1 + t2;
    let m = Matrix3::from_axis_angle(va, Rad(t1)) * Matrix3::from_axis_angle(va, Rad(t2));
    ck.eqm("Matrix3 R(t1)R(t2) = R(t1+t2)", m3(m), m3(Matrix3::from_axis_angle(va, Rad(t12))));
    let m = Matrix4::from_axis_angle(va, Rad(t1)) * Matrix4::from_axis_angle(va, Rad(t2));
    ck.eqm("Matrix4 R(t1)R(t2) = R(t1+t2)", m4(m), m4(Matrix4::from_axis_angle(va, Rad(t12))));
    let b = Basis3::from_axis_angle(va, Rad(t1)) * Basis3::from_axis_angle(va, Rad(t2));
    ck.eqm(
        "Basis3 R(t1)R(t2) = R(t1+t2)",
        m3(Matrix3::from(b)),
        m3(Matrix3::from(Basis3::from_axis_angle(va, Rad(t12)))),
    );
    let q = Quaternion::from_axis_angle(va, Rad(t1)) * Quaternion::from_axis_angle(va, Rad(t2));
    ck.eqv(
        "Quaternion R(t1)R(t2) acts as R(t1+t2)",
        v3(q * vv),
        v3(Quaternion::from_axis_angle(va, Rad(t12)) * vv),
    );
    let b2 = Basis2::from_angle(Rad(t1)) * Basis2::from_angle(Rad(t2));
    ck.eqm(
        "Basis2 R(t1)R(t2) = R(t1+t2)",
        m2(Matrix2::from(b2)),
        m2(Matrix2::from(Basis2::from_angle(Rad(t12)))),
    );
    // counter-clockwise about a: for v perpendicular to a, (v x Rv).a has the sign of sin t
    let s1 = Float::sin(t1);
    let w = cross(a, v); // perpendicular to a
    let rw = Matrix3::from_axis_angle(va, Rad(t1)) * mk_v3(w);
    let turn = vdot(cross(w, v3(rw)), a);
    ck.eq("(w x Rw).a = |w|^2 sin t", turn, vdot(w, w) * s1);
}

const EP3: &[&str] = &[
    "Rotation3::from_axis_angle (Matrix3, Matrix4, Basis3, Quaternion)",
    "Rotation::rotate_vector",
    "Rotation::rotate_point",
    "Rotation::invert",
    "Rad::from(Deg)",
];
const EPXYZ: &[&str] = &[
    "Rotation3::from_angle_x",
    "Rotation3::from_angle_y",
    "Rotation3::from_angle_z",
    "Matrix{3,4}::from_angle_{x,y,z}",
];
const EP2: &[&str] = &["Rotation2::from_angle", "Matrix2::from_angle", "Rotation::rotate_vector for Basis2"];

/// Native f32 / f64 runs of every constructor against Rodrigues' formula
/// evaluated in f64 from libm's sin/cos of the very angle value the code
/// receives.  The angle families are the ones the interval engine cannot
/// separate from their neighbours and random draws never hit: log-uniform tiny
/// angles (1e-12 .. 3 rad, where cos t rounds to 1 while sin t does not),
/// angles 10^-k away from a half turn, and angles of many turns; axes are random
/// unit vectors (normalised in the type under test), axes hugging a coordinate
/// axis, and the six signed coordinate axes themselves.
/// Allowance 512 eps |v| (f32) / 4096 eps |v| (f64, where the f64 model itself
/// carries a few eps); the unchanged code stays below 8 eps.
pub fn native_rodrigues(cfg: &cgv_core::fw::RunCfg, extra: &mut cgv_core::fw::Extra) {
    use cgmath::{BaseFloat, Vector2, Vector3};
    use cgv_core::acc::Acc;
    use serde_json::json;
    fn run<T: BaseFloat>(tag: &str, axis0: [f64; 3], angle0: f64, deg: bool, v0: [f64; 3], k: f64, acc: &mut Acc, inputs: &dyn Fn() -> serde_json::Value) {
        let f = |x: f64| T::from(x).unwrap();
        let g = |x: T| x.to_f64().unwrap();
        let axis = Vector3::new(f(axis0[0]), f(axis0[1]), f(axis0[2])).normalize();
        let v = Vector3::new(f(v0[0]), f(v0[1]), f(v0[2]));
        let ang_t = f(angle0);
        // the model sees exactly the values the code sees
        let a = [g(axis.x), g(axis.y), g(axis.z)];
        let x = [g(v.x), g(v.y), g(v.z)];
        let t = if deg { g(ang_t).to_radians() } else { g(ang_t) };
        let (s, c) = t.sin_cos();
        let rod = |a: [f64; 3]| {
            let cr = [a[1] * x[2] - a[2] * x[1], a[2] * x[0] - a[0] * x[2], a[0] * x[1] - a[1] * x[0]];
            let d = a[0] * x[0] + a[1] * x[1] + a[2] * x[2];
            // 1 - cos t without cancellation: 2 sin^2(t/2)
            let h = (t * 0.5).sin();
            let omc = 2.0 * h * h;
            [x[0] * c + cr[0] * s + a[0] * d * omc, x[1] * c + cr[1] * s + a[1] * d * omc, x[2] * c + cr[2] * s + a[2] * d * omc]
        };
        let want = rod(a);
        let vn = x[0].abs() + x[1].abs() + x[2].abs();
        // degrees: the conversion to radians inside the code costs another rounding of the angle
        let tol = k * T::epsilon().to_f64().unwrap() * vn * (1.0 + if deg { t.abs() } else { 0.0 });
        let mut cmp = |name: &str, got: Vector3<T>, want: [f64; 3]| {
            for i in 0..3 {
                acc.check(&format!("{tag} {name} [{i}]"), g(got[i]), want[i], tol, inputs);
            }
        };
        macro_rules! all {
            ($ang:expr) => {{
                cmp("Matrix3::from_axis_angle * v", Matrix3::from_axis_angle(axis, $ang) * v, want);
                cmp("Matrix4::from_axis_angle * v", (Matrix4::from_axis_angle(axis, $ang) * v.extend(T::zero())).truncate(), want);
                cmp("Basis3::from_axis_angle", Basis3::from_axis_angle(axis, $ang).rotate_vector(v), want);
                cmp("Quaternion::from_axis_angle * v", Quaternion::from_axis_angle(axis, $ang) * v, want);
                cmp("Matrix3::from_angle_x * v", Matrix3::from_angle_x($ang) * v, rod([1.0, 0.0, 0.0]));
                cmp("Matrix3::from_angle_y * v", Matrix3::from_angle_y($ang) * v, rod([0.0, 1.0, 0.0]));
                cmp("Matrix3::from_angle_z * v", Matrix3::from_angle_z($ang) * v, rod([0.0, 0.0, 1.0]));
                cmp("Matrix4::from_angle_x * v", (Matrix4::from_angle_x($ang) * v.extend(T::zero())).truncate(), rod([1.0, 0.0, 0.0]));
                cmp("Matrix4::from_angle_y * v", (Matrix4::from_angle_y($ang) * v.extend(T::zero())).truncate(), rod([0.0, 1.0, 0.0]));
                cmp("Matrix4::from_angle_z * v", (Matrix4::from_angle_z($ang) * v.extend(T::zero())).truncate(), rod([0.0, 0.0, 1.0]));
                cmp("Quaternion::from_angle_x * v", Quaternion::from_angle_x($ang) * v, rod([1.0, 0.0, 0.0]));
                cmp("Quaternion::from_angle_y * v", Quaternion::from_angle_y($ang) * v, rod([0.0, 1.0, 0.0]));
                cmp("Quaternion::from_angle_z * v", Quaternion::from_angle_z($ang) * v, rod([0.0, 0.0, 1.0]));
                cmp("Basis3::from_angle_z", Basis3::from_angle_z($ang).rotate_vector(v), rod([0.0, 0.0, 1.0]));
                let w2 = [x[0] * c - x[1] * s, x[0] * s + x[1] * c, 0.0];
                let m2 = Matrix2::from_angle($ang) * Vector2::new(v.x, v.y);
                cmp("Matrix2::from_angle * v", Vector3::new(m2.x, m2.y, T::zero()), w2);
                let b2: Basis2<T> = Rotation2::from_angle($ang);
                let r2 = b2.rotate_vector(Vector2::new(v.x, v.y));
                cmp("Basis2::from_angle", Vector3::new(r2.x, r2.y, T::zero()), w2);
                // a rotation composed with itself (bit-equal operands) turns by twice the angle
                let (s2, c2) = (2.0 * t).sin_cos();
                let w22 = [x[0] * c2 - x[1] * s2, x[0] * s2 + x[1] * c2, 0.0];
                let rr = (b2 * b2).rotate_vector(Vector2::new(v.x, v.y));
                cmp("(Basis2 r * r).rotate_vector", Vector3::new(rr.x, rr.y, T::zero()), w22);
                let rr = (&b2 * &b2).rotate_vector(Vector2::new(v.x, v.y));
                cmp("(&r * &r).rotate_vector (Basis2)", Vector3::new(rr.x, rr.y, T::zero()), w22);
                let m2 = Matrix2::from_angle($ang);
                let rr = (m2 * m2) * Vector2::new(v.x, v.y);
                cmp("(Matrix2 r * r) * v", Vector3::new(rr.x, rr.y, T::zero()), w22);
                let q = Quaternion::from_angle_z($ang);
                cmp("(Quaternion r * r) * v", (q * q) * Vector3::new(v.x, v.y, T::zero()), w22);
                let b3 = Basis3::from_angle_z($ang);
                cmp("(Basis3 r * r).rotate_vector", (b3 * b3).rotate_vector(Vector3::new(v.x, v.y, T::zero())), w22);
            }};
        }
        if deg {
            all!(Deg(ang_t));
        } else {
            all!(Rad(ang_t));
        }
    }
    let n = if cfg.tier == Tier::Quick { 3000 } else { 200_000 };
    let mut acc = Acc::new("c06_constructors_vs_rodrigues");
    for i in 0..n {
        let mut rng = Rng::for_case(cfg.seed, "native_rodrigues", i);
        let snap = |x: f64| (x as f32) as f64;
        let deg = rng.chance(1, 4);
        let unit = if deg { 180.0 / std::f64::consts::PI } else { 1.0 };
        let axis = match rng.below(5) {
            0 => {
                let mut a = [0.0; 3];
                a[rng.below(3) as usize] = if rng.bool() { 1.0 } else { -1.0 };
                a
            }
            4 => {
                // space and face diagonals: components from {-1, 0, 1}, at least two non-zero
                loop {
                    let a = [rng.range(-1, 1) as f64, rng.range(-1, 1) as f64, rng.range(-1, 1) as f64];
                    if a.iter().filter(|x| **x != 0.0).count() >= 2 {
                        break a;
                    }
                }
            }
            1 => {
                let mut comp = |rng: &mut Rng| snap(10f64.powf(rng.uniform(-4.0, 0.0)) * if rng.bool() { 1.0 } else { -1.0 });
                [comp(&mut rng), comp(&mut rng), comp(&mut rng)]
            }
            _ => [snap(rng.uniform(-1.0, 1.0)), snap(rng.uniform(-1.0, 1.0)), snap(rng.uniform(-1.0, 1.0))],
        };
        if axis.iter().map(|x| x * x).sum::<f64>() < 0.01 {
            continue;
        }
        let sign = if rng.bool() { 1.0 } else { -1.0 };
        let (angle64, angle32, class) = match rng.below(4) {
            0 => {
                let a = sign * 10f64.powf(rng.uniform(-12.0, 0.5)) * unit;
                let b = sign * 10f64.powf(rng.uniform(-6.0, 0.5)) * unit;
                (a, snap(b), "log-uniform small angles")
            }
            1 => {
                let k = rng.range(1, 12) as i32;
                let side = if rng.bool() { 1.0 } else { -1.0 };
                let half = std::f64::consts::PI * unit;
                let a = sign * (half + side * half * 10f64.powi(-k));
                (a, snap(a), "10^-k from a half turn")
            }
            2 => {
                let a = snap(rng.uniform(-8192.0, 8192.0) * unit);
                (a, a, "many turns")
            }
            _ => {
                let a = snap(rng.uniform(-7.0, 7.0) * unit);
                (a, a, "ordinary")
            }
        };
        let v = [snap(rng.uniform(-4.0, 4.0)), snap(rng.uniform(-4.0, 4.0)), snap(rng.uniform(-4.0, 4.0))];
        acc.case(class);
        let in64 = || json!({"axis": axis, "angle": angle64, "degrees": deg, "v": v, "type": "f64", "index": i});
        let in32 = || json!({"axis": axis, "angle": angle32, "degrees": deg, "v": v, "type": "f32", "index": i});
        match cgv_core::fw::catch(|| {
            let mut local = Acc::new("c06_constructors_vs_rodrigues");
            run::<f64>("f64", axis, angle64, deg, v, 4096.0, &mut local, &in64);
            run::<f32>("f32", axis, angle32, deg, v, 512.0, &mut local, &in32);
            local
        }) {
            Ok(l) => {
                acc.checks += l.checks;
                acc.worst = acc.worst.max(l.worst);
                if acc.fail.is_none() {
                    acc.fail = l.fail;
                }
            }
            Err(p) => acc.truth(&format!("unexpected panic: {p}"), false, &in64),
        }
        if acc.failed() {
            break;
        }
    }
    acc.finish(extra, "Rodrigues' formula in f64 from libm sin/cos of the angle value the code receives; allowance 512 eps|v| (f32), 4096 eps|v| (f64), times (1+|t|) for degrees");
}

pub fn native(cfg: &cgv_core::fw::RunCfg, extra: &mut cgv_core::fw::Extra) {
    cgv_core::twins::c06(cfg, extra);
    native_rodrigues(cfg, extra);
}

pub fn clauses() -> Vec<Clause> {
    let _ = Rat::int(0);
    vec![
        clause!("axis_angle", EP3, g_axis, axis_angle, weight = 1.0, classes = 2),
        clause!("angle_xyz", EPXYZ, g_xyz, angle_xyz),
        clause!("angle_2d", EP2, g_2d, angle_2d),
        clause!("compose", EP3, g_compose, compose),
    ]
}

pub const RULE: &str = "angles: two thirds Rad, one third Deg; uniform on a 2^-20 grid in [-4pi,4pi] (Deg: [-720,720]) plus the special values 0, +-pi/2, +-pi, +-2pi, +-1e-9, +-1e-5 (Deg: 0,+-90,+-180,360,45,30,1e-7); axes: class 0 exact rational points of the unit sphere, class 1 arbitrary rational vectors normalised inside the interval engine; vectors: small rationals. Every case with a non-zero angle is decided by enclosure intersection (the exact engine decides angle 0). Non-trivial = vector with non-zero pairwise distinct components; distinct = distinct input tuples per clause.";
pub const ASSUME: &[&str] = &[
    "IEEE-754 + - * / sqrt correctly rounded; glibc sin/cos/atan2 within 4 ulp",
    "an enclosure intersection cannot refute a deviation smaller than the enclosure width (max width is reported as iv_max_oracle_width)",
    "pi is enclosed by [PI_f64, next_up(PI_f64)]; Deg->Rad on the spec side is widened by 2 ulp",
];
