//! C10 — projections (DESIGN §C10).

use cgmath::prelude::*;
use cgmath::{frustum, ortho, perspective, planar, Deg, Matrix4, Ortho, Perspective, PerspectiveFov, PlanarFov, Rad};
use num_traits::Float;
use serde_json::json;

use cgv_core::conv::*;
use cgv_core::fw::{catch, Case, Clause, Extra, RunCfg};
use cgv_core::gen::{self, Rng, Tier};
use cgv_core::sc::{Ck, Rat, Sc};
use cgv_core::{clause, clause_iv};

fn sorted_pair(rng: &mut Rng, tier: Tier) -> (Rat, Rat) {
    loop {
        let a = gen::small_rat(rng, tier);
        let b = gen::small_rat(rng, tier);
        let (x, y) = (a.approx(), b.approx());
        if x < y {
            return (a, b);
        }
        if y < x {
            return (b, a);
        }
    }
}
fn pos_pair(rng: &mut Rng, tier: Tier) -> (Rat, Rat) {
    loop {
        let (a, b) = sorted_pair(rng, tier);
        if a.n > 0 {
            return (a, b);
        }
    }
}

// ---------------------------------------------------------------- ortho

fn g_ortho(rng: &mut Rng, tier: Tier) -> Case {
    let mut c = Case::new();
    let (l, r) = sorted_pair(rng, tier);
    let (b, t) = sorted_pair(rng, tier);
    let (n, f) = sorted_pair(rng, tier);
    // ortho has no ordering precondition: also drive reversed intervals
    let (l, r) = if rng.chance(1, 6) { (r, l) } else { (l, r) };
    c.push_r(&[l, r, b, t, n, f]);
    c.push_r(&[Rat::new(rng.range(0, 8), 8), Rat::new(rng.range(0, 8), 8), Rat::new(rng.range(0, 8), 8)]);
    c.nontrivial = gen::is_nontrivial(&[l, r, b, t, n, f]);
    c
}
fn ortho_body<S: Sc>(case: &Case, ck: &mut Ck<S>) {
    let mut rd = case.rd();
    let [l, r, b, t, n, f]: [S; 6] = rd.arr();
    let w: [S; 3] = rd.arr();
    let m = ortho(l, r, b, t, n, f);
    let m2: Matrix4<S> = Ortho { left: l, right: r, bottom: b, top: t, near: n, far: f }.into();
    ck.eqm("ortho() = Matrix4::from(Ortho)", m4(m), m4(m2));
    let (neg, pos) = (S::i(-1), S::i(1));
    for (xi, x) in [(neg, l), (pos, r)] {
        for (yi, y) in [(neg, b), (pos, t)] {
            for (zi, z) in [(neg, -n), (pos, -f)] {
                let p = m.transform_point(mk_p3([x, y, z]));
                ck.eqv("ortho corner", p3(p), [xi, yi, zi]);
            }
        }
    }
    // affinity: the point with barycentric weights w maps to the matching point of the cube
    let lerp = |a: S, b: S, t: S| a + (b - a) * t;
    let p = m.transform_point(mk_p3([lerp(l, r, w[0]), lerp(b, t, w[1]), lerp(-n, -f, w[2])]));
    ck.eqv("ortho interior point", p3(p), [lerp(neg, pos, w[0]), lerp(neg, pos, w[1]), lerp(neg, pos, w[2])]);
    // affine: bottom row 0 0 0 1
    let a = m4(m);
    ck.eqv("ortho bottom row", [a[0][3], a[1][3], a[2][3], a[3][3]], [S::i(0), S::i(0), S::i(0), S::i(1)]);
    ck.note("ortho", &m);
}

// ---------------------------------------------------------------- frustum

fn g_frustum(rng: &mut Rng, tier: Tier) -> Case {
    let mut c = Case::new();
    let (l, r) = sorted_pair(rng, tier);
    let (b, t) = sorted_pair(rng, tier);
    let (n, f) = pos_pair(rng, tier);
    c.push_r(&[l, r, b, t, n, f]);
    c.nontrivial = gen::is_nontrivial(&[l, r, b, t, n, f]);
    c
}
fn frustum_corners<S: Sc>(ck: &mut Ck<S>, what: &str, m: Matrix4<S>, l: S, r: S, b: S, t: S, n: S, f: S) {
    let (neg, pos) = (S::i(-1), S::i(1));
    for (xi, x) in [(neg, l), (pos, r)] {
        for (yi, y) in [(neg, b), (pos, t)] {
            let p = m.transform_point(mk_p3([x, y, -n]));
            ck.eqv(&format!("{what} near corner"), p3(p), [xi, yi, neg]);
            let k = f / n;
            let p = m.transform_point(mk_p3([x * k, y * k, -f]));
            ck.eqv(&format!("{what} far corner"), p3(p), [xi, yi, pos]);
        }
    }
    // w = -z
    let h = m * mk_v4([l, b, -n, S::i(1)]);
    ck.eq(&format!("{what} w = -z"), h.w, n);
}
fn frustum_body<S: Sc>(case: &Case, ck: &mut Ck<S>) {
    let mut rd = case.rd();
    let [l, r, b, t, n, f]: [S; 6] = rd.arr();
    let m = frustum(l, r, b, t, n, f);
    let m2: Matrix4<S> = Perspective { left: l, right: r, bottom: b, top: t, near: n, far: f }.into();
    ck.eqm("frustum() = Matrix4::from(Perspective)", m4(m), m4(m2));
    frustum_corners(ck, "frustum", m, l, r, b, t, n, f);
    ck.note("frustum", &m);
}

// ---------------------------------------------------------------- perspective

fn g_persp(rng: &mut Rng, _tier: Tier) -> Case {
    let mut c = Case::new();
    use std::f64::consts::PI;
    let deg = rng.below(3) == 0;
    let fovy = if deg { rng.dyadic(1.0, 179.0) } else { rng.dyadic(0.02, PI - 0.02) };
    let aspect = rng.dyadic(0.25, 4.0) * if rng.chance(1, 8) { -1.0 } else { 1.0 };
    let near = rng.dyadic(0.01, 10.0);
    let far = near + rng.dyadic(0.01, 100.0);
    let (near, far) = if rng.chance(1, 8) { (far, near) } else { (near, far) }; // near > far is allowed for perspective()
    c.push_f(&[fovy, aspect, near, far]);
    c.push_k(&[deg as i64]);
    c.nontrivial = true;
    c
}
fn persp_body<S: Sc>(case: &Case, ck: &mut Ck<S>) {
    let mut rd = case.rd();
    let [fovy, aspect, near, far]: [S; 4] = rd.xarr();
    let deg = rd.k() == 1;
    let rad = if deg { (fovy * S::pi() / S::i(180)).widen(2) } else { fovy };
    let m = if deg { perspective(Deg(fovy), aspect, near, far) } else { perspective(Rad(fovy), aspect, near, far) };
    let th = Float::tan(rad / S::i(2));
    let top = near * th;
    let right = top * aspect;
    let (l, r, b, t) = (-right, right, -top, top);
    frustum_corners(ck, "perspective", m, l, r, b, t, near, far);
    // equals frustum of the symmetric window when near <= far (frustum's own precondition)
    if S::t_le(&near, &far) == cgv_core::iv::Tri::True && S::t_le(&l, &r) == cgv_core::iv::Tri::True {
        ck.eqm("perspective = frustum(symmetric window)", m4(m), m4(frustum(l, r, b, t, near, far)));
    }
    let rad_code = if deg { Rad::from(Deg(fovy)) } else { Rad(fovy) };
    let pf = PerspectiveFov { fovy: rad_code, aspect, near, far };
    ck.eqm("perspective() = Matrix4::from(PerspectiveFov)", m4(m), m4(Matrix4::from(pf)));
    let p = pf.to_perspective();
    ck.eqv(
        "to_perspective window",
        [p.left, p.right, p.bottom, p.top, p.near, p.far],
        [l, r, b, t, near, far],
    );
    if S::t_le(&near, &far) == cgv_core::iv::Tri::True && S::t_le(&p.left, &p.right) == cgv_core::iv::Tri::True {
        ck.eqm("Matrix4::from(to_perspective()) = perspective()", m4(Matrix4::from(p)), m4(m));
    }
    ck.note("perspective", &m);
}

// ---------------------------------------------------------------- planar

fn g_planar(rng: &mut Rng, _tier: Tier) -> Case {
    let mut c = Case::new();
    use std::f64::consts::PI;
    loop {
        let deg = rng.below(3) == 0;
        let fovy_rad = match rng.below(8) {
            0 => -rng.dyadic(0.05, 1.0),
            _ => rng.dyadic(0.02, PI - 0.05),
        };
        // only a zero aspect is excluded by planar(); a negative one mirrors the window
        let aspect = rng.dyadic(0.25, 4.0) * if rng.chance(1, 4) { -1.0 } else { 1.0 };
        let height = rng.dyadic(0.1, 20.0);
        let near = rng.dyadic(-5.0, 10.0);
        let far = near + rng.dyadic(0.1, 50.0);
        // focal point -h/(2 tan(fovy/2)) must be outside [near, far] with margin
        let focal = -height / (2.0 * (fovy_rad / 2.0).tan());
        if focal > near - 0.01 && focal < far + 0.01 {
            continue;
        }
        let fovy = if deg { (fovy_rad.to_degrees() * 1024.0).round() / 1024.0 } else { fovy_rad };
        // planar() states no order for the two planes
        let (near, far) = if rng.chance(1, 4) { (far, near) } else { (near, far) };
        c.push_f(&[fovy, aspect, height, near, far]);
        c.push_k(&[deg as i64]);
        c.nontrivial = true;
        return c;
    }
}
fn planar_body<S: Sc>(case: &Case, ck: &mut Ck<S>) {
    let mut rd = case.rd();
    let [fovy, aspect, h, near, far]: [S; 5] = rd.xarr();
    let deg = rd.k() == 1;
    let rad = if deg { (fovy * S::pi() / S::i(180)).widen(2) } else { fovy };
    let m = if deg { planar(Deg(fovy), aspect, h, near, far) } else { planar(Rad(fovy), aspect, h, near, far) };
    let rad_code = if deg { Rad::from(Deg(fovy)) } else { Rad(fovy) };
    let m2: Matrix4<S> = PlanarFov { fovy: rad_code, aspect, height: h, near, far }.into();
    ck.eqm("planar() = Matrix4::from(PlanarFov)", m4(m), m4(m2));
    let (neg, pos) = (S::i(-1), S::i(1));
    let (hw, hh) = (aspect * h / S::i(2), h / S::i(2));
    for (xi, x) in [(neg, -hw), (pos, hw)] {
        for (yi, y) in [(neg, -hh), (pos, hh)] {
            let p = m.transform_point(mk_p3([x, y, S::i(0)]));
            ck.eq("planar window corner x", p.x, xi);
            ck.eq("planar window corner y", p.y, yi);
        }
    }
    // the planes z = -near and z = -far go to -1 and +1 (any x, y)
    let p = m.transform_point(mk_p3([hw / S::i(3), -hh / S::i(5), -near]));
    ck.eq("planar z=-near -> -1", p.z, neg);
    let p = m.transform_point(mk_p3([-hw / S::i(7), hh / S::i(2), -far]));
    ck.eq("planar z=-far -> +1", p.z, pos);
    // focal point at distance (h/2) cot(fovy/2) behind the origin: w vanishes there
    let th = Float::tan(rad / S::i(2));
    let zf = hh / th;
    let hom = m * mk_v4([S::i(0), S::i(0), zf, S::i(1)]);
    ck.eq("planar focal point has w = 0", hom.w, S::i(0));
    ck.note("planar", &m);
}

// ---------------------------------------------------------------- native: panics and exact special cases

pub fn native(cfg: &RunCfg, extra: &mut Extra) {
    let n = if cfg.tier == Tier::Quick { 1500 } else { 60_000 };
    let mut evals = 0u64;
    let mut must_panic = 0u64;
    let mut must_not = 0u64;
    let mut distinct = std::collections::HashSet::new();
    let mut kinds: std::collections::BTreeMap<String, u64> = Default::default();
    macro_rules! run {
        ($T:ty, $tag:expr) => {{
            let pi_t: $T = (std::f64::consts::PI) as $T;
            'outer: for i in 0..n {
                let mut rng = Rng::for_case(cfg.seed, concat!("c10_native_", $tag), i);
                let t = |x: f64| x as $T;
                let fovy = t(rng.dyadic(0.05, 3.0));
                let aspect = t(rng.dyadic(0.25, 4.0));
                let near = t(rng.dyadic(0.05, 10.0));
                let far = near + t(rng.dyadic(0.05, 100.0));
                let (l, r) = (t(rng.dyadic(-9.0, -0.1)), t(rng.dyadic(0.1, 9.0)));
                let (b, tp) = (t(rng.dyadic(-9.0, -0.1)), t(rng.dyadic(0.1, 9.0)));
                let h = t(rng.dyadic(0.5, 20.0));
                let which = rng.below(23);
                // the free functions and the struct conversions (`Matrix4::from(PerspectiveFov {..})`, ...)
                // are two entry points to the same constructors: half of the cases use the structs
                let via = rng.bool();
                let perspective = |fovy: Rad<$T>, aspect: $T, near: $T, far: $T| -> Matrix4<$T> {
                    if via { Matrix4::from(PerspectiveFov { fovy, aspect, near, far }) } else { perspective(fovy, aspect, near, far) }
                };
                let frustum = |left: $T, right: $T, bottom: $T, top: $T, near: $T, far: $T| -> Matrix4<$T> {
                    if via { Matrix4::from(Perspective { left, right, bottom, top, near, far }) } else { frustum(left, right, bottom, top, near, far) }
                };
                let planar = |fovy: Rad<$T>, aspect: $T, height: $T, near: $T, far: $T| -> Matrix4<$T> {
                    if via { Matrix4::from(PlanarFov { fovy, aspect, height, near, far }) } else { planar(fovy, aspect, height, near, far) }
                };
                // (description, expect_panic, closure result)
                let (desc, expect, res): (&str, bool, Result<bool, String>) = match which {
                    0 => ("perspective valid", false, catch(|| perspective(Rad(fovy), aspect, near, far).is_finite())),
                    1 => ("perspective fovy = 0", true, catch(|| perspective(Rad(t(0.0)), aspect, near, far).is_finite())),
                    2 => ("perspective fovy < 0", true, catch(|| perspective(Rad(-fovy), aspect, near, far).is_finite())),
                    3 => ("perspective fovy = pi", true, catch(|| perspective(Rad(pi_t), aspect, near, far).is_finite())),
                    4 => ("perspective fovy > pi", true, catch(|| perspective(Rad(pi_t + fovy), aspect, near, far).is_finite())),
                    5 => ("perspective aspect = 0", true, catch(|| perspective(Rad(fovy), t(0.0), near, far).is_finite())),
                    6 => ("perspective near <= 0", true, catch(|| perspective(Rad(fovy), aspect, if rng.bool() { t(0.0) } else { -near }, far).is_finite())),
                    7 => ("perspective far <= 0", true, catch(|| perspective(Rad(fovy), aspect, near, if rng.bool() { t(0.0) } else { -far }).is_finite())),
                    8 => ("perspective near = far", true, catch(|| perspective(Rad(fovy), aspect, near, near).is_finite())),
                    9 => ("frustum valid", false, catch(|| frustum(l, r, b, tp, near, far).is_finite())),
                    10 => ("frustum left > right", true, catch(|| frustum(r, l, b, tp, near, far).is_finite())),
                    11 => ("frustum bottom > top", true, catch(|| frustum(l, r, tp, b, near, far).is_finite())),
                    12 => ("frustum near > far", true, catch(|| frustum(l, r, b, tp, far, near).is_finite())),
                    13 => {
                        // both plane orders are accepted (positive fovy puts the focal point at negative depth)
                        let (n2, f2) = if rng.bool() { (near, far) } else { (far, near) };
                        ("planar valid", false, catch(|| planar(Rad(fovy.min(t(2.9))), aspect, h, n2, f2).is_finite()))
                    }
                    14 => ("planar |fovy| >= pi", true, catch(|| planar(Rad(if rng.bool() { pi_t + fovy } else { -(pi_t + fovy) }), aspect, h, near, far).is_finite())),
                    15 => ("planar height < 0", true, catch(|| planar(Rad(fovy.min(t(2.9))), aspect, -h, near, far).is_finite())),
                    16 => ("planar aspect = 0", true, catch(|| planar(Rad(fovy.min(t(2.9))), t(0.0), h, near, far).is_finite())),
                    17 => ("planar near = far", true, catch(|| planar(Rad(fovy.min(t(2.9))), aspect, h, near, near).is_finite())),
                    18 => {
                        // negative fovy puts the focal point at +h/(2 tan(|fovy|/2)), positive fovy at
                        // -h/(2 tan(fovy/2)) (planes at negative "near"/"far" lie behind the window); bracket it
                        let fv = fovy.min(t(2.9));
                        let sign = if rng.bool() { t(1.0) } else { t(-1.0) };
                        let focal = sign * h / (t(2.0) * (fv / t(2.0)).tan());
                        let (n2, f2) = if rng.bool() { (focal * t(0.5), focal * t(2.0)) } else { (focal * t(2.0), focal * t(0.5)) };
                        let (n2, f2) = if rng.chance(1, 3) { (focal - t(1.0), focal + t(3.0)) } else { (n2, f2) };
                        ("planar focal point between the planes", true, catch(|| planar(Rad(-sign * fv), aspect, h, n2, f2).is_finite()))
                    }
                    19 => ("planar fovy = 0 and aspect = 0", true, catch(|| planar(Rad(t(0.0)), t(0.0), h, near, far).is_finite())),
                    20 => ("planar fovy = 0 and near = far", true, catch(|| planar(Rad(t(0.0)), aspect, h, near, near).is_finite())),
                    21 => ("planar fovy = 0 and height < 0", true, catch(|| planar(Rad(t(0.0)), aspect, -h, near, far).is_finite())),
                    _ => {
                        // fovy = 0: orthographic limit, exact with power-of-two parameters
                        let (hh, aa, nn, ff) = (t(4.0), t(2.0), t(1.0), t(3.0));
                        let r = catch(|| {
                            let m = planar(Rad(t(0.0)), aa, hh, nn, ff);
                            // expected: x scale 2/(a h) = 1/4, y scale 2/h = 1/2, z: 2/(n-f) z + (f+n)/(n-f)
                            m.x.x == t(0.25) && m.y.y == t(0.5) && m.z.z == t(-1.0) && m.w.z == t(-2.0) && m.z.w == t(0.0) && m.w.w == t(1.0)
                        });
                        ("planar fovy = 0 exact", false, r)
                    }
                };
                evals += 1;
                *kinds.entry(desc.to_string()).or_default() += 1;
                distinct.insert((which, fovy.to_bits() as u64, near.to_bits() as u64, cgv_core::gen::hash_str($tag)));
                let bad = match (&res, expect) {
                    (Ok(_), true) => Some(format!("{desc}: expected a panic, got a matrix")),
                    (Err(p), false) => Some(format!("{desc}: unexpected panic {p}")),
                    (Ok(false), false) => Some(format!("{desc}: result not finite / not the expected matrix")),
                    _ => None,
                };
                if expect { must_panic += 1 } else { must_not += 1 }
                if let Some(msg) = bad {
                    extra.violations.push((
                        format!("native_{}", $tag),
                        msg,
                        json!({"fovy": fovy as f64, "aspect": aspect as f64, "near": near as f64, "far": far as f64,
                               "l": l as f64, "r": r as f64, "b": b as f64, "t": tp as f64, "h": h as f64, "which": which, "index": i}),
                    ));
                    break 'outer;
                }
                if i < 2 {
                    extra.samples.push(json!({"clause": concat!("native_", $tag), "case": desc, "fovy": fovy as f64, "aspect": aspect as f64,
                        "near": near as f64, "far": far as f64, "panicked": res.is_err()}));
                }
            }
        }};
    }
    run!(f64, "f64");
    run!(f32, "f32");
    // ---- native accuracy: the corner mapping on the real scalar types.  The
    // tolerances (1e-4 for f32, 1e-11 for f64) are two or more orders of
    // magnitude above the rounding error of the formulas on these parameter
    // ranges, so only a numerically unsound formula (or a wrong one) can fire.
    let mut worst = [0f64; 2];
    macro_rules! accuracy {
        ($T:ty, $tag:expr, $tol:expr, $slot:expr, $minfov:expr) => {{
            'acc: for i in 0..n {
                let mut rng = Rng::for_case(cfg.seed, concat!("c10_accuracy_", $tag), i);
                let t = |x: f64| x as $T;
                // one case in three: telephoto fields of view, log-uniform down to $minfov rad
                let fovy = if rng.chance(1, 3) { t(10f64.powf(rng.uniform($minfov, -1.3))) } else { t(rng.uniform(0.05, std::f64::consts::PI - 0.01)) };
                let aspect = t(rng.uniform(0.25, 4.0)) * if rng.chance(1, 4) { t(-1.0) } else { t(1.0) };
                let near = t(rng.uniform(0.05, 10.0));
                let far = near * t(rng.uniform(1.5, 100.0));
                let r = catch(|| {
                    let mut err = 0f64;
                    let m = perspective(Rad(fovy), aspect, near, far);
                    let top = near * (fovy / t(2.0)).tan();
                    let right = top * aspect;
                    for (sx, sy) in [(1.0, 1.0), (-1.0, 1.0), (1.0, -1.0), (-1.0, -1.0)] {
                        let p = m.transform_point(cgmath::Point3::new(right * t(sx), top * t(sy), -near));
                        err = err.max((p.x as f64 - sx).abs()).max((p.y as f64 - sy).abs()).max((p.z as f64 + 1.0).abs());
                        let k = far / near;
                        let p = m.transform_point(cgmath::Point3::new(right * t(sx) * k, top * t(sy) * k, -far));
                        err = err.max((p.x as f64 - sx).abs()).max((p.y as f64 - sy).abs()).max((p.z as f64 - 1.0).abs());
                    }
                    let (l, rr, b, tp) = (t(rng.uniform(-9.0, -0.1)), t(rng.uniform(0.1, 9.0)), t(rng.uniform(-9.0, -0.1)), t(rng.uniform(0.1, 9.0)));
                    for (name, m) in [("frustum", frustum(l, rr, b, tp, near, far)), ("ortho", ortho(l, rr, b, tp, near, far))] {
                        for (sx, x) in [(-1.0, l), (1.0, rr)] {
                            for (sy, y) in [(-1.0, b), (1.0, tp)] {
                                let p = m.transform_point(cgmath::Point3::new(x, y, -near));
                                err = err.max((p.x as f64 - sx).abs()).max((p.y as f64 - sy).abs()).max((p.z as f64 + 1.0).abs());
                                let k = if name == "frustum" { far / near } else { t(1.0) };
                                let p = m.transform_point(cgmath::Point3::new(x * k, y * k, -far));
                                err = err.max((p.x as f64 - sx).abs()).max((p.y as f64 - sy).abs()).max((p.z as f64 - 1.0).abs());
                            }
                        }
                    }
                    let h = t(rng.uniform(0.5, 20.0));
                    let fv = t(rng.uniform(0.05, 2.9));
                    let mp = planar(Rad(fv), aspect, h, near, far);
                    for (sx, sy) in [(1.0, 1.0), (-1.0, -1.0)] {
                        let p = mp.transform_point(cgmath::Point3::new(aspect * h / t(2.0) * t(sx), h / t(2.0) * t(sy), t(0.0)));
                        err = err.max((p.x as f64 - sx).abs()).max((p.y as f64 - sy).abs());
                    }
                    let p = mp.transform_point(cgmath::Point3::new(t(0.3), t(-0.2), -near));
                    err = err.max((p.z as f64 + 1.0).abs());
                    let p = mp.transform_point(cgmath::Point3::new(t(-0.1), t(0.4), -far));
                    err = err.max((p.z as f64 - 1.0).abs());
                    err
                });
                evals += 1;
                match r {
                    Err(p) => {
                        extra.violations.push((format!("native_accuracy_{}", $tag), format!("unexpected panic on valid parameters: {p}"), json!({"index": i})));
                        break 'acc;
                    }
                    Ok(err) => {
                        worst[$slot] = worst[$slot].max(err);
                        if !(err <= $tol) {
                            extra.violations.push((
                                format!("native_accuracy_{}", $tag),
                                format!("view-volume corner maps {err:e} away from the clip-cube corner (tolerance {:e}) for fovy={fovy} aspect={aspect} near={near} far={far}", $tol),
                                json!({"fovy": fovy as f64, "aspect": aspect as f64, "near": near as f64, "far": far as f64, "index": i}),
                            ));
                            break 'acc;
                        }
                    }
                }
            }
        }};
    }
    accuracy!(f32, "f32", 1e-4, 0, -3.0);
    accuracy!(f64, "f64", 1e-11, 1, -7.0);
    extra.sections.insert(
        "native_corner_accuracy".into(),
        json!({"cases_per_type": n, "worst_error_f32": worst[0], "tolerance_f32": 1e-4, "worst_error_f64": worst[1], "tolerance_f64": 1e-11,
               "parameters": "fovy in [0.05, pi-0.01] or (one in three) log-uniform 1e-3..0.05 (f32) / 1e-7..0.05 (f64), aspect in +-[0.25,4], near in [0.05,10], far/near in [1.5,100]"}),
    );
    extra.evaluations += evals;
    extra.distinct_nontrivial += distinct.len() as u64;
    extra.sections.insert(
        "native_panic_events".into(),
        json!({"cases": evals, "must_panic": must_panic, "must_not_panic": must_not, "per_kind": kinds, "types": ["f64", "f32"]}),
    );
}

const EP_O: &[&str] = &["ortho", "Matrix4::from(Ortho)", "Transform::transform_point for Matrix4"];
const EP_F: &[&str] = &["frustum", "Matrix4::from(Perspective)", "Transform::transform_point for Matrix4"];
const EP_P: &[&str] = &["perspective", "PerspectiveFov::to_perspective", "Matrix4::from(PerspectiveFov)", "Matrix4::from(Perspective)"];
const EP_PL: &[&str] = &["planar", "Matrix4::from(PlanarFov)"];

pub fn clauses() -> Vec<Clause> {
    vec![
        clause!("ortho", EP_O, g_ortho, ortho_body),
        clause!("frustum", EP_F, g_frustum, frustum_body),
        clause_iv!("perspective", EP_P, g_persp, persp_body),
        clause_iv!("planar", EP_PL, g_planar, planar_body),
    ]
}

pub const RULE: &str = "ortho/frustum: small rational parameters with l<r, b<t, n<f (ortho also reversed l,r; frustum near>0), all 8 corners plus an interior point; perspective/planar: real parameters on a 2^-20 grid (fovy in (0.02,pi-0.02) or degrees, aspect in +-[0.25,4], near in [0.01,10], far up to 100 beyond; planar also negative fovy and near, focal point kept outside the planes). Rejection: for each stated precondition a tuple violating exactly that one (boundary values fovy=0, fovy=pi, aspect=0, near=far included) must panic and valid tuples must not, on f64 and f32. Non-trivial = all parameters distinct and non-zero; distinct = distinct input tuples.";
pub const ASSUME: &[&str] = &[
    "enclosure arithmetic as in C06 for tan; exact rationals for ortho and frustum",
    "panics are observed with catch_unwind; the panic message is not interpreted",
];
