//! C15 — between_vectors and from_arc (DESIGN §C15).

use cgmath::prelude::*;
use cgmath::{Basis2, Basis3, Matrix2, Matrix3, Quaternion};
use num_traits::Float;

use cgv_core::clause;
use cgv_core::conv::*;
use cgv_core::fw::{Case, Clause};
use cgv_core::gen::{self, Rng, Tier};
use cgv_core::iv::Tri;
use cgv_core::model::*;
use cgv_core::sc::{Ck, Rat, Sc};

fn frame_rows(rng: &mut Rng) -> [[Rat; 3]; 3] {
    let q = gen::unit_quat(rng, Tier::Quick);
    let qq: [cgv_core::q::Q; 4] = [
        cgv_core::q::Q::rat(q[0]),
        cgv_core::q::Q::rat(q[1]),
        cgv_core::q::Q::rat(q[2]),
        cgv_core::q::Q::rat(q[3]),
    ];
    let m = qmat(qq);
    let f = |x: cgv_core::q::Q| Rat::new(x.num() as i64, x.den() as i64);
    let row = |r: usize| [f(m[0][r]), f(m[1][r]), f(m[2][r])];
    [row(0), row(1), row(2)]
}

/// class 0: exact arc (a, h) with h.axis perpendicular to a: b = h a h*, expected result h
/// class 1: two independent rational unit vectors (enclosures decide)
/// class 2: ladder: b = Rot(n, theta) a with theta just outside the tolerance zones
/// class 3: exactly parallel / exactly antiparallel (a with a zero component)
fn g_arc(rng: &mut Rng, tier: Tier) -> Case {
    let mut c = Case::new();
    let class = match rng.below(10) {
        0..=3 => 0,
        4..=6 => 1,
        7..=8 => 2,
        _ => 3,
    };
    c.class = class;
    c.push_k(&[class as i64]);
    match class {
        0 => {
            let rows = frame_rows(rng);
            let (cw, sw) = loop {
                let [x, y] = gen::unit_vec2(rng, Tier::Quick);
                if x.n > 0 {
                    break (x, y);
                }
            };
            c.push_r(&rows[0]).push_r(&rows[1]).push_r(&[cw, sw]);
            c.nontrivial = !sw.is_zero();
        }
        1 => {
            c.push_r(&gen::unit_vec3(rng, tier)).push_r(&gen::unit_vec3(rng, tier));
            c.nontrivial = true;
        }
        2 => {
            let rows = frame_rows(rng);
            c.push_r(&rows[0]).push_r(&rows[1]);
            let k = rng.range(0, 6) as i32;
            let r = rng.uniform(1.5, 9.0);
            // from_arc's zone is 1e-4 rad, between_vectors' is 1e-7 rad; stay outside both here
            let d = 1e-4 * r * 10f64.powi(k);
            let d = d.min(1.0);
            let theta = if rng.bool() { d } else { std::f64::consts::PI - d };
            c.push_f(&[theta]);
            c.nontrivial = true;
        }
        _ => {
            let [x, y] = gen::unit_vec2(rng, tier);
            let z = Rat::int(0);
            let a = match rng.below(4) {
                0 => [x, y, z],
                1 => [x, z, y],
                2 => [z, x, y],
                _ => {
                    let o = Rat::int(if rng.bool() { 1 } else { -1 });
                    match rng.below(3) {
                        0 => [o, z, z],
                        1 => [z, o, z],
                        _ => [z, z, o],
                    }
                }
            };
            c.push_r(&a);
            c.push_k(&[rng.bool() as i64]); // 1 = antiparallel
            c.nontrivial = true;
        }
    }
    // lengths for from_arc: rational powers-of-ten style magnitudes in [1e-3, 1e3]
    let len = |rng: &mut Rng| {
        let e = rng.range(-3, 3);
        let m = rng.range(1, 9);
        if e >= 0 {
            Rat::new(m * 10i64.pow(e as u32), 1)
        } else {
            Rat::new(m, 10i64.pow((-e) as u32))
        }
    };
    let (mut l1, mut l2) = (len(rng), len(rng));
    // lengths with src.dst = 1 exactly although the directions differ (|src||dst| is what matters, not 1)
    if class == 0 && rng.chance(1, 5) {
        let (cw, sw) = (c.r[6], c.r[7]);
        // cos(rotation angle) = cw^2 - sw^2
        let cosn = cw.n * cw.n * sw.d * sw.d - sw.n * sw.n * cw.d * cw.d;
        let cosd = cw.d * cw.d * sw.d * sw.d;
        if cosn > 0 && cosd < 1_000_000_000 {
            let k = rng.range(1, 4);
            l1 = Rat::int(k);
            l2 = Rat::new(cosd, cosn * k);
        }
    }
    c.push_r(&[l1, l2]);
    c.push_k(&[rng.below(2) as i64]); // fallback given?
    c
}

struct Arc<S: Sc> {
    a: V<S, 3>,
    b: V<S, 3>,
    /// expected quaternion when known exactly
    h: Option<Qt<S>>,
    /// 0 generic, 1 parallel, 2 antiparallel (exactly)
    kind: u8,
    /// a unit vector perpendicular to a when the generator knows one
    perp: Option<V<S, 3>>,
}

fn read_arc<S: Sc>(rd: &mut cgv_core::fw::Rd) -> Arc<S> {
    let class = rd.k();
    match class {
        0 => {
            let a: V<S, 3> = rd.arr();
            let n: V<S, 3> = rd.arr();
            let [cw, sw]: [S; 2] = rd.arr();
            let h = [cw, n[0] * sw, n[1] * sw, n[2] * sw];
            let b = qsandwich(h, a);
            Arc { a, b, h: Some(h), kind: 0, perp: Some(n) }
        }
        1 => {
            let a: V<S, 3> = rd.arr();
            let b: V<S, 3> = rd.arr();
            // two independent draws can coincide or be opposite: classify exactly
            let cr = cross(a, b);
            let zero = S::i(0);
            let parallel = cr.iter().all(|c| S::t_eq(c, &zero) == Tri::True);
            let kind = if !parallel {
                0
            } else if S::t_lt(&zero, &vdot(a, b)) == Tri::True {
                1
            } else {
                2
            };
            Arc { a, b, h: None, kind, perp: None }
        }
        2 => {
            let a: V<S, 3> = rd.arr();
            let n: V<S, 3> = rd.arr();
            let th: S = rd.x();
            let b = rodrigues(n, Float::sin(th), Float::cos(th), a);
            Arc { a, b, h: None, kind: 0, perp: Some(n) }
        }
        _ => {
            let a: V<S, 3> = rd.arr();
            let anti = rd.k() == 1;
            Arc { a, b: if anti { vneg(a) } else { a }, h: None, kind: if anti { 2 } else { 1 }, perp: None }
        }
    }
}

fn norm3<S: Sc>(v: V<S, 3>) -> S {
    Float::sqrt(v[0].sq() + v[1].sq() + v[2].sq())
}

/// the statement's conditions on a rotation (given as quaternion w,x,y,z) taking unit a onto unit b
fn check_quat<S: Sc>(ck: &mut Ck<S>, name: &str, q: Qt<S>, arc: &Arc<S>) {
    let (a, b) = (arc.a, arc.b);
    ck.eq(&format!("{name}: unit"), qnorm2(q), S::i(1));
    let qv = [q[1], q[2], q[3]];
    match arc.kind {
        0 => {
            ck.eqv(&format!("{name}: r(a) = b"), qsandwich(q, a), b);
            if arc.h.is_none() {
                // rotation angle = angle between a and b: 2 atan2(|v|, s) = atan2(|a x b|, a.b)
                let rot = Float::atan2(norm3(qv), q[0]) * S::i(2);
                let between = Float::atan2(norm3(cross(a, b)), vdot(a, b));
                ck.eq(&format!("{name}: rotation angle = angle(a,b)"), rot, between);
            } else {
                // exact arcs: cos of the rotation angle, 2 s^2 - 1, equals a.b (no square roots needed)
                ck.eq(&format!("{name}: cos(rotation angle) = a.b"), q[0] * q[0] * S::i(2) - S::i(1), vdot(a, b));
            }
            ck.eq(&format!("{name}: axis . a = 0"), vdot(qv, a), S::i(0));
            ck.eq(&format!("{name}: axis . b = 0"), vdot(qv, b), S::i(0));
            ck.le(&format!("{name}: shorter way (scalar part >= 0)"), S::i(0), q[0]);
            if let Some(h) = arc.h {
                ck.eqv(&format!("{name}: exactly the generating quaternion"), q, h);
            }
        }
        1 => {
            ck.eqv(&format!("{name}: parallel vectors give the identity"), q, [S::i(1), S::i(0), S::i(0), S::i(0)]);
        }
        _ => {
            // half turn about an axis perpendicular to a (half turn: within the 1e-7 rad the statement grants)
            ck.within(&format!("{name}: half turn (scalar part 0)"), q[0], S::i(0), S::frac(1, 20_000_000));
            ck.eq(&format!("{name}: axis perpendicular to a"), vdot(qv, a), S::i(0));
            ck.eqv(&format!("{name}: r(a) = -a"), qsandwich([S::i(0), q[1], q[2], q[3]], a), vneg(a));
        }
    }
}

fn between<S: Sc>(case: &Case, ck: &mut Ck<S>) {
    let mut rd = case.rd();
    let arc = read_arc::<S>(&mut rd);
    let (va, vb) = (mk_v3(arc.a), mk_v3(arc.b));
    let q: Quaternion<S> = Rotation::between_vectors(va, vb);
    check_quat(ck, "Quaternion::between_vectors", qt(q), &arc);
    ck.eqv("rotate_vector(a) = q*a", v3(q.rotate_vector(va)), qsandwich(qt(q), arc.a));
    let bs: Basis3<S> = Rotation::between_vectors(va, vb);
    let m = m3(Matrix3::from(bs));
    match arc.kind {
        0 => {
            ck.eqv("Basis3::between_vectors: R a = b", v3(bs.rotate_vector(va)), arc.b);
            ck.eqm("Basis3::between_vectors: R^T R = I", mmul(mtrans(m), m), mident());
            ck.eq("Basis3::between_vectors: det = 1", det(m), S::i(1));
            // angle: trace = 1 + 2 cos(angle(a,b)) = 1 + 2 a.b ; axis: R fixes a x b
            ck.eq("Basis3::between_vectors: trace = 1 + 2 a.b", m[0][0] + m[1][1] + m[2][2], S::i(1) + vdot(arc.a, arc.b) * S::i(2));
            let ax = cross(arc.a, arc.b);
            ck.eqv("Basis3::between_vectors: fixes a x b", mvec(m, ax), ax);
            if let Some(h) = arc.h {
                ck.eqm("Basis3::between_vectors: exactly the matrix of h", m, qmat(h));
            }
        }
        1 => ck.eqm("Basis3::between_vectors: identity for parallel vectors", m, mident()),
        _ => {
            ck.eqv("Basis3::between_vectors: R a = -a", mvec(m, arc.a), vneg(arc.a));
            ck.eqm("Basis3::between_vectors: half turn squares to I", mmul(m, m), mident());
            ck.eq("Basis3::between_vectors: det = 1", det(m), S::i(1));
        }
    }
    ck.note("q", &q);
}

fn from_arc<S: Sc>(case: &Case, ck: &mut Ck<S>) {
    let mut rd = case.rd();
    let arc = read_arc::<S>(&mut rd);
    let [l1, l2]: [S; 2] = rd.arr();
    let with_fallback = rd.k() == 1;
    let src = mk_v3(vscale(arc.a, l1));
    let dst = mk_v3(vscale(arc.b, l2));
    // a fallback axis: unit and perpendicular to src (only meaningful for opposite vectors)
    let fb = if with_fallback {
        match (arc.perp, arc.kind) {
            (Some(n), _) => Some(n),
            (None, 2) | (None, 1) => {
                // a has a zero component: swap-and-negate gives an exact perpendicular unit vector
                let a = arc.a;
                let z = S::i(0);
                let cand = if S::t_eq(&a[2], &z) == Tri::True {
                    [-a[1], a[0], z]
                } else if S::t_eq(&a[1], &z) == Tri::True {
                    [-a[2], z, a[0]]
                } else {
                    [z, -a[2], a[1]]
                };
                Some(cand)
            }
            _ => None,
        }
    } else {
        None
    };
    let q = Quaternion::from_arc(src, dst, fb.map(mk_v3));
    check_quat(ck, "Quaternion::from_arc", qt(q), &arc);
    if arc.kind == 2 {
        if let Some(f) = fb {
            ck.eq_pm("from_arc: opposite vectors use the fallback axis", [q.v.x, q.v.y, q.v.z], f);
        }
    }
    ck.note("from_arc", &q);
}

// ---------------------------------------------------------------- native: tolerance zones and generic opposite vectors

/// Inside the stated tolerance zones (closer than 1e-7 rad to parallel or
/// antiparallel) the interval engine cannot follow the code's ulps comparison,
/// so these inputs are monitored on the real f64 type with the only demand the
/// statement leaves: r(a) stays within 2e-7 of b.  Exactly opposite vectors in
/// general position (irrational perpendicular axis) are checked here as well.
pub fn native(cfg: &cgv_core::fw::RunCfg, extra: &mut cgv_core::fw::Extra) {
    use cgmath::Vector3;
    use serde_json::json;
    let n = if cfg.tier == Tier::Quick { 4000 } else { 200_000 };
    let mut evals = 0u64;
    let mut seen = std::collections::HashSet::new();
    let mut kinds = [0u64; 4];
    let mut worst_zone = 0f64;
    for i in 0..n {
        let mut rng = Rng::for_case(cfg.seed, "c15_native", i);
        // one case in three: a direction hugging a coordinate axis (tilted by 1e-6 .. 3e-2 in the
        // other two components), where a hard-wired "perpendicular" axis is tempting and wrong
        let a = if rng.chance(1, 3) {
            let k = rng.below(3) as usize;
            let mut c = [0.0f64; 3];
            for (j, x) in c.iter_mut().enumerate() {
                *x = if j == k {
                    if rng.bool() { 1.0 } else { -1.0 }
                } else if rng.chance(1, 5) {
                    0.0
                } else {
                    10f64.powf(rng.uniform(-6.0, -1.5)) * if rng.bool() { 1.0 } else { -1.0 }
                };
            }
            Vector3::new(c[0], c[1], c[2])
        } else {
            Vector3::new(rng.uniform(-1.0, 1.0), rng.uniform(-1.0, 1.0), rng.uniform(-1.0, 1.0))
        };
        if a.magnitude2() < 0.01 {
            continue;
        }
        let a = a.normalize();
        let t = Vector3::new(rng.uniform(-1.0, 1.0), rng.uniform(-1.0, 1.0), rng.uniform(-1.0, 1.0));
        let nrm = a.cross(t);
        if nrm.magnitude2() < 0.01 {
            continue;
        }
        let nrm = nrm.normalize();
        let kind = rng.below(4) as usize;
        kinds[kind] += 1;
        evals += 1;
        let mut bad: Option<String> = None;
        match kind {
            0 | 1 => {
                // inside a zone: theta in 1e-12 .. 10^-7.5 from parallel (0) or antiparallel (1)
                // half of the cases inside the zone (1e-12 .. 10^-7.5), half just outside it
                // (10^-7 .. 10^-3), where the result has to be a proper rotation again although
                // k + a.b is still dominated by cancellation
                let outside = rng.bool();
                let d = if outside { 10f64.powf(rng.uniform(-7.0, -3.0)) } else { 10f64.powf(rng.uniform(-12.0, -7.5)) };
                let th = if kind == 0 { d } else { std::f64::consts::PI - d };
                let b = a * th.cos() + nrm.cross(a) * th.sin();
                let r = cgv_core::fw::catch(|| {
                    let q: Quaternion<f64> = Rotation::between_vectors(a, b);
                    let qa = Quaternion::from_arc(a * 3.0, b * 0.5, None);
                    (q, qa)
                });
                match r {
                    Err(p) => bad = Some(format!("panic inside the tolerance zone: {p}")),
                    Ok((q, qa)) => {
                        for (name, q) in [("between_vectors", q), ("from_arc", qa)] {
                            let ra = q * a;
                            let err = (ra - b).magnitude();
                            worst_zone = worst_zone.max(err).max((q.magnitude2() - 1.0).abs());
                            if !(err <= 2e-7) || !((q.magnitude2() - 1.0).abs() <= 1e-6) {
                                bad = Some(format!("{name} in the tolerance zone: |r(a) - b| = {err:e}, |q|^2 = {}", q.magnitude2()));
                            }
                        }
                    }
                }
            }
            _ => {
                // exactly opposite, general position
                let b = -a;
                let fb = nrm;
                let r = cgv_core::fw::catch(|| {
                    let q: Quaternion<f64> = Rotation::between_vectors(a, b);
                    let qa = Quaternion::from_arc(a * 2.0, b * 0.25, None);
                    let qf = Quaternion::from_arc(a * 2.0, b * 0.25, Some(fb));
                    let bm: Basis3<f64> = Rotation::between_vectors(a, b);
                    (q, qa, qf, bm)
                });
                match r {
                    Err(p) => bad = Some(format!("panic on opposite vectors: {p}")),
                    Ok((q, qa, qf, bm)) => {
                        for (name, q) in [("between_vectors", q), ("from_arc(None)", qa), ("from_arc(fallback)", qf)] {
                            let half_turn = q.s.abs() <= 5e-8;
                            let perp = q.v.dot(a).abs() <= 1e-9;
                            let unit = (q.magnitude2() - 1.0).abs() <= 1e-9;
                            let maps = ((q * a) - b).magnitude() <= 2e-7;
                            if !(half_turn && perp && unit && maps) {
                                bad = Some(format!("{name} on opposite vectors: s = {:e}, v.a = {:e}, |q|^2 = {}, |r(a)-b| = {:e}", q.s, q.v.dot(a), q.magnitude2(), ((q * a) - b).magnitude()));
                            }
                        }
                        let along = qf.v.cross(fb).magnitude();
                        if !(along <= 1e-9) {
                            bad = Some(format!("from_arc ignores the fallback axis on opposite vectors: |v x fallback| = {along:e}"));
                        }
                        if !(((bm.rotate_vector(a)) - b).magnitude() <= 2e-7) {
                            bad = Some("Basis3::between_vectors on opposite vectors does not map a to -a".to_string());
                        }
                    }
                }
            }
        }
        // 2-D: exactly opposite and exactly equal vectors in general position
        {
            // (the 3-D direction may hug the z axis: its xy part is then no direction at all)
            let a2 = if a.x * a.x + a.y * a.y < 1e-3 { cgmath::Vector2::new(0.6, 0.8) } else { cgmath::Vector2::new(a.x, a.y).normalize() };
            for (b2, what) in [(-a2, "opposite"), (a2, "equal")] {
                let r = cgv_core::fw::catch(|| {
                    let r: Basis2<f64> = Rotation::between_vectors(a2, b2);
                    r.rotate_vector(a2)
                });
                match r {
                    Err(p) => bad = Some(format!("Basis2::between_vectors panicked on {what} vectors: {p}")),
                    Ok(ra) => {
                        if !((ra - b2).magnitude() <= 2e-7) {
                            bad = Some(format!("Basis2::between_vectors on {what} vectors: r(a) = {ra:?}, b = {b2:?}"));
                        }
                    }
                }
            }
        }
        // 2-D accuracy at every separation: r(a) = b to 1e-13 (a stable formula is good to ~1e-16)
        {
            let a2 = if a.x * a.x + a.y * a.y < 1e-3 { cgmath::Vector2::new(0.8, -0.6) } else { cgmath::Vector2::new(a.x, a.y).normalize() };
            let th = 10f64.powf(rng.uniform(-9.0, 0.49)) * if rng.bool() { 1.0 } else { -1.0 };
            let th = if rng.chance(1, 4) { th.signum() * (std::f64::consts::PI - th.abs().min(3.0)) } else { th };
            let b2 = cgmath::Vector2::new(th.cos() * a2.x - th.sin() * a2.y, th.sin() * a2.x + th.cos() * a2.y);
            let r: Basis2<f64> = Rotation::between_vectors(a2, b2);
            let e = (r.rotate_vector(a2) - b2).magnitude();
            if !(e <= 1e-13) {
                bad = Some(format!("Basis2::between_vectors: |r(a) - b| = {e:e} (tolerance 1e-13) for b = Rot({th:e}) a"));
            }
        }
        seen.insert((a.x.to_bits(), kind));
        if let Some(msg) = bad {
            extra.violations.push(("native_zone".into(), msg, json!({"a": [a.x, a.y, a.z], "n": [nrm.x, nrm.y, nrm.z], "kind": kind, "index": i})));
            break;
        }
        if i < 2 {
            extra.samples.push(json!({"clause": "native_zone", "a": [a.x, a.y, a.z], "kind": kind}));
        }
    }
    extra.evaluations += evals;
    extra.distinct_nontrivial += seen.len() as u64;
    extra.sections.insert(
        "native_tolerance_zones_and_opposite_vectors".into(),
        json!({"cases": evals, "near_parallel": kinds[0], "near_antiparallel": kinds[1], "exactly_opposite": kinds[2] + kinds[3], "worst_error_in_and_next_to_the_zones": worst_zone,
               "oracle": "f64: |r(a)-b| <= 2e-7 inside the zones; opposite vectors: scalar part <= 5e-8, axis.a <= 1e-9, fallback axis honoured"}),
    );
}

// ---------------------------------------------------------------- 2-D

fn g_2d(rng: &mut Rng, tier: Tier) -> Case {
    use std::f64::consts::PI;
    let mut c = Case::new();
    if rng.chance(1, 8) {
        // exactly parallel / exactly opposite, axis-aligned so that every value is an exact point
        let o = Rat::int(if rng.bool() { 1 } else { -1 });
        let z = Rat::int(0);
        c.push_r(&if rng.bool() { [o, z] } else { [z, o] });
        let anti = rng.bool();
        c.push_f(&[if anti { PI } else { 0.0 }]);
        c.push_k(&[if anti { 2 } else { 1 }]);
        c.class = 2;
        c.nontrivial = true;
        return c;
    }
    c.push_k(&[0]);
    c.push_r(&gen::unit_vec2(rng, tier));
    let th = match rng.below(10) {
        0 => rng.pick(&[PI / 2.0, -PI / 2.0, 1e-3, -1e-3, 3.0, -3.0, 1.0, -1.0]),
        _ => rng.dyadic(-PI + 0.001, PI - 0.001),
    };
    // stay outside the parallel / antiparallel tolerance zones
    let th = if th.abs() < 1e-6 { 0.5 } else { th };
    c.push_f(&[th]);
    c.class = (th < 0.0) as u16; // class 1 = clockwise
    c.nontrivial = true;
    c
}
fn between2<S: Sc>(case: &Case, ck: &mut Ck<S>) {
    let mut rd = case.rd();
    let exact = rd.k();
    let a: V<S, 2> = rd.arr();
    let th: S = rd.x();
    if exact != 0 {
        // b = a or b = -a exactly: identity resp. half turn
        let b = if exact == 2 { vneg(a) } else { a };
        let r: Basis2<S> = Rotation::between_vectors(mk_v2(a), mk_v2(b));
        ck.eqv("Basis2::between_vectors (parallel/opposite): r(a) = b", v2(r.rotate_vector(mk_v2(a))), b);
        let m = m2(Matrix2::from(r));
        ck.eq("Basis2::between_vectors (parallel/opposite): det = 1", det(m), S::i(1));
        ck.eq("Basis2::between_vectors (parallel/opposite): trace = 2 cos", m[0][0] + m[1][1], if exact == 2 { S::i(-2) } else { S::i(2) });
        return;
    }
    let (s, c) = (Float::sin(th), Float::cos(th));
    let b = [c * a[0] - s * a[1], s * a[0] + c * a[1]];
    let r: Basis2<S> = Rotation::between_vectors(mk_v2(a), mk_v2(b));
    let m = m2(Matrix2::from(r));
    ck.eqv("Basis2::between_vectors: r(a) = b", v2(r.rotate_vector(mk_v2(a))), b);
    // turns the short way in the right direction: the matrix is Rot(theta)
    ck.eqm("Basis2::between_vectors = Rot(theta)", m, [[c, s], [-s, c]]);
    ck.eq("Basis2::between_vectors: det = 1", det(m), S::i(1));
    ck.note("theta", &th);
    ck.note("r", &r);
}

const EP3: &[&str] = &[
    "Rotation::between_vectors (Quaternion, Basis3)",
    "Rotation::rotate_vector",
];
const EPA: &[&str] = &["Quaternion::from_arc"];
const EP2: &[&str] = &["Rotation::between_vectors (Basis2)", "Rotation::rotate_vector"];

pub fn clauses() -> Vec<Clause> {
    vec![
        clause!("between_vectors", EP3, g_arc, between, weight = 2.0, classes = 4),
        clause!("from_arc", EPA, g_arc, from_arc, weight = 2.0, classes = 4),
        clause!("between_vectors_2d", EP2, g_2d, between2, weight = 1.0, classes = 3),
    ]
}

pub const RULE: &str = "3-D: class 0 exact arcs (a = row of an exact rational frame, h = (cos, sin*n) with n the next row and a rational point of the circle, b = h a h*; the answer must be exactly h), class 1 two independent rational unit vectors, class 2 ladder b = Rot(n,theta)a with theta = r*10^-4..1 from parallel or from antiparallel (outside the 1e-7 / 1e-4 zones), class 3 exactly parallel and exactly antiparallel pairs (a with a zero component so that the perpendicular axis is rational); from_arc scales both by lengths m*10^e in [1e-3,1e3] and passes an exact perpendicular fallback axis in half of the cases. tolerance_zone: theta in 10^-12..10^-7.5 from (anti)parallel, only closeness demanded. 2-D: b = Rot(theta)a for theta on a 2^-20 grid in (-pi,pi), class 1 = clockwise. Distinct = distinct input tuples.";
pub const ASSUME: &[&str] = &[
    "enclosure arithmetic as in C06",
    "a half turn built from the f64 constant pi is accepted when its scalar part is within 5e-8 (the statement grants 1e-7 rad)",
    "inside the stated tolerance zones only closeness of r(a) to b is demanded",
];
