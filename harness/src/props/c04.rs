//! C04 — Hamilton algebra and unit quaternions as rotations (DESIGN §C04).

use cgmath::prelude::*;
use cgmath::{Point3, Quaternion};

use cgv_core::clause;
use cgv_core::conv::*;
use cgv_core::fw::{Case, Clause};
use cgv_core::gen::{self, Rng, Tier};
use cgv_core::model::*;
use cgv_core::sc::{Ck, Sc};

fn g_alg(rng: &mut Rng, tier: Tier) -> Case {
    let mut c = Case::new();
    let mut nt = true;
    for _ in 0..3 {
        let (v, t) = gen::rats(rng, tier, 4);
        nt &= t;
        c.push_r(&v);
    }
    let (v, t) = gen::rats(rng, tier, 3);
    nt &= t;
    c.push_r(&v);
    c.push_r(&[gen::nz_rat(rng, tier)]);
    c.nontrivial = nt;
    c
}

fn algebra<S: Sc>(case: &Case, ck: &mut Ck<S>) {
    let mut rd = case.rd();
    let (p, q, r): (Qt<S>, Qt<S>, Qt<S>) = (rd.arr(), rd.arr(), rd.arr());
    let v: V<S, 3> = rd.arr();
    let a: S = rd.s();
    let (qp, qq, qr) = (mk_qt(p), mk_qt(q), mk_qt(r));
    ck.eqv("p*q vs Hamilton table", qt(qp * qq), qmul(p, q));
    ck.eqv("(pq)r = p(qr)", qt((qp * qq) * qr), qt(qp * (qq * qr)));
    ck.eqv("p(q+r) = pq+pr", qt(qp * (qq + qr)), qt(qp * qq + qp * qr));
    ck.eqv("(p+q)r = pr+qr", qt((qp + qq) * qr), qt(qp * qr + qq * qr));
    let one = Quaternion::<S>::one();
    ck.eqv("one", qt(one), [S::i(1), S::i(0), S::i(0), S::i(0)]);
    ck.eqv("zero", qt(Quaternion::<S>::zero()), [S::i(0); 4]);
    ck.eqv("1*p = p", qt(one * qp), p);
    ck.eqv("p*1 = p", qt(qp * one), p);
    ck.eqv("conjugate", qt(qp.conjugate()), qconj(p));
    ck.eqv(
        "conj(pq) = conj(q)conj(p)",
        qt((qp * qq).conjugate()),
        qt(qq.conjugate() * qp.conjugate()),
    );
    ck.eq("|pq|^2 = |p|^2|q|^2", (qp * qq).magnitude2(), qp.magnitude2() * qq.magnitude2());
    ck.eq("magnitude2 vs model", qp.magnitude2(), qnorm2(p));
    ck.eq("dot vs model", qp.dot(qq), vdot(p, q));
    // inverse (p != 0 unless all four components are zero)
    let n2 = qnorm2(p);
    if S::t_eq(&n2, &S::i(0)) == cgv_core::iv::Tri::False {
        let inv = Rotation::invert(&qp);
        ck.eqv("p*invert(p) = 1", qt(qp * inv), [S::i(1), S::i(0), S::i(0), S::i(0)]);
        ck.eqv("invert(p)*p = 1", qt(inv * qp), [S::i(1), S::i(0), S::i(0), S::i(0)]);
        ck.note("invert(p)", &inv);
    }
    // q*v for arbitrary q: v + 2 qv x (qv x v + s v)
    let qv = [q[1], q[2], q[3]];
    let s = q[0];
    let inner = vadd(cross(qv, v), vscale(v, s));
    let exp = vadd(v, vscale(cross(qv, inner), S::i(2)));
    ck.eqv("q*v formula", v3(qq * mk_v3(v)), exp);
    ck.eqv("rotate_vector = q*v", v3(qq.rotate_vector(mk_v3(v))), exp);
    ck.eqv("rotate_point = q*v", p3(qq.rotate_point(Point3::new(v[0], v[1], v[2]))), exp);
    // vector-space structure
    ck.eqv("p+q", qt(qp + qq), vadd(p, q));
    ck.eqv("p-q", qt(qp - qq), vsub(p, q));
    ck.eqv("-p", qt(-qp), vneg(p));
    ck.eqv("p*a", qt(qp * a), vscale(p, a));
    ck.eqv("p/a", qt(qp / a), [p[0] / a, p[1] / a, p[2] / a, p[3] / a]);
    let sum: Quaternion<S> = [qp, qq, qr].iter().sum();
    ck.eqv("Sum", qt(sum), vadd(vadd(p, q), r));
    let prod: Quaternion<S> = [qp, qq, qr].iter().product();
    ck.eqv("Product", qt(prod), qmul(qmul(p, q), r));
    ck.eqv("new(w,x,y,z)", qt(Quaternion::new(p[0], p[1], p[2], p[3])), p);
    ck.eqv("from_sv", qt(Quaternion::from_sv(p[0], mk_v3([p[1], p[2], p[3]]))), p);
    ck.note("p*q", &(qp * qq));
}

/// magnitudes a tolerance would call "negligible" or "close enough to unit":
/// class 0 all three quaternions scaled by 2^-k, class 1 p nearly unit (|p|^2 = (1+2^-k)^2),
/// class 2 q with scalar part exactly 1 or 0, class 3 one operand exactly zero
fn g_alg_scaled(rng: &mut Rng, tier: Tier) -> Case {
    let mut c = g_alg(rng, Tier::Quick);
    let _ = tier;
    let class = rng.below(4) as u16;
    // class 0 goes below machine epsilon (2^-52): such quaternions are still not zero
    let k = if class == 0 { rng.range(18, 59) as u32 } else { rng.range(18, 40) as u32 };
    c.class = class;
    match class {
        0 => {
            for i in 0..12 {
                c.r[i] = cgv_core::sc::Rat::new(c.r[i].n, c.r[i].d << k);
            }
        }
        1 => {
            let u = gen::unit_quat(rng, Tier::Quick);
            for i in 0..4 {
                // u * (1 + 2^-k)
                c.r[i] = cgv_core::sc::Rat::new(u[i].n * ((1i64 << k) + 1), u[i].d << k);
            }
        }
        2 => {
            c.r[4] = cgv_core::sc::Rat::int(if rng.bool() { 1 } else { 0 });
            c.r[0] = cgv_core::sc::Rat::int(if rng.bool() { 1 } else { 0 });
        }
        _ => {
            let which = rng.below(3) as usize;
            for i in 0..4 {
                c.r[which * 4 + i] = cgv_core::sc::Rat::int(0);
            }
        }
    }
    c.nontrivial = true;
    c
}

fn g_unit(rng: &mut Rng, tier: Tier) -> Case {
    let mut c = Case::new();
    let p = gen::unit_quat(rng, tier);
    let q = gen::unit_quat(rng, tier);
    c.push_r(&p).push_r(&q);
    let (v, t) = gen::rats(rng, tier, 3);
    c.push_r(&v);
    c.nontrivial = t && gen::is_nontrivial(&p) && gen::is_nontrivial(&q);
    c
}

fn unit<S: Sc>(case: &Case, ck: &mut Ck<S>) {
    let mut rd = case.rd();
    let (p, q): (Qt<S>, Qt<S>) = (rd.arr(), rd.arr());
    let v: V<S, 3> = rd.arr();
    let (qp, qq, vv) = (mk_qt(p), mk_qt(q), mk_v3(v));
    ck.eq("generator: |q| = 1", qnorm2(q), S::i(1));
    let r = qq * vv;
    ck.eqv("q*v = vec(q (0,v) conj q)", v3(r), qsandwich(q, v));
    ck.eq("|q*v|^2 = |v|^2", r.magnitude2(), vdot(v, v));
    ck.eqv("(pq)v = p(qv)", v3((qp * qq) * vv), v3(qp * (qq * vv)));
    ck.eqv("invert(q) = conj(q) for unit q", qt(Rotation::invert(&qq)), qconj(q));
    ck.eqv("invert(q)*(q*v) = v", v3(Rotation::invert(&qq) * r), v);
    ck.eq("|pq| = 1", (qp * qq).magnitude2(), S::i(1));
    ck.note("q*v", &r);
}

const EP_ALG: &[&str] = &[
    "Quaternion * Quaternion",
    "Quaternion * Vector3",
    "Quaternion::conjugate",
    "Quaternion::one",
    "Quaternion::zero",
    "Rotation::invert for Quaternion",
    "Rotation::rotate_vector",
    "Rotation::rotate_point",
    "InnerSpace::{dot,magnitude2} for Quaternion",
    "Sum/Product for Quaternion",
];

pub fn clauses() -> Vec<Clause> {
    vec![
        clause!("algebra", EP_ALG, g_alg, algebra, weight = 2.0, classes = 0),
        clause!("algebra_scaled", EP_ALG, g_alg_scaled, algebra, weight = 1.0, classes = 4),
        clause!("unit", EP_ALG, g_unit, unit, weight = 2.0, classes = 0),
    ]
}

pub const RULE: &str = "algebra: three quaternions and a vector of small rationals plus a non-zero scalar; unit: two exactly unit quaternions (rational points of the 3-sphere by inverse stereographic projection of integer points, random overall sign) and a rational vector; non-trivial = all components non-zero and pairwise distinct within each operand; distinct = distinct input tuples per clause.";
pub const ASSUME: &[&str] = &["exact rational arithmetic in i128; no tolerance anywhere"];
