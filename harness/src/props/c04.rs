//! C04 — Hamilton algebra and unit quaternions as rotations (DESIGN §C04).

use cgmath::prelude::*;
use cgmath::{Point3, Quaternion};

use cgv_core::clause;
use cgv_core::conv::*;
use cgv_core::fw::{Case, Clause};
use cgv_core::gen::{self, Rng, Tier};
use cgv_core::model::*;
use cgv_core::sc::{Ck, Sc};

fn g_alg(rng: &mut Rng, tier: Tier) -> Case {
    let mut c = Case::new();
    let mut nt = true;
    for _ in 0..3 {
        let (v, t) = gen::rats(rng, tier, 4);
        nt &= t;
        c.push_r(&v);
    }
    let (v, t) = gen::rats(rng, tier, 3);
    nt &= t;
    c.push_r(&v);
    c.push_r(&[gen::nz_rat(rng, tier)]);
    c.nontrivial = nt;
    c
}

fn algebra<S: Sc>(case: &Case, ck: &mut Ck<S>) {
    let mut rd = case.rd();
    let (p, q, r): (Qt<S>, Qt<S>, Qt<S>) = (rd.arr(), rd.arr(), rd.arr());
    let v: V<S, 3> = rd.arr();
    let a: S = rd.s();
    let (qp, qq, qr) = (mk_qt(p), mk_qt(q), mk_qt(r));
    ck.eqv("p*q vs Hamilton table", qt(qp * qq), qmul(p, q));
    ck.eqv("(pq)r = p(qr)", qt((qp * qq) * qr), qt(qp * (qq * qr)));
    ck.eqv("p(q+r) = pq+pr", qt(qp * (qq + qr)), qt(qp * qq + qp * qr));
    ck.eqv("(p+q)r = pr+qr", qt((qp + qq) * qr), qt(qp * qr + qq * qr));
    let one = Quaternion::<S>::one();
    ck.eqv("one", qt(one), [S::i(1), S::i(0), S::i(0), S::i(0)]);
    ck.eqv("zero", qt(Quaternion::<S>::zero()), [S::i(0); 4]);
    ck.eqv("1*p = p", qt(one * qp), p);
    ck.eqv("p*1 = p", qt(qp * one), p);
    ck.eqv("conjugate", qt(qp.conjugate()), qconj(p));
    ck.eqv(
        "conj(pq) = conj(q)conj(p)",
        qt((qp * qq).conjugate()),
        qt(qq.conjugate() * qp.conjugate()),
    );
    ck.eq("|pq|^2 = |p|^2|q|^2", (qp * qq).magnitude2(), qp.magnitude2() * qq.magnitude2());
    ck.eq("magnitude2 vs model", qp.magnitude2(), qnorm2(p));
    ck.eq("dot vs model", qp.dot(qq), vdot(p, q));
    // inverse (p != 0 unless all four components are zero)
    let n2 = qnorm2(p);
    if S::t_eq(&n2, &S::i(0)) == cgv_core::iv::Tri::False {
        let inv = Rotation::invert(&qp);
        ck.eqv("p*invert(p) = 1", qt(qp * inv), [S::i(1), S::i(0), S::i(0), S::i(0)]);
        ck.eqv("invert(p)*p = 1", qt(inv * qp), [S::i(1), S::i(0), S::i(0), S::i(0)]);
        ck.note("invert(p)", &inv);
    }
    // q*v for arbitrary q: v + 2 qv x (qv x v + s v)
    let qv = [q[1], q[2], q[3]];
    let s = q[0];
    let inner = vadd(cross(qv, v), vscale(v, s));
    let exp = vadd(v, vscale(cross(qv, inner), S::i(2)));
    ck.eqv("q*v formula", v3(qq * mk_v3(v)), exp);
    ck.eqv("rotate_vector = q*v", v3(qq.rotate_vector(mk_v3(v))), exp);
    ck.eqv("rotate_point = q*v", p3(qq.rotate_point(Point3::new(v[0], v[1], v[2]))), exp);
    // vector-space structure
    ck.eqv("p+q", qt(qp + qq), vadd(p, q));
    ck.eqv("p-q", qt(qp - qq), vsub(p, q));
    ck.eqv("-p", qt(-qp), vneg(p));
    ck.eqv("p*a", qt(qp * a), vscale(p, a));
    ck.eqv("p/a", qt(qp / a), [p[0] / a, p[1] / a, p[2] / a, p[3] / a]);
    let sum: Quaternion<S> = [qp, qq, qr].iter().sum();
    ck.eqv("Sum", qt(sum), vadd(vadd(p, q), r));
    let prod: Quaternion<S> = [qp, qq, qr].iter().product();
    ck.eqv("Product", qt(prod), qmul(qmul(p, q), r));
    ck.eqv("new(w,x,y,z)", qt(Quaternion::new(p[0], p[1], p[2], p[3])), p);
    ck.eqv("from_sv", qt(Quaternion::from_sv(p[0], mk_v3([p[1], p[2], p[3]]))), p);
    ck.note("p*q", &(qp * qq));
}

/// magnitudes a tolerance would call "negligible" or "close enough to unit":
/// class 0 all three quaternions scaled by 2^-k, class 1 p nearly unit (|p|^2 = (1+2^-k)^2),
/// class 2 q with scalar part exactly 1 or 0, class 3 one operand exactly zero
fn g_alg_scaled(rng: &mut Rng, tier: Tier) -> Case {
    let mut c = g_alg(rng, Tier::Quick);
    let _ = tier;
    let class = rng.below(4) as u16;
    // class 0 goes below machine epsilon (2^-52): such quaternions are still not zero
    let k = if class == 0 { rng.range(18, 59) as u32 } else { rng.range(18, 40) as u32 };
    c.class = class;
    match class {
        0 => {
            for i in 0..12 {
                c.r[i] = cgv_core::sc::Rat::new(c.r[i].n, c.r[i].d << k);
            }
        }
        1 => {
            let u = gen::unit_quat(rng, Tier::Quick);
            for i in 0..4 {
                // u * (1 + 2^-k)
                c.r[i] = cgv_core::sc::Rat::new(u[i].n * ((1i64 << k) + 1), u[i].d << k);
            }
        }
        2 => {
            c.r[4] = cgv_core::sc::Rat::int(if rng.bool() { 1 } else { 0 });
            c.r[0] = cgv_core::sc::Rat::int(if rng.bool() { 1 } else { 0 });
        }
        _ => {
            let which = rng.below(3) as usize;
            for i in 0..4 {
                c.r[which * 4 + i] = cgv_core::sc::Rat::int(0);
            }
        }
    }
    c.nontrivial = true;
    c
}

fn g_unit(rng: &mut Rng, tier: Tier) -> Case {
    let mut c = Case::new();
    let p = gen::unit_quat(rng, tier);
    let q = gen::unit_quat(rng, tier);
    c.push_r(&p).push_r(&q);
    let (v, t) = gen::rats(rng, tier, 3);
    c.push_r(&v);
    c.nontrivial = t && gen::is_nontrivial(&p) && gen::is_nontrivial(&q);
    c
}

fn unit<S: Sc>(case: &Case, ck: &mut Ck<S>) {
    let mut rd = case.rd();
    let (p, q): (Qt<S>, Qt<S>) = (rd.arr(), rd.arr());
    let v: V<S, 3> = rd.arr();
    let (qp, qq, vv) = (mk_qt(p), mk_qt(q), mk_v3(v));
    ck.eq("generator: |q| = 1", qnorm2(q), S::i(1));
    let r = qq * vv;
    ck.eqv("q*v = vec(q (0,v) conj q)", v3(r), qsandwich(q, v));
    ck.eq("|q*v|^2 = |v|^2", r.magnitude2(), vdot(v, v));
    ck.eqv("(pq)v = p(qv)", v3((qp * qq) * vv), v3(qp * (qq * vv)));
    ck.eqv("invert(q) = conj(q) for unit q", qt(Rotation::invert(&qq)), qconj(q));
    ck.eqv("invert(q)*(q*v) = v", v3(Rotation::invert(&qq) * r), v);
    ck.eq("|pq| = 1", (qp * qq).magnitude2(), S::i(1));
    ck.note("q*v", &r);
}

const EP_ALG: &[&str] = &[
    "Quaternion * Quaternion",
    "Quaternion * Vector3",
    "Quaternion::conjugate",
    "Quaternion::one",
    "Quaternion::zero",
    "Rotation::invert for Quaternion",
    "Rotation::rotate_vector",
    "Rotation::rotate_point",
    "InnerSpace::{dot,magnitude2} for Quaternion",
    "Sum/Product for Quaternion",
];

pub fn clauses() -> Vec<Clause> {
    vec![
        clause!("algebra", EP_ALG, g_alg, algebra, weight = 2.0, classes = 0),
        clause!("algebra_scaled", EP_ALG, g_alg_scaled, algebra, weight = 1.0, classes = 4),
        clause!("unit", EP_ALG, g_unit, unit, weight = 2.0, classes = 0),
    ]
}

/// Native f32 / f64 quaternions with components m*2^e spread over 40 binary
/// orders of magnitude: the Hamilton product, q*v (the statement's formula
/// v + 2 qv x (qv x v + s v)), conjugate and the ring operations against a
/// double-double model, componentwise allowance 1024 eps * (sum of the
/// magnitudes of the terms of that component).
pub fn native_floats(cfg: &cgv_core::fw::RunCfg, extra: &mut cgv_core::fw::Extra) {
    use cgmath::{BaseFloat, Vector3};
    use cgv_core::acc::Acc;
    use cgv_core::dd;
    use serde_json::json;
    fn run<T: BaseFloat>(tag: &str, p0: [f64; 4], q0: [f64; 4], v0: [f64; 3], acc: &mut Acc, inputs: &dyn Fn() -> serde_json::Value) {
        let eps = T::epsilon().to_f64().unwrap();
        let f = |x: f64| T::from(x).unwrap();
        let g = |x: T| x.to_f64().unwrap();
        // (s, x, y, z)
        let p = Quaternion::new(f(p0[0]), f(p0[1]), f(p0[2]), f(p0[3]));
        let q = Quaternion::new(f(q0[0]), f(q0[1]), f(q0[2]), f(q0[3]));
        let pq = p * q;
        let got = [g(pq.s), g(pq.v.x), g(pq.v.y), g(pq.v.z)];
        let (a, b) = (p0, q0);
        // Hamilton table: rows are the four components of p*q as signed products a_i b_j
        let table: [[(usize, usize, f64); 4]; 4] = [
            [(0, 0, 1.0), (1, 1, -1.0), (2, 2, -1.0), (3, 3, -1.0)],
            [(0, 1, 1.0), (1, 0, 1.0), (2, 3, 1.0), (3, 2, -1.0)],
            [(0, 2, 1.0), (2, 0, 1.0), (3, 1, 1.0), (1, 3, -1.0)],
            [(0, 3, 1.0), (3, 0, 1.0), (1, 2, 1.0), (2, 1, -1.0)],
        ];
        for (c, row) in table.iter().enumerate() {
            let l: Vec<f64> = row.iter().map(|t| a[t.0] * t.2).collect();
            let r: Vec<f64> = row.iter().map(|t| b[t.1]).collect();
            let (want, cond) = dd::dot(&l, &r);
            acc.check(&format!("{tag} (p*q) component {c} (s,x,y,z order)"), got[c], want, 1024.0 * eps * cond, inputs);
        }
        let cj = p.conjugate();
        acc.truth(&format!("{tag} conjugate negates exactly the vector part"), cj.s == p.s && cj.v == -p.v, inputs);
        let sum = p + q;
        acc.truth(&format!("{tag} p + q is component-wise"), sum.s == p.s + q.s && sum.v == p.v + q.v, inputs);
        let (want, cond) = dd::dot(&p0, &p0);
        acc.check(&format!("{tag} magnitude2(p)"), g(p.magnitude2()), want, 1024.0 * eps * cond, inputs);
        // q*v = v + 2 qv x (qv x v + s v): evaluate the formula in double-double-free f64 on
        // well-scaled parts and bound it by the magnitudes of its terms
        let v = Vector3::new(f(v0[0]), f(v0[1]), f(v0[2]));
        let r = q * v;
        let (s, qv) = (q0[0], [q0[1], q0[2], q0[3]]);
        let cross = |a: [f64; 3], b: [f64; 3]| [a[1] * b[2] - a[2] * b[1], a[2] * b[0] - a[0] * b[2], a[0] * b[1] - a[1] * b[0]];
        let abs3 = |a: [f64; 3]| [a[0].abs(), a[1].abs(), a[2].abs()];
        let crossabs = |a: [f64; 3], b: [f64; 3]| [a[1] * b[2] + a[2] * b[1], a[2] * b[0] + a[0] * b[2], a[0] * b[1] + a[1] * b[0]];
        let t = cross(qv, v0);
        let inner = [t[0] + s * v0[0], t[1] + s * v0[1], t[2] + s * v0[2]];
        let tabs = crossabs(abs3(qv), abs3(v0));
        let innerabs = [tabs[0] + (s * v0[0]).abs(), tabs[1] + (s * v0[1]).abs(), tabs[2] + (s * v0[2]).abs()];
        let o = cross(qv, inner);
        let oabs = crossabs(abs3(qv), innerabs);
        for i in 0..3 {
            let want = v0[i] + 2.0 * o[i];
            let cond = v0[i].abs() + 2.0 * oabs[i];
            // the f64 evaluation of the model itself carries a few eps64 * cond
            acc.check(&format!("{tag} (q*v)[{i}] vs v + 2 qv x (qv x v + s v)"), g(r[i]), want, 1024.0 * eps * cond, inputs);
        }
    }
    // q * invert(q) = invert(q) * q = one() for tiny and huge q: integer quaternions times 2^k,
    // k down to where |q|^2 = m * 2^(2k) is still exactly representable (subnormal), up to where it
    // is still finite.  Everything is exact except the final divisions, allowance 128 eps.
    fn inverse<T: BaseFloat>(tag: &str, qi: [i64; 4], k: i32, acc: &mut Acc, inputs: &dyn Fn() -> serde_json::Value) {
        let eps = T::epsilon().to_f64().unwrap();
        let f = |x: f64| T::from(x).unwrap();
        let g = |x: T| x.to_f64().unwrap();
        let s = if k >= -1022 { f64::from_bits(((k + 1023) as u64) << 52) } else { 0.0 };
        let q = Quaternion::new(f(qi[0] as f64 * s), f(qi[1] as f64 * s), f(qi[2] as f64 * s), f(qi[3] as f64 * s));
        let inv = Rotation::invert(&q);
        for (name, p) in [("q * invert(q)", q * inv), ("invert(q) * q", inv * q)] {
            let got = [g(p.s), g(p.v.x), g(p.v.y), g(p.v.z)];
            for (c, x) in got.iter().enumerate() {
                acc.check(&format!("{tag} {name} component {c} at scale 2^{k}"), *x, if c == 0 { 1.0 } else { 0.0 }, 128.0 * eps, inputs);
            }
        }
    }
    // q * v for vectors near the end of the range (a component in (MAX/2, 3/4 MAX), the sentinel
    // corners of an "empty" bounding box) and q the identity or a small rotation: the exact result
    // is representable, so it must be finite and within the rotation angle of v
    fn large_vector<T: BaseFloat>(tag: &str, which: usize, frac: f64, angle: f64, acc: &mut Acc, inputs: &dyn Fn() -> serde_json::Value) {
        let f = |x: f64| T::from(x).unwrap();
        let g = |x: T| x.to_f64().unwrap();
        let big = T::max_value().to_f64().unwrap() * frac;
        let mut c = [1.0f64, -2.0, 0.5];
        c[which] = big;
        let v = Vector3::new(f(c[0]), f(c[1]), f(c[2]));
        let axis = Vector3::new(f(0.6), f(0.0), f(0.8));
        let q = if angle == 0.0 { Quaternion::one() } else { Quaternion::from_axis_angle(axis, cgmath::Rad(f(angle))) };
        let r = q * v;
        let rr = [g(r.x), g(r.y), g(r.z)];
        for (i, x) in rr.iter().enumerate() {
            acc.truth(&format!("{tag} (q * v)[{i}] is not finite for v with a component of {big:e} and a rotation by {angle} rad"), x.is_finite(), inputs);
        }
        // (scaled before squaring: the components themselves are near the end of the range)
        let d = (((rr[0] - g(v.x)) / big).powi(2) + ((rr[1] - g(v.y)) / big).powi(2) + ((rr[2] - g(v.z)) / big).powi(2)).sqrt() * big;
        acc.check(&format!("{tag} |q*v - v| for a rotation by {angle} rad of a vector of length {big:e}"), d / big, 0.0, 1.5 * angle.abs() + 1e-5, inputs);
    }
    let n = if cfg.tier == Tier::Quick { 3000 } else { 200_000 };
    let mut acc = Acc::new("c04_float_quaternions");
    for i in 0..n {
        let mut rng = Rng::for_case(cfg.seed, "c04_native_floats", i);
        let wide = rng.bool();
        let entry = |rng: &mut Rng| {
            let m = rng.range(1, 2047) as f64 * if rng.bool() { 1.0 } else { -1.0 };
            m * (2.0f64).powi(if wide { rng.range(-20, 20) as i32 } else { -10 })
        };
        let p = [entry(&mut rng), entry(&mut rng), entry(&mut rng), entry(&mut rng)];
        let q = [entry(&mut rng), entry(&mut rng), entry(&mut rng), entry(&mut rng)];
        let v = [entry(&mut rng), entry(&mut rng), entry(&mut rng)];
        acc.case(if wide { "components m*2^e, e in [-20,20]" } else { "components of similar size" });
        let qi = [rng.range(-15, 15), rng.range(1, 15), rng.range(-15, 15), rng.range(-15, 15)];
        let low = rng.chance(1, 3);
        let k64 = if low { rng.range(-535, -505) } else { rng.range(-535, 500) } as i32;
        let k32 = if low { rng.range(-74, -62) } else { rng.range(-74, 58) } as i32;
        let inputs = || json!({"p_sxyz": p, "q_sxyz": q, "v": v, "integer_quaternion_sxyz": qi, "scale_log2_f64": k64, "scale_log2_f32": k32, "index": i});
        match cgv_core::fw::catch(|| {
            let mut local = Acc::new("c04_float_quaternions");
            run::<f64>("f64", p, q, v, &mut local, &inputs);
            run::<f32>("f32", p, q, v, &mut local, &inputs);
            inverse::<f64>("f64", qi, k64, &mut local, &inputs);
            inverse::<f32>("f32", qi, k32, &mut local, &inputs);
            if i % 8 == 0 {
                let which = (i / 8 % 3) as usize;
                let frac = 0.5 + 0.25 * ((i / 24 % 10) as f64) / 10.0;
                let angle = [0.0, 1e-3, -2e-4, 1e-6][(i / 8 % 4) as usize];
                large_vector::<f64>("f64", which, frac, angle, &mut local, &inputs);
                large_vector::<f32>("f32", which, frac, angle, &mut local, &inputs);
            }
            local
        }) {
            Ok(l) => {
                acc.checks += l.checks;
                acc.worst = acc.worst.max(l.worst);
                if acc.fail.is_none() {
                    acc.fail = l.fail;
                }
            }
            Err(pn) => acc.truth(&format!("unexpected panic: {pn}"), false, &inputs),
        }
        if acc.failed() {
            break;
        }
    }
    acc.finish(extra, "double-double Hamilton table; f64 evaluation of the statement's q*v formula; allowance 1024 eps * sum of term magnitudes");
}

pub fn native(cfg: &cgv_core::fw::RunCfg, extra: &mut cgv_core::fw::Extra) {
    cgv_core::twins::c04(cfg, extra);
    native_floats(cfg, extra);
}

pub const RULE: &str = "algebra: three quaternions and a vector of small rationals plus a non-zero scalar; unit: two exactly unit quaternions (rational points of the 3-sphere by inverse stereographic projection of integer points, random overall sign) and a rational vector; non-trivial = all components non-zero and pairwise distinct within each operand; distinct = distinct input tuples per clause.";
pub const ASSUME: &[&str] = &["exact rational arithmetic in i128; no tolerance anywhere"];
