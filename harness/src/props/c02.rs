//! C02 — inverse, determinant, transpose, swaps (DESIGN §C02).

use cgmath::prelude::*;
use cgmath::{Matrix2, Matrix3, Matrix4, Point2, Point3, Transform};

use cgv_core::clause;
use cgv_core::conv::*;
use cgv_core::fw::{Case, Clause};
use cgv_core::gen::{self, Rng, Tier};
use cgv_core::model::*;
use cgv_core::sc::{Ck, Rat, Sc};

/// family 0: generic; 1: exactly singular (dependent column, rank n-1 or lower);
/// 2: singular with one entry perturbed by 10^-k (tiny, possibly zero, determinant)
fn gen_family(rng: &mut Rng, tier: Tier, n: usize, family: u16) -> Case {
    let mut c = Case::new();
    c.class = family;
    let mut cols: Vec<Vec<Rat>> = vec![];
    match family {
        0 => {
            let (v, nt) = gen::rats(rng, tier, n * n);
            c.nontrivial = nt;
            c.push_r(&v);
            return c;
        }
        _ => {
            // n-1 free columns, the last a small-integer combination of them
            let free = gen::distinct_rats(rng, tier, n * (n - 1));
            for j in 0..n - 1 {
                cols.push(free[j * n..(j + 1) * n].to_vec());
            }
            let lower_rank = n > 2 && rng.chance(1, 4);
            let mut last = vec![(0i64, 1i64); n];
            let coef: Vec<i64> = (0..n - 1)
                .map(|j| if lower_rank && j > 0 { 0 } else { rng.range(-3, 3) })
                .collect();
            if lower_rank {
                // make column 1 a multiple of column 0 too
                let k = rng.range(1, 3);
                cols[1] = cols[0].iter().map(|r| Rat::new(r.n * k, r.d)).collect();
            }
            for r in 0..n {
                // sum coef_j * cols[j][r] with common denominator 420
                let mut num = 0i64;
                for j in 0..n - 1 {
                    num += coef[j] * cols[j][r].n * (420 / cols[j][r].d);
                }
                last[r] = (num, 420);
            }
            cols.push(last.iter().map(|&(a, b)| Rat::new(a, b)).collect());
            // random column order, optional transpose
            let mut order: Vec<usize> = (0..n).collect();
            for i in (1..n).rev() {
                let j = rng.below(i as u64 + 1) as usize;
                order.swap(i, j);
            }
            let mut m: Vec<Vec<Rat>> = order.iter().map(|&i| cols[i].clone()).collect();
            if rng.bool() {
                let t = m.clone();
                for a in 0..n {
                    for b in 0..n {
                        m[a][b] = t[b][a];
                    }
                }
            }
            if family == 2 {
                let (pc, pr) = (rng.below(n as u64) as usize, rng.below(n as u64) as usize);
                let k = rng.range(9, 12) as u32;
                let eps = Rat::new(if rng.bool() { 1 } else { -1 }, 10i64.pow(k));
                // add eps exactly: a/b + 1/10^k
                let e = m[pc][pr];
                m[pc][pr] = Rat::new(e.n * eps.d + eps.n * e.d, e.d * eps.d);
            }
            for col in &m {
                c.push_r(col);
            }
            c.nontrivial = true;
        }
    }
    c
}

/// class 4: every column a rational unit vector, taken from an exact rotation
/// matrix, with the last column replaced by a unit combination a*c0 + b*c_last
/// (a^2 + b^2 = 1): looks orthonormal under any test that forgets one pair, is
/// an invertible shear (or, for a = +-1, singular / for a = 0 a rotation).
fn gen_unit_columns(rng: &mut Rng, n: usize) -> Case {
    use cgv_core::q::Q;
    let mut c = Case::new();
    c.class = 4;
    let q = gen::unit_quat(rng, Tier::Quick);
    let qq: [Q; 4] = [Q::rat(q[0]), Q::rat(q[1]), Q::rat(q[2]), Q::rat(q[3])];
    let m3 = qmat(qq);
    let [a, b] = gen::unit_vec2(rng, Tier::Quick);
    let (qa, qb) = (Q::rat(a), Q::rat(b));
    let f = |x: Q| Rat::new(x.num() as i64, x.den() as i64);
    let mut cols: Vec<Vec<Rat>> = vec![];
    match n {
        2 => {
            let [c0, s0] = gen::unit_vec2(rng, Tier::Quick);
            cols.push(vec![c0, s0]);
            // second column: unit, generally not orthogonal to the first
            let [c1, s1] = gen::unit_vec2(rng, Tier::Quick);
            cols.push(vec![c1, s1]);
        }
        3 => {
            for col in 0..3 {
                cols.push((0..3).map(|r| f(m3[col][r])).collect());
            }
            cols[2] = (0..3).map(|r| f(qa * m3[0][r] + qb * m3[2][r])).collect();
        }
        _ => {
            for col in 0..3 {
                let mut v: Vec<Rat> = (0..3).map(|r| f(m3[col][r])).collect();
                v.push(Rat::int(0));
                cols.push(v);
            }
            cols.push(vec![Rat::int(0), Rat::int(0), Rat::int(0), Rat::int(1)]);
            // shear the w column into the x column: unit, orthogonal to y and z, not to x
            cols[3] = (0..4).map(|r| if r < 3 { f(qa * m3[0][r]) } else { b }).collect();
        }
    }
    // random column order
    for i in (1..n).rev() {
        let j = rng.below(i as u64 + 1) as usize;
        cols.swap(i, j);
    }
    for col in &cols {
        c.push_r(col);
    }
    c.nontrivial = true;
    c
}

fn gen_n(rng: &mut Rng, tier: Tier, n: usize) -> Case {
    let (v, nt) = gen::rats(rng, tier, n);
    let mut c = Case::new();
    c.push_r(&v);
    c.nontrivial = nt;
    c
}

macro_rules! dim {
    ($md:ident, $N:expr, $Mat:ident, $Vec:ident, $m:ident, $v:ident, $mk_m:ident, $mk_v:ident) => {
        pub mod $md {
            use super::*;
            const N: usize = $N;

            pub fn g_inv(rng: &mut Rng, tier: Tier) -> Case {
                let fam = match rng.below(17) {
                    0..=4 => 0,
                    5..=7 => 1,
                    8..=9 => 2,
                    10..=11 => 3,
                    12..=13 => 4,
                    _ => 5,
                };
                if fam == 5 {
                    // what the crate's own constructors produce: identity, scale, translation,
                    // viewport, rotation, projection-shaped, singular scale
                    let (m, _) = gen::structured_matrix(rng, tier, N);
                    let mut c = Case::new();
                    c.push_r(&m);
                    c.class = 5;
                    c.nontrivial = true;
                    return c;
                }
                if fam == 4 {
                    return super::gen_unit_columns(rng, N);
                }
                if fam == 3 {
                    // well-conditioned matrix scaled by 2^-k: determinant far below
                    // machine epsilon yet exactly non-zero (unless the base is singular)
                    let mut c = gen_family(rng, Tier::Quick, N, 0);
                    let k = rng.range(8, 24) as u32;
                    for r in c.r.iter_mut() {
                        *r = Rat::new(r.n, r.d << k);
                    }
                    c.class = 3;
                    c.nontrivial = true;
                    return c;
                }
                gen_family(rng, tier, N, fam)
            }
            pub fn g_two(rng: &mut Rng, tier: Tier) -> Case {
                gen_n(rng, tier, 2 * N * N)
            }
            pub fn g_hist(rng: &mut Rng, tier: Tier) -> Case {
                let mut c = gen_n(rng, tier, N * N);
                let steps = rng.range(1, 8);
                c.push_k(&[steps]);
                for _ in 0..steps {
                    let op = rng.range(0, 4);
                    let n = N as i64;
                    c.push_k(&[
                        op,
                        rng.range(0, n - 1),
                        rng.range(0, n - 1),
                        rng.range(0, n - 1),
                        rng.range(0, n - 1),
                    ]);
                    let col = gen::distinct_rats(rng, tier, N);
                    c.push_r(&col);
                }
                c
            }

            /// invert() is None exactly when det = 0, otherwise a two-sided inverse
            pub fn invert<S: Sc>(case: &Case, ck: &mut Ck<S>) {
                let a: M<S, N> = case.rd().mat();
                let ma = $mk_m(a);
                let d = det(a);
                let code_det = ma.determinant();
                ck.eq("determinant vs Leibniz", code_det, d);
                let inv = ma.invert();
                ck.note("det", &d);
                let singular = S::t_eq(&d, &S::i(0));
                match inv {
                    None => {
                        // must be singular: violated only if det is certainly non-zero
                        ck.truth(
                            "invert() == None only for det = 0",
                            singular != cgv_core::iv::Tri::False,
                        );
                    }
                    Some(n) => {
                        ck.truth(
                            "invert() == Some only for det != 0",
                            singular != cgv_core::iv::Tri::True,
                        );
                        ck.eqm("M*N = I", $m(ma * n), mident());
                        ck.eqm("N*M = I", $m(n * ma), mident());
                        ck.note("inverse", &n);
                    }
                }
            }

            /// the same inverse through the Transform trait
            pub fn inverse_transform<S: Sc>(case: &Case, ck: &mut Ck<S>) {
                let a: M<S, N> = case.rd().mat();
                let ma = $mk_m(a);
                super::inv_xf::$md(ma, ck);
            }

            pub fn det_laws<S: Sc>(case: &Case, ck: &mut Ck<S>) {
                let mut rd = case.rd();
                let (a, b): (M<S, N>, M<S, N>) = (rd.mat(), rd.mat());
                let (ma, mb) = ($mk_m(a), $mk_m(b));
                ck.eq("det A", ma.determinant(), det(a));
                ck.eq("det(AB) = det A det B", (ma * mb).determinant(), ma.determinant() * mb.determinant());
                ck.eq("det(AB) vs model", (ma * mb).determinant(), det(a) * det(b));
                ck.eq("det(A^T) = det A", ma.transpose().determinant(), det(a));
                ck.eqm("transpose involution", $m(ma.transpose().transpose()), a);
                ck.eqm("(AB)^T = B^T A^T", $m((ma * mb).transpose()), $m(mb.transpose() * ma.transpose()));
                let mut t = ma;
                t.transpose_self();
                ck.eqm("transpose_self = transpose", $m(t), mtrans(a));
                ck.eqm("transpose vs model", $m(ma.transpose()), mtrans(a));
            }

            /// history of in-place mutations against the array model
            pub fn history<S: Sc>(case: &Case, ck: &mut Ck<S>) {
                let mut rd = case.rd();
                let mut a: M<S, N> = rd.mat();
                let mut ma = $mk_m(a);
                let steps = rd.k();
                for step in 0..steps {
                    let (op, i, j, k, l) = (rd.k(), rd.k() as usize, rd.k() as usize, rd.k() as usize, rd.k() as usize);
                    let col: V<S, N> = rd.arr();
                    let what;
                    match op {
                        0 => {
                            ma.swap_rows(i, j);
                            for c in 0..N {
                                let t = a[c][i];
                                a[c][i] = a[c][j];
                                a[c][j] = t;
                            }
                            what = format!("swap_rows({i},{j})");
                        }
                        1 => {
                            ma.swap_columns(i, j);
                            a.swap(i, j);
                            what = format!("swap_columns({i},{j})");
                        }
                        2 => {
                            ma.swap_elements((i, j), (k, l));
                            let t = a[i][j];
                            a[i][j] = a[k][l];
                            a[k][l] = t;
                            what = format!("swap_elements(({i},{j}),({k},{l}))");
                        }
                        3 => {
                            let old = ma.replace_col(i, $mk_v(col));
                            ck.eqv(&format!("step {step} replace_col returns old column"), $v(old), a[i]);
                            a[i] = col;
                            what = format!("replace_col({i})");
                        }
                        _ => {
                            ma.transpose_self();
                            a = mtrans(a);
                            what = "transpose_self".to_string();
                        }
                    }
                    ck.eqm(&format!("after step {step} {what}"), $m(ma), a);
                }
            }
        }
    };
}

mod inv_xf {
    use super::*;
    pub fn d2<S: Sc>(_m: Matrix2<S>, _ck: &mut Ck<S>) {}
    pub fn d3<S: Sc>(m: Matrix3<S>, ck: &mut Ck<S>) {
        let a = Transform::<Point2<S>>::inverse_transform(&m);
        let b = Transform::<Point3<S>>::inverse_transform(&m);
        let c = m.invert();
        ck.truth("Matrix3 inverse_transform(2-D) is Some iff invert is", a.is_some() == c.is_some());
        ck.truth("Matrix3 inverse_transform(3-D) is Some iff invert is", b.is_some() == c.is_some());
        if let (Some(a), Some(b), Some(c)) = (a, b, c) {
            ck.eqm("Matrix3 inverse_transform(2-D) = invert", m3(a), m3(c));
            ck.eqm("Matrix3 inverse_transform(3-D) = invert", m3(b), m3(c));
            ck.eqm("inverse_transform * M = I", m3(a * m), mident());
        }
    }
    pub fn d4<S: Sc>(m: Matrix4<S>, ck: &mut Ck<S>) {
        let a = Transform::<Point3<S>>::inverse_transform(&m);
        let c = m.invert();
        ck.truth("Matrix4 inverse_transform is Some iff invert is", a.is_some() == c.is_some());
        if let (Some(a), Some(c)) = (a, c) {
            ck.eqm("Matrix4 inverse_transform = invert", m4(a), m4(c));
            ck.eqm("inverse_transform * M = I", m4(a * m), mident());
        }
    }
}

dim!(d2, 2, Matrix2, Vector2, m2, v2, mk_m2, mk_v2);
dim!(d3, 3, Matrix3, Vector3, m3, v3, mk_m3, mk_v3);
dim!(d4, 4, Matrix4, Vector4, m4, v4, mk_m4, mk_v4);

const EP_INV: &[&str] = &["SquareMatrix::invert", "SquareMatrix::determinant", "Matrix * Matrix"];
const EP_XF: &[&str] = &["Transform::inverse_transform (Matrix3, Matrix4)", "SquareMatrix::invert"];
const EP_DET: &[&str] = &["SquareMatrix::determinant", "Matrix::transpose", "SquareMatrix::transpose_self"];
const EP_HIST: &[&str] = &[
    "Matrix::swap_rows",
    "Matrix::swap_columns",
    "Matrix::swap_elements",
    "Matrix::replace_col",
    "SquareMatrix::transpose_self",
];

fn inv2<S: Sc>(c: &Case, k: &mut Ck<S>) {
    d2::invert(c, k)
}
fn inv3<S: Sc>(c: &Case, k: &mut Ck<S>) {
    d3::invert(c, k)
}
fn inv4<S: Sc>(c: &Case, k: &mut Ck<S>) {
    d4::invert(c, k)
}
fn ixf3<S: Sc>(c: &Case, k: &mut Ck<S>) {
    d3::inverse_transform(c, k)
}
fn ixf4<S: Sc>(c: &Case, k: &mut Ck<S>) {
    d4::inverse_transform(c, k)
}
fn det2<S: Sc>(c: &Case, k: &mut Ck<S>) {
    d2::det_laws(c, k)
}
fn det3<S: Sc>(c: &Case, k: &mut Ck<S>) {
    d3::det_laws(c, k)
}
fn det4<S: Sc>(c: &Case, k: &mut Ck<S>) {
    d4::det_laws(c, k)
}
fn hist2<S: Sc>(c: &Case, k: &mut Ck<S>) {
    d2::history(c, k)
}
fn hist3<S: Sc>(c: &Case, k: &mut Ck<S>) {
    d3::history(c, k)
}
fn hist4<S: Sc>(c: &Case, k: &mut Ck<S>) {
    d4::history(c, k)
}

pub fn clauses() -> Vec<Clause> {
    vec![
        clause!("invert2", EP_INV, d2::g_inv, inv2, weight = 1.0, classes = 6),
        clause!("invert3", EP_INV, d3::g_inv, inv3, weight = 1.0, classes = 6),
        clause!("invert4", EP_INV, d4::g_inv, inv4, weight = 1.0, classes = 6),
        clause!("inverse_transform3", EP_XF, d3::g_inv, ixf3, weight = 0.5, classes = 6),
        clause!("inverse_transform4", EP_XF, d4::g_inv, ixf4, weight = 0.5, classes = 6),
        clause!("det_laws2", EP_DET, d2::g_two, det2),
        clause!("det_laws3", EP_DET, d3::g_two, det3),
        clause!("det_laws4", EP_DET, d4::g_two, det4),
        clause!("history2", EP_HIST, d2::g_hist, hist2),
        clause!("history3", EP_HIST, d3::g_hist, hist3),
        clause!("history4", EP_HIST, d4::g_hist, hist4),
    ]
}

/// Integer matrices (entries in [-9,9], generic or singular by construction)
/// times a power of two 2^k on the native f32 / f64 types.  Every quantity of
/// the statement (entries, determinant, inverse) is exactly representable --
/// the determinant down into the subnormal range -- and
/// the determinant is known exactly from an i128 Leibniz model, so
/// "None exactly when the determinant is zero" is decided without tolerance;
/// the inverse is judged by the double-double residuals of M*N and N*M against
/// 1024 eps * sum_k |m_rk||n_kc| (the cofactor formula stays below 4 eps).
pub fn native_scaled(cfg: &cgv_core::fw::RunCfg, extra: &mut cgv_core::fw::Extra) {
    use cgmath::BaseFloat;
    use cgv_core::acc::Acc;
    use cgv_core::dd;
    use serde_json::json;
    fn idet(m: &[[i128; 4]; 4], n: usize) -> (i128, i128) {
        let mut d = 0i128;
        let mut abs = 0i128;
        for (p, sg) in perms(n) {
            let mut t = 1i128;
            for c in 0..n {
                t *= m[c][p[c]];
            }
            d += sg as i128 * t;
            abs += t.abs();
        }
        (d, abs)
    }
    /// exact 2^e as f64, subnormal range included (powi goes through 1/2^|e| and flushes to 0)
    fn pow2(e: i32) -> f64 {
        if e >= -1022 {
            f64::from_bits(((e + 1023) as u64) << 52)
        } else if e >= -1074 {
            f64::from_bits(1u64 << (e + 1074))
        } else {
            0.0
        }
    }
    fn run<T: BaseFloat>(tag: &str, mi: &[[i128; 4]; 4], n: usize, k: i32, eps: f64, acc: &mut Acc, inputs: &dyn Fn() -> serde_json::Value) {
        let sc = pow2(k);
        let f = |x: i128| T::from(x as f64 * sc).unwrap();
        let g = |x: T| x.to_f64().unwrap();
        let (d, dabs) = idet(mi, n);
        let want_det = d as f64 * pow2(k * n as i32);
        let (det, inv): (f64, Option<Vec<Vec<f64>>>) = match n {
            2 => {
                let m = Matrix2::new(f(mi[0][0]), f(mi[0][1]), f(mi[1][0]), f(mi[1][1]));
                (g(m.determinant()), m.invert().map(|i| (0..2).map(|c| (0..2).map(|r| g(i[c][r])).collect()).collect()))
            }
            3 => {
                let m = Matrix3::new(
                    f(mi[0][0]), f(mi[0][1]), f(mi[0][2]), f(mi[1][0]), f(mi[1][1]), f(mi[1][2]), f(mi[2][0]), f(mi[2][1]), f(mi[2][2]),
                );
                (g(m.determinant()), m.invert().map(|i| (0..3).map(|c| (0..3).map(|r| g(i[c][r])).collect()).collect()))
            }
            _ => {
                let m = Matrix4::new(
                    f(mi[0][0]), f(mi[0][1]), f(mi[0][2]), f(mi[0][3]), f(mi[1][0]), f(mi[1][1]), f(mi[1][2]), f(mi[1][3]),
                    f(mi[2][0]), f(mi[2][1]), f(mi[2][2]), f(mi[2][3]), f(mi[3][0]), f(mi[3][1]), f(mi[3][2]), f(mi[3][3]),
                );
                (g(m.determinant()), m.invert().map(|i| (0..4).map(|c| (0..4).map(|r| g(i[c][r])).collect()).collect()))
            }
        };
        acc.check(
            &format!("{tag} {n}x{n} determinant of (integer matrix)*2^{k}"),
            det,
            want_det,
            64.0 * eps * dabs as f64 * pow2(k * n as i32),
            inputs,
        );
        acc.truth(
            &format!("{tag} {n}x{n} scale 2^{k}: exact determinant {d}*2^{} but invert() is {}", k * n as i32, if inv.is_some() { "Some" } else { "None" }),
            inv.is_some() == (d != 0),
            inputs,
        );
        if let Some(nv) = inv {
            for c in 0..n {
                for r in 0..n {
                    // (M*N)[c][r] = sum_k M[k][r] N[c][k];  (N*M)[c][r] = sum_k N[k][r] M[c][k]
                    let mrow: Vec<f64> = (0..n).map(|kk| mi[kk][r] as f64 * sc).collect();
                    let ncol: Vec<f64> = (0..n).map(|kk| nv[c][kk]).collect();
                    let (v1, c1) = dd::dot(&mrow, &ncol);
                    let nrow: Vec<f64> = (0..n).map(|kk| nv[kk][r]).collect();
                    let mcol: Vec<f64> = (0..n).map(|kk| mi[c][kk] as f64 * sc).collect();
                    let (v2, c2) = dd::dot(&nrow, &mcol);
                    let id = if c == r { 1.0 } else { 0.0 };
                    acc.check(&format!("{tag} {n}x{n} scale 2^{k}: (M*N)[{c}][{r}]"), v1, id, 1024.0 * eps * c1.max(1.0), inputs);
                    acc.check(&format!("{tag} {n}x{n} scale 2^{k}: (N*M)[{c}][{r}]"), v2, id, 1024.0 * eps * c2.max(1.0), inputs);
                }
            }
        }
    }
    let cases = if cfg.tier == Tier::Quick { 3000 } else { 200_000 };
    let mut acc = Acc::new("c02_scaled_integer_matrices");
    for i in 0..cases {
        let mut rng = Rng::for_case(cfg.seed, "native_scaled", i);
        let n = 2 + rng.below(3) as usize;
        let mut m = [[0i128; 4]; 4];
        for c in 0..n {
            for r in 0..n {
                m[c][r] = rng.range(-9, 9) as i128;
            }
        }
        let singular = rng.chance(1, 4);
        if singular {
            // last column an integer combination of the others, random position
            let tgt = rng.below(n as u64) as usize;
            let coef: Vec<i128> = (0..n).map(|_| rng.range(-2, 2) as i128).collect();
            for r in 0..n {
                m[tgt][r] = (0..n).filter(|&c| c != tgt).map(|c| coef[c] * m[c][r]).sum();
            }
            if rng.bool() {
                let t = m;
                for c in 0..n {
                    for r in 0..n {
                        m[c][r] = t[r][c];
                    }
                }
            }
        }
        // per-type scale windows: upwards as far as the determinant and the cofactors stay finite,
        // downwards as far as the determinant d*2^(n k) is still *exactly* representable, i.e. well
        // into the subnormal range ("tiny but non-zero" determinants: every operation on these
        // power-of-two multiples of small integers is exact there, so reduced precision cannot
        // blur the verdict).  One case in three is drawn from the lowest tenth of the window.
        let (lo64, lo32) = (-(1070 / n as i64), -(148 / n as i64));
        let low = rng.chance(1, 3);
        let k64 = if low { rng.range(lo64, lo64 + 25) } else { rng.range(lo64, 200) } as i32;
        let k32 = if low { rng.range(lo32, lo32 + 6) } else { rng.range(lo32, 24) } as i32;
        acc.case(if singular { "singular by construction" } else { "generic" });
        let mm: Vec<Vec<i64>> = (0..n).map(|c| (0..n).map(|r| m[c][r] as i64).collect()).collect();
        let in64 = || json!({"n": n, "integer_matrix_columns": mm, "scale_log2": k64, "type": "f64", "index": i});
        let in32 = || json!({"n": n, "integer_matrix_columns": mm, "scale_log2": k32, "type": "f32", "index": i});
        match cgv_core::fw::catch(|| {
            let mut local = Acc::new("c02_scaled_integer_matrices");
            run::<f64>("f64", &m, n, k64, f64::EPSILON, &mut local, &in64);
            run::<f32>("f32", &m, n, k32, f32::EPSILON as f64, &mut local, &in32);
            local
        }) {
            Ok(l) => {
                acc.checks += l.checks;
                acc.worst = acc.worst.max(l.worst);
                if acc.fail.is_none() {
                    acc.fail = l.fail;
                }
            }
            Err(p) => acc.truth(&format!("unexpected panic: {p}"), false, &in64),
        }
        if acc.failed() {
            break;
        }
    }
    acc.finish(extra, "i128 Leibniz determinant (exact); double-double residuals of M*N and N*M, allowance 1024 eps * sum_k |m||n|");
}

/// swap_rows / swap_columns / swap_elements / replace_col / transpose_self on the
/// native types with entries spread over hundreds of binary orders of magnitude
/// (and +-inf, MAX, MIN_POSITIVE): "exchange exactly the named elements" means
/// bit for bit, whatever their size.
pub fn native_moves(cfg: &cgv_core::fw::RunCfg, extra: &mut cgv_core::fw::Extra) {
    use serde_json::json;
    let rounds = if cfg.tier == Tier::Quick { 40 } else { 4000 };
    let mut checks = 0u64;
    let mut fail: Option<(String, serde_json::Value)> = None;
    macro_rules! moves {
        ($T:ty, $M:ident, $n:expr, $nn:expr, $rng:expr, $span:expr) => {{
            const N: usize = $n;
            let mut f = [0 as $T; $nn];
            for (i, x) in f.iter_mut().enumerate() {
                let e = $rng.range(-$span, $span) as i32;
                *x = (($rng.range(1, 4095) as $T) * (2.0 as $T).powi(e)) * if $rng.bool() { -1.0 } else { 1.0 };
                if $rng.chance(1, 12) {
                    *x = [<$T>::INFINITY, <$T>::NEG_INFINITY, <$T>::MAX, <$T>::MIN_POSITIVE, 0.0, -0.0][i % 6];
                }
            }
            let m0: $M<$T> = *<&$M<$T>>::from(&f);
            let bits = |m: &$M<$T>| -> Vec<u64> {
                let r: &[$T; $nn] = m.as_ref();
                r.iter().map(|x| x.to_bits() as u64).collect()
            };
            let fb = |a: &[$T; $nn]| -> Vec<u64> { a.iter().map(|x| x.to_bits() as u64).collect() };
            let mut note = |what: &str, got: Vec<u64>, want: Vec<u64>| {
                checks += 1;
                if got != want && fail.is_none() {
                    fail = Some((
                        format!("{}<{}>::{what}: components changed or misplaced (compared bit for bit)", stringify!($M), stringify!($T)),
                        json!({"matrix_flat_column_major": f.iter().map(|x| format!("{x:e}")).collect::<Vec<_>>(), "got_bits": got, "want_bits": want}),
                    ));
                }
            };
            for a in 0..$nn {
                for b in 0..$nn {
                    let mut w = m0;
                    w.swap_elements((a / N, a % N), (b / N, b % N));
                    let mut e = f;
                    e.swap(a, b);
                    note("swap_elements", bits(&w), fb(&e));
                }
            }
            for a in 0..N {
                for b in 0..N {
                    let mut w = m0;
                    w.swap_columns(a, b);
                    let mut e = f;
                    for r in 0..N {
                        e.swap(a * N + r, b * N + r);
                    }
                    note("swap_columns", bits(&w), fb(&e));
                    let mut w = m0;
                    w.swap_rows(a, b);
                    let mut e = f;
                    for c in 0..N {
                        e.swap(c * N + a, c * N + b);
                    }
                    note("swap_rows", bits(&w), fb(&e));
                }
            }
            let mut e = f;
            for c in 0..N {
                for r in 0..N {
                    e[c * N + r] = f[r * N + c];
                }
            }
            let mut w = m0;
            w.transpose_self();
            note("transpose_self", bits(&w), fb(&e));
            note("transpose", bits(&m0.transpose()), fb(&e));
            for c in 0..N {
                let mut w = m0;
                let newc = m0[(c + 1) % N];
                let old = w.replace_col(c, newc);
                let mut e = f;
                for r in 0..N {
                    e[c * N + r] = f[((c + 1) % N) * N + r];
                }
                note("replace_col (installed)", bits(&w), fb(&e));
                let oc: Vec<u64> = (0..N).map(|r| old[r].to_bits() as u64).collect();
                let wc: Vec<u64> = (0..N).map(|r| f[c * N + r].to_bits() as u64).collect();
                note("replace_col (returned)", oc, wc);
            }
        }};
    }
    for i in 0..rounds {
        let mut rng = Rng::for_case(cfg.seed, "c02_native_moves", i);
        moves!(f64, Matrix2, 2, 4, rng, 500);
        moves!(f64, Matrix3, 3, 9, rng, 500);
        moves!(f64, Matrix4, 4, 16, rng, 500);
        moves!(f32, Matrix2, 2, 4, rng, 55);
        moves!(f32, Matrix3, 3, 9, rng, 55);
        moves!(f32, Matrix4, 4, 16, rng, 55);
        if fail.is_some() {
            break;
        }
    }
    extra.evaluations += checks;
    extra.sections.insert(
        "native_exchanges_bitwise".into(),
        json!({"matrices": rounds * 6, "comparisons": checks, "entries": "m * 2^e, |e| <= 500 (f64) / 55 (f32), one in twelve a special value (+-inf, MAX, MIN_POSITIVE, +-0)", "oracle": "bit equality with the permuted flat array"}),
    );
    if let Some((msg, payload)) = fail {
        extra.violations.push(("native_exchanges".into(), msg, payload));
    }
}

pub fn native(cfg: &cgv_core::fw::RunCfg, extra: &mut cgv_core::fw::Extra) {
    cgv_core::twins::c02(cfg, extra);
    native_scaled(cfg, extra);
    native_moves(cfg, extra);
}

pub const RULE: &str = "square matrices of small rationals in three families decided by the generator: class 0 generic, class 1 exactly singular by construction (one column an integer combination of the others, sometimes rank n-2, random column order and transposition), class 2 the same with one entry perturbed by +-10^-9..10^-12 (tiny determinant, exact in Q), class 4 matrices whose columns are all rational unit vectors from an exact rotation with one column sheared towards another (orthonormal-looking but not orthogonal), class 5 matrices of the kind the crate's own constructors produce (identity, scale, translation, scale+translation, exact rotation with or without translation, projection-shaped, singular scale), class 3 a generic matrix scaled by 2^-8..2^-24 (determinant down to 2^-96, far below machine epsilon, exactly non-zero); mutation histories are 1-8 random swap_rows/swap_columns/swap_elements/replace_col/transpose_self steps with all index pairs including equal ones; non-trivial = all entries non-zero and pairwise distinct (class 0) or any constructed singular/near-singular matrix; distinct = distinct input tuples per clause.";
pub const ASSUME: &[&str] = &[
    "exact rational arithmetic in i128; a case that overflows i128 is re-run with intervals or counted inconclusive, never judged",
    "undefined behaviour of the unsafe helpers is judged by the Miri workload (thorough tier here, quick tier under C16), not by the value monitors",
];
