//! C14 — lerp, nlerp, slerp (DESIGN §C14).

use cgmath::prelude::*;
use cgmath::{Matrix2, Matrix3, Matrix4, Quaternion, Vector1, Vector2, Vector3, Vector4};
use num_traits::Float;

use cgv_core::conv::*;
use cgv_core::fw::{Case, Clause};
use cgv_core::gen::{self, Rng, Tier};
use cgv_core::iv::Tri;
use cgv_core::model::*;
use cgv_core::sc::{Ck, Rat, Sc};
use cgv_core::{clause, clause_iv};

// ---------------------------------------------------------------- lerp (exact)

fn g_lerp(rng: &mut Rng, tier: Tier) -> Case {
    let mut c = Case::new();
    let (a, ta) = gen::rats(rng, tier, 16);
    let (b, tb) = gen::rats(rng, tier, 16);
    c.push_r(&a).push_r(&b);
    let t = match rng.below(6) {
        0 => Rat::int(0),
        1 => Rat::int(1),
        2 => Rat::new(1, 2),
        _ => gen::small_rat(rng, tier), // extrapolation included
    };
    c.push_r(&[t]);
    c.nontrivial = ta && tb && !t.is_zero() && t != Rat::int(1);
    c
}
fn lerp_body<S: Sc>(case: &Case, ck: &mut Ck<S>) {
    let mut rd = case.rd();
    let a: [S; 16] = rd.arr();
    let b: [S; 16] = rd.arr();
    let t: S = rd.s();
    let e: Vec<S> = (0..16).map(|i| a[i] + (b[i] - a[i]) * t).collect();
    let sl = |v: &[S], n: usize| -> Vec<S> { v[..n].to_vec() };
    macro_rules! vecs {
        ($T:ident, $n:expr, $mk:ident, $arr:ident, $tag:expr) => {{
            let mut x = [S::i(0); $n];
            let mut y = [S::i(0); $n];
            let mut z = [S::i(0); $n];
            x.copy_from_slice(&sl(&a, $n));
            y.copy_from_slice(&sl(&b, $n));
            z.copy_from_slice(&sl(&e, $n));
            ck.eqv(concat!($tag, "::lerp = a + (b-a)t"), $arr($mk(x).lerp($mk(y), t)), z);
            ck.eqv(concat!($tag, "::lerp(.., 0) = a"), $arr($mk(x).lerp($mk(y), S::i(0))), x);
            ck.eqv(concat!($tag, "::lerp(.., 1) = b"), $arr($mk(x).lerp($mk(y), S::i(1))), y);
        }};
    }
    vecs!(Vector1, 1, mk_v1, v1, "Vector1");
    vecs!(Vector2, 2, mk_v2, v2, "Vector2");
    vecs!(Vector3, 3, mk_v3, v3, "Vector3");
    vecs!(Vector4, 4, mk_v4, v4, "Vector4");
    vecs!(Quaternion, 4, mk_qt, qt, "Quaternion");
    macro_rules! mats {
        ($n:expr, $mk:ident, $arr:ident, $tag:expr) => {{
            let mut x = [[S::i(0); $n]; $n];
            let mut y = [[S::i(0); $n]; $n];
            let mut z = [[S::i(0); $n]; $n];
            for c in 0..$n {
                for r in 0..$n {
                    x[c][r] = a[c * $n + r];
                    y[c][r] = b[c * $n + r];
                    z[c][r] = e[c * $n + r];
                }
            }
            ck.eqm(concat!($tag, "::lerp = a + (b-a)t"), $arr($mk(x).lerp($mk(y), t)), z);
            ck.eqm(concat!($tag, "::lerp(.., 0) = a"), $arr($mk(x).lerp($mk(y), S::i(0))), x);
            ck.eqm(concat!($tag, "::lerp(.., 1) = b"), $arr($mk(x).lerp($mk(y), S::i(1))), y);
        }};
    }
    mats!(2, mk_m2, m2, "Matrix2");
    mats!(3, mk_m3, m3, "Matrix3");
    mats!(4, mk_m4, m4, "Matrix4");
    let _: Option<(Vector1<S>, Vector2<S>, Vector3<S>, Vector4<S>, Matrix2<S>, Matrix3<S>, Matrix4<S>)> = None;
}

// ---------------------------------------------------------------- nlerp / slerp

/// inputs: a (unit rational quaternion), axis (unit rational 3-vector), w = Re(g) = |a.b|, sign, t
/// classes: 0 generic, 1 ladder around 0.9995, 2 near +-1 / 0
fn g_sl(rng: &mut Rng, tier: Tier) -> Case {
    let mut c = Case::new();
    c.push_r(&gen::unit_quat(rng, tier));
    c.push_r(&gen::unit_vec3(rng, tier));
    let class = match rng.below(10) {
        0..=4 => 0,
        5..=7 => 1,
        _ => 2,
    };
    c.class = class;
    let w = match class {
        0 => rng.dyadic(0.0, 0.999),
        1 => {
            let k = rng.range(1, 9) as i32;
            let r = rng.uniform(1.0, 9.9);
            let side = if rng.bool() { 1.0 } else { -1.0 };
            (0.9995 + side * 0.0004 * r * 10f64.powi(1 - k)).min(1.0)
        }
        _ => match rng.below(5) {
            0 => 1.0,
            1 => 1.0 - 10f64.powi(-(rng.range(3, 14) as i32)),
            2 => 0.0,
            3 => 10f64.powi(-(rng.range(3, 14) as i32)),
            _ => 0.5,
        },
    };
    let neg = rng.bool();
    let t = match rng.below(8) {
        0 => 0.0,
        1 => 1.0,
        2 => 0.5,
        _ => rng.dyadic(0.0, 1.0),
    };
    c.push_f(&[w, t]);
    c.push_k(&[neg as i64]);
    c.nontrivial = w > 0.0 && w < 1.0 && t > 0.0 && t < 1.0;
    c
}

fn norm<S: Sc>(q: Qt<S>) -> S {
    Float::sqrt(q[0].sq() + q[1].sq() + q[2].sq() + q[3].sq())
}
/// angle between unit quaternions, well conditioned everywhere: 2 atan2(|p-q|, |p+q|)
fn ang<S: Sc>(p: Qt<S>, q: Qt<S>) -> S {
    Float::atan2(norm(vsub(p, q)), norm(vadd(p, q))) * S::i(2)
}

fn interp<S: Sc>(case: &Case, ck: &mut Ck<S>, slerp: bool) {
    let mut rd = case.rd();
    let a: Qt<S> = rd.arr();
    let axis: V<S, 3> = rd.arr();
    let w: S = rd.x();
    let t: S = rd.x();
    let neg = rd.k() == 1;
    let one = S::i(1);
    // g = (w, sqrt(1-w^2) axis); b = +-(a*g), so that a.b = +-w exactly over the reals
    let sv = Float::sqrt(one - w.sq());
    let g = [w, axis[0] * sv, axis[1] * sv, axis[2] * sv];
    let ag = qmul(a, g);
    let b = if neg { vneg(ag) } else { ag };
    // shorter-arc endpoint: b' = b if a.b >= 0 else -b  (a.b = +-w, and w >= 0)
    let dot = vdot(a, b);
    let bp = match S::t_le(&S::i(0), &dot) {
        Tri::True => b,
        Tri::False => vneg(b),
        Tri::Unknown => {
            // a.b indistinguishable from 0: both arcs are quarter turns of equal
            // length; nothing is demanded about which one is taken
            return ck.truth("a.b ~ 0: sign undecidable", true);
        }
    };
    let (qa, qb) = (mk_qt(a), mk_qt(b));
    let r = if slerp { qa.slerp(qb, t) } else { qa.nlerp(qb, t) };
    let ra = qt(r);
    let name = if slerp { "slerp" } else { "nlerp" };
    ck.eq(&format!("{name}: |r| = 1"), r.magnitude2(), one);
    // in the plane of a and b: Gram determinant of (a, b, r) vanishes
    let gram: M<S, 3> = [
        [vdot(a, a), vdot(a, b), vdot(a, ra)],
        [vdot(b, a), vdot(b, b), vdot(b, ra)],
        [vdot(ra, a), vdot(ra, b), vdot(ra, ra)],
    ];
    ck.eq(&format!("{name}: r in span(a,b) (Gram determinant)"), det(gram), S::i(0));
    // on the shorter arc: no farther from either end than the ends are from each other
    let theta = ang(a, bp);
    let to_a = ang(a, ra);
    let to_b = ang(ra, bp);
    let slack = S::frac(1, 100_000_000); // 1e-8 rad: far below the 1e-5 the property grants
    ck.le(&format!("{name}: ang(a,r) <= ang(a,b')"), to_a, theta + slack);
    ck.le(&format!("{name}: ang(r,b') <= ang(a,b')"), to_b, theta + slack);
    // endpoints
    if S::t_eq(&t, &S::i(0)) == Tri::True {
        ck.eqv(&format!("{name}: r(0) = a"), ra, a);
    }
    if S::t_eq(&t, &one) == Tri::True {
        ck.eqv(&format!("{name}: r(1) = b'"), ra, bp);
    }
    if slerp {
        // constant angular speed: exact for |a.b| <= 0.9995, within 1e-5 rad above
        let thr = S::f(0.9995);
        match S::t_le(&Float::abs(dot), &thr) {
            Tri::True => ck.eq("slerp: ang(a,r) = t ang(a,b')", to_a, t * theta),
            _ => ck.within("slerp: |ang(a,r) - t ang(a,b')| <= 1e-5", to_a, t * theta, S::frac(1, 100_000)),
        }
    } else {
        // nlerp is the normalised chord point: r parallel to (1-t) a + t b'
        let chord = vadd(vscale(a, one - t), vscale(bp, t));
        for i in 0..4 {
            for j in 0..i {
                ck.eq("nlerp: r parallel to (1-t)a + t b'", ra[i] * chord[j], ra[j] * chord[i]);
            }
        }
        ck.le("nlerp: r . chord >= 0", S::i(0), vdot(ra, chord));
    }
    ck.note("a.b", &dot);
    ck.note("r", &r);
}
fn slerp_body<S: Sc>(case: &Case, ck: &mut Ck<S>) {
    interp(case, ck, true)
}
fn nlerp_body<S: Sc>(case: &Case, ck: &mut Ck<S>) {
    interp(case, ck, false)
}

const EP_L: &[&str] = &["VectorSpace::lerp (Vector1-4, Quaternion, Matrix2-4)"];
const EP_S: &[&str] = &["Quaternion::slerp", "Quaternion::nlerp"];

pub fn clauses() -> Vec<Clause> {
    vec![
        clause!("lerp", EP_L, g_lerp, lerp_body),
        clause_iv!("slerp", EP_S, g_sl, slerp_body, weight = 2.0, classes = 3),
        clause_iv!("nlerp", EP_S, g_sl, nlerp_body, weight = 1.0, classes = 3),
    ]
}

/// lerp spelled with method syntax on the concrete type and through the trait
/// (`VectorSpace::lerp(a, b, t)`), on f32 and f64 vectors, quaternions and matrices, for amounts
/// inside and outside [0,1]: both spellings give the same bits and the value a + (b - a) t.
pub fn native_lerp_spellings(cfg: &cgv_core::fw::RunCfg, extra: &mut cgv_core::fw::Extra) {
    use cgmath::{Matrix2, Matrix3, Matrix4, Vector1, Vector2, Vector3, Vector4, VectorSpace};
    use cgv_core::acc::Acc;
    use cgv_core::bits::Bits;
    use serde_json::json;
    let n = if cfg.tier == Tier::Quick { 1500 } else { 100_000 };
    let mut acc = Acc::new("c14_lerp_method_vs_trait");
    for i in 0..n {
        let mut rng = Rng::for_case(cfg.seed, "c14_native_lerp", i);
        let ra: [f64; 16] = std::array::from_fn(|_| rng.uniform(-4.0, 4.0));
        let rb: [f64; 16] = std::array::from_fn(|_| rng.uniform(-4.0, 4.0));
        let t = match rng.below(8) {
            0 => 0.0,
            1 => 1.0,
            2 => rng.pick(&[1.5, -0.5, 2.0, -1.0, 3.0]),
            3 => rng.uniform(-2.0, 3.0),
            _ => rng.uniform(0.0, 1.0),
        };
        let inputs = || json!({"a": ra, "b": rb, "t": t, "index": i});
        acc.case(if (0.0..=1.0).contains(&t) { "amount in [0,1]" } else { "amount outside [0,1]" });
        macro_rules! one {
            ($T:ty, $name:expr, $mk:expr) => {{
                let mk = $mk;
                let (a, b) = (mk(&ra), mk(&rb));
                let tt = t as $T;
                let tag = concat!($name, "<", stringify!($T), ">");
                let m = a.lerp(b, tt);
                let tr = VectorSpace::lerp(a, b, tt);
                acc.truth(&format!("{tag}: a.lerp(b, t) differs from VectorSpace::lerp(a, b, t)"), m.bits() == tr.bits(), &inputs);
                let want = a + (b - a) * tt;
                let (mb, wb) = (m.bits(), want.bits());
                for (k, (x, y)) in mb.iter().zip(wb.iter()).enumerate() {
                    let (x, y) = (<$T>::from_bits(*x as _) as f64, <$T>::from_bits(*y as _) as f64);
                    acc.check(&format!("{tag}: lerp(a, b, {t}) component {k} vs a + (b - a) t"), x, y, 16.0 * (<$T>::EPSILON as f64) * (8.0 + 8.0 * t.abs()), &inputs);
                }
            }};
        }
        macro_rules! both {
            ($T:ty) => {{
                one!($T, "Vector1", |r: &[f64; 16]| Vector1::new(r[0] as $T));
                one!($T, "Vector2", |r: &[f64; 16]| Vector2::new(r[0] as $T, r[1] as $T));
                one!($T, "Vector3", |r: &[f64; 16]| Vector3::new(r[0] as $T, r[1] as $T, r[2] as $T));
                one!($T, "Vector4", |r: &[f64; 16]| Vector4::new(r[0] as $T, r[1] as $T, r[2] as $T, r[3] as $T));
                one!($T, "Quaternion", |r: &[f64; 16]| Quaternion::new(r[0] as $T, r[1] as $T, r[2] as $T, r[3] as $T));
                one!($T, "Matrix2", |r: &[f64; 16]| Matrix2::new(r[0] as $T, r[1] as $T, r[2] as $T, r[3] as $T));
                one!($T, "Matrix3", |r: &[f64; 16]| Matrix3::new(r[0] as $T, r[1] as $T, r[2] as $T, r[3] as $T, r[4] as $T, r[5] as $T, r[6] as $T, r[7] as $T, r[8] as $T));
                one!($T, "Matrix4", |r: &[f64; 16]| Matrix4::new(
                    r[0] as $T, r[1] as $T, r[2] as $T, r[3] as $T, r[4] as $T, r[5] as $T, r[6] as $T, r[7] as $T,
                    r[8] as $T, r[9] as $T, r[10] as $T, r[11] as $T, r[12] as $T, r[13] as $T, r[14] as $T, r[15] as $T));
            }};
        }
        both!(f32);
        both!(f64);
        if acc.failed() {
            break;
        }
    }
    acc.finish(extra, "bit equality of a.lerp(b,t) and VectorSpace::lerp(a,b,t) on concrete types; value a + (b - a) t within 16 eps of the operand scale");
}

pub fn native_all(cfg: &cgv_core::fw::RunCfg, extra: &mut cgv_core::fw::Extra) {
    native(cfg, extra);
    native_lerp_spellings(cfg, extra);
}

pub const RULE: &str = "lerp: 16 + 16 small rationals reused as Vector1-4, Quaternion and Matrix2-4 operands, amount t in {0,1,1/2} or a small rational (extrapolation included). nlerp/slerp: a = exact rational unit quaternion, b = +-(a*g) with g = (w, sqrt(1-w^2)*axis) so that a.b = +-w; class 0 w uniform in [0,0.999], class 1 ladder 0.9995 +- r*4*10^-4..-12 on both sides of the slerp threshold, class 2 w in {1, 1-10^-k, 0, 10^-k, 0.5}; t in {0,1,0.5} or uniform on a 2^-20 grid. Non-trivial = 0<w<1 and 0<t<1; distinct = distinct input tuples.";
pub const ASSUME: &[&str] = &[
    "enclosure arithmetic as in C06; arc angles are measured with 2*atan2(|p-q|,|p+q|), which is well conditioned for all pairs of unit quaternions",
    "for a.b indistinguishable from 0 the choice between the two equally long arcs is not judged",
    "a slack of 1e-8 rad is granted on the 'between the endpoints' inequalities (the property itself grants 1e-5 to slerp near parallel inputs)",
];


// ---------------------------------------------------------------- native f64 / f32: endpoints at every separation

/// The interval engine cannot follow pairs closer than a few ulps (the code's
/// own comparisons become ambiguous there), so the end-point and unit-length
/// clauses are also monitored on the real types for arcs log-uniform between
/// 1e-12 rad and pi: r(0) = a and r(1) = +-b within 1e-12 (f64) / 1e-5 (f32),
/// |r| = 1 within the same bound, for nlerp and slerp.
pub fn native(cfg: &cgv_core::fw::RunCfg, extra: &mut cgv_core::fw::Extra) {
    use cgmath::{Rad, Rotation3, Vector3};
    use serde_json::json;
    let n = if cfg.tier == Tier::Quick { 4000 } else { 300_000 };
    let mut evals = 0u64;
    let mut seen = std::collections::HashSet::new();
    let mut worst = [0f64; 2];
    macro_rules! run {
        ($T:ty, $tag:expr, $tol:expr, $slot:expr, $min_exp:expr) => {{
            for i in 0..n {
                let mut rng = Rng::for_case(cfg.seed, concat!("c14_native_", $tag), i);
                let a = Quaternion::new(rng.uniform(-1.0, 1.0), rng.uniform(-1.0, 1.0), rng.uniform(-1.0, 1.0), rng.uniform(-1.0, 1.0));
                let ax = Vector3::new(rng.uniform(-1.0, 1.0), rng.uniform(-1.0, 1.0), rng.uniform(-1.0, 1.0));
                if a.magnitude2() < 0.01 || ax.magnitude2() < 0.01 {
                    continue;
                }
                let a: Quaternion<$T> = a.normalize().cast().unwrap();
                let a = a.normalize();
                let ax: Vector3<$T> = ax.normalize().cast().unwrap();
                // arc between a and b on the 3-sphere = half the rotation angle of g
                // one case in four: nearly orthogonal pairs, a.b = +-10^-k (acos is at its best there,
                // asin / sqrt(1 - dot^2) forms at their worst)
                let arc = if rng.chance(1, 4) {
                    std::f64::consts::FRAC_PI_2 + 10f64.powi(-(rng.range(1, 12) as i32)) * if rng.bool() { 1.0 } else { -1.0 }
                } else {
                    10f64.powf(rng.uniform($min_exp, 0.49))
                };
                let g = Quaternion::from_axis_angle(ax.normalize(), Rad((2.0 * arc) as $T));
                let b = (a * g).normalize();
                let b = if rng.bool() { -b } else { b };
                let bp = if a.dot(b) < 0.0 { -b } else { b };
                evals += 1;
                seen.insert(arc.to_bits());
                let r = cgv_core::fw::catch(|| {
                    let mut w = 0f64;
                    let d = |p: Quaternion<$T>, q: Quaternion<$T>| (p - q).magnitude() as f64;
                    for slerp in [false, true] {
                        // every call is preceded by a decoy call with the same target and amount but a
                        // different start: a result must not depend on what was interpolated before
                        let decoy = (Quaternion::new(0.6 as $T, 0.48 as $T, 0.64 as $T, 0.0 as $T) * a).normalize();
                        let f = |t: $T| {
                            let _ = if slerp { decoy.slerp(b, t) } else { decoy.nlerp(b, t) };
                            if slerp { a.slerp(b, t) } else { a.nlerp(b, t) }
                        };
                        w = w.max(d(f(0.0), a)).max(d(f(1.0), bp));
                        for t in [0.0, 0.25, 0.5, 1.0] {
                            w = w.max((f(t).magnitude() as f64 - 1.0).abs());
                        }
                        // half way: equidistant from both ends
                        let h = f(0.5);
                        w = w.max((d(h, a) - d(h, bp)).abs());
                        // constant angular speed (slerp, outside the close-together fallback):
                        // the chord from a to slerp(t) is 2 sin(t * arc / 2) with arc the angle between a and +-b
                        let dot = (a.dot(bp) as f64).min(1.0);
                        if slerp && dot < 0.999 {
                            let whole = 2.0 * (d(a, bp) / 2.0).min(1.0).asin();
                            for t in [0.25, 0.5, 0.75] {
                                w = w.max((d(f(t as $T), a) - 2.0 * (t * whole / 2.0).sin()).abs());
                            }
                        }
                    }
                    w
                });
                match r {
                    Err(p) => {
                        extra.violations.push((format!("native_endpoints_{}", $tag), format!("unexpected panic: {p}"), json!({"index": i})));
                        break;
                    }
                    Ok(w) => {
                        worst[$slot] = worst[$slot].max(w);
                        if !(w <= $tol) {
                            extra.violations.push((
                                format!("native_endpoints_{}", $tag),
                                format!("nlerp/slerp end point, unit length or midpoint off by {w:e} (tolerance {:e}) for unit quaternions {arc:e} rad apart", $tol),
                                json!({"arc": arc, "a": [a.s as f64, a.v.x as f64, a.v.y as f64, a.v.z as f64], "index": i}),
                            ));
                            break;
                        }
                    }
                }
            }
        }};
    }
    run!(f64, "f64", 1e-12, 0, -12.0);
    run!(f32, "f32", 1e-5, 1, -6.0);
    extra.evaluations += evals;
    extra.distinct_nontrivial += seen.len() as u64;
    extra.samples.push(json!({"clause": "native_endpoints", "example": "a random unit, b = a*g with g a rotation by 2*arc, arc = 3e-9 rad: nlerp(a,b,1) = +-b, slerp(a,b,0) = a, |.| = 1, midpoint equidistant"}));
    extra.sections.insert(
        "native_endpoints".into(),
        json!({"cases": evals, "arcs": "log-uniform 1e-12..3 rad (f64), 1e-6..3 rad (f32), one in four pi/2 +- 10^-k (nearly orthogonal), both signs of the dot product; slerp chord at t = 1/4, 1/2, 3/4 against 2 sin(t arc / 2)",
               "worst_f64": worst[0], "tolerance_f64": 1e-12, "worst_f32": worst[1], "tolerance_f32": 1e-5}),
    );
}
