//! C08 — transforms compose, invert and convert to matrices (DESIGN §C08).

use cgmath::prelude::*;
use cgmath::{Basis2, Basis3, Decomposed, Matrix3, Matrix4, Point2, Point3, Quaternion, Vector2, Vector3};

use cgv_core::clause;
use cgv_core::conv::*;
use cgv_core::fw::{Case, Clause, Rd};
use cgv_core::gen::{self, Rng, Tier};
use cgv_core::iv::Tri;
use cgv_core::model::*;
use cgv_core::sc::{Ck, Rat, Sc};

/// scale factors: ordinary rationals, negatives, 0, and the ladder around 1e-6
fn gen_scale(rng: &mut Rng, tier: Tier) -> Rat {
    match rng.below(12) {
        0 => Rat::int(0),
        1 => {
            let k = rng.range(1, 9) as u32;
            Rat::new(if rng.bool() { 1 } else { -1 } * rng.range(1, 9), 10i64.pow(k))
        }
        2 => Rat::new(rng.pick(&[2i64, 11, 101, -2, -11]), 1_000_000), // just above 1e-6
        _ => gen::nz_rat(rng, tier),
    }
}

/// Pythagorean direction (normalises exactly)
fn gen_dir2(rng: &mut Rng) -> [Rat; 2] {
    let t = rng.pick(&[(3i64, 4i64), (5, 12), (8, 15), (7, 24), (20, 21), (4, 3), (12, 5), (1, 0), (0, 1)]);
    let k = rng.range(1, 4);
    let (sx, sy) = (if rng.bool() { 1 } else { -1 }, if rng.bool() { 1 } else { -1 });
    [Rat::int(t.0 * k * sx), Rat::int(t.1 * k * sy)]
}

fn g_dec3(rng: &mut Rng, tier: Tier) -> Case {
    let mut c = Case::new();
    let mut nt = true;
    for _ in 0..2 {
        let s = gen_scale(rng, tier);
        let q = gen::unit_quat(rng, tier);
        let d = gen::distinct_rats(rng, tier, 3);
        nt &= !s.is_zero() && s != Rat::int(1) && gen::is_nontrivial(&q);
        c.push_r(&[s]).push_r(&q).push_r(&d);
    }
    c.push_r(&gen::distinct_rats(rng, tier, 3));
    c.push_r(&gen::distinct_rats(rng, tier, 3));
    c.nontrivial = nt;
    c
}
fn g_dec2(rng: &mut Rng, tier: Tier) -> Case {
    let mut c = Case::new();
    let mut nt = true;
    for _ in 0..2 {
        let s = gen_scale(rng, tier);
        let dir = gen_dir2(rng);
        let d = gen::distinct_rats(rng, tier, 2);
        nt &= !s.is_zero() && s != Rat::int(1) && !dir[0].is_zero() && !dir[1].is_zero();
        c.push_r(&[s]).push_r(&dir).push_r(&d);
    }
    c.push_r(&gen::distinct_rats(rng, tier, 2));
    c.push_r(&gen::distinct_rats(rng, tier, 2));
    c.nontrivial = nt;
    c
}

fn rd_quat<S: Sc>(rd: &mut Rd) -> Quaternion<S> {
    mk_qt(rd.arr::<S, 4>())
}
fn rd_basis3<S: Sc>(rd: &mut Rd) -> Basis3<S> {
    Basis3::from(mk_qt(rd.arr::<S, 4>()))
}
fn rd_basis2<S: Sc>(rd: &mut Rd) -> Basis2<S> {
    Basis2::look_at_stable(mk_v2(rd.arr::<S, 2>()), false)
}

macro_rules! decomposed {
    ($name:ident, $N:expr, $P:ident, $V:ident, $R:ty, $rd_rot:ident, $mk_p:ident, $mk_v:ident, $pa:ident, $va:ident, $Mat:ident, $ma:ident, $DIM:expr) => {
        fn $name<S: Sc>(case: &Case, ck: &mut Ck<S>) {
            type D<S> = Decomposed<$V<S>, $R>;
            let mut rd = case.rd();
            let s1: S = rd.s();
            let r1 = $rd_rot::<S>(&mut rd);
            let d1: V<S, $N> = rd.arr();
            let s2: S = rd.s();
            let r2 = $rd_rot::<S>(&mut rd);
            let d2: V<S, $N> = rd.arr();
            let p: V<S, $N> = rd.arr();
            let v: V<S, $N> = rd.arr();
            let t1: D<S> = Decomposed { scale: s1, rot: r1, disp: $mk_v(d1) };
            let t2: D<S> = Decomposed { scale: s2, rot: r2, disp: $mk_v(d2) };
            let (pp, vv) = ($mk_p(p), $mk_v(v));
            // what one transform does, from the statement: rotate(scale * x) + disp
            let apply_p = |t: &D<S>, x: V<S, $N>| vadd($va(t.rot.rotate_vector($mk_v(vscale(x, t.scale)))), $va(t.disp));
            let apply_v = |t: &D<S>, x: V<S, $N>| $va(t.rot.rotate_vector($mk_v(vscale(x, t.scale))));
            ck.eqv("transform_point = R(s p) + d", $pa(t1.transform_point(pp)), apply_p(&t1, p));
            ck.eqv("transform_vector = R(s v)", $va(t1.transform_vector(vv)), apply_v(&t1, v));
            // transform_vector ignores displacement
            let t1_nodisp: D<S> = Decomposed { scale: s1, rot: r1, disp: $V::zero() };
            ck.eqv("transform_vector ignores disp", $va(t1.transform_vector(vv)), $va(t1_nodisp.transform_vector(vv)));
            // composition
            let c = t1.concat(&t2);
            ck.eqv("concat(s,t)(p) = s(t(p))", $pa(c.transform_point(pp)), $pa(t1.transform_point(t2.transform_point(pp))));
            ck.eqv("concat(s,t)(v) = s(t(v))", $va(c.transform_vector(vv)), $va(t1.transform_vector(t2.transform_vector(vv))));
            let m = t1 * t2;
            ck.eqv("(s*t)(p) = s(t(p))", $pa(m.transform_point(pp)), $pa(t1.transform_point(t2.transform_point(pp))));
            ck.eqv("(s*t)(v) = s(t(v))", $va(m.transform_vector(vv)), $va(t1.transform_vector(t2.transform_vector(vv))));
            let mut cs = t1;
            cs.concat_self(&t2);
            ck.eqv("concat_self(p)", $pa(cs.transform_point(pp)), $pa(t1.transform_point(t2.transform_point(pp))));
            ck.eq("concat scale", c.scale, s1 * s2);
            // a transform composed with itself, both arguments being the very same object
            let sq = t1.concat(&t1);
            ck.eqv("t.concat(&t)(p) = t(t(p))", $pa(sq.transform_point(pp)), $pa(t1.transform_point(t1.transform_point(pp))));
            ck.eqv("t.concat(&t)(v) = t(t(v))", $va(sq.transform_vector(vv)), $va(t1.transform_vector(t1.transform_vector(vv))));
            let sq = t1 * t1;
            ck.eqv("(t*t)(p) = t(t(p))", $pa(sq.transform_point(pp)), $pa(t1.transform_point(t1.transform_point(pp))));
            // identity
            let one: D<S> = One::one();
            ck.eqv("one()(p) = p", $pa(one.transform_point(pp)), p);
            ck.eqv("one()(v) = v", $va(one.transform_vector(vv)), v);
            ck.eqv("concat(one,t)(p)", $pa(one.concat(&t1).transform_point(pp)), $pa(t1.transform_point(pp)));
            ck.eqv("concat(t,one)(p)", $pa(t1.concat(&one).transform_point(pp)), $pa(t1.transform_point(pp)));
            // inverse
            let inv = t1.inverse_transform();
            let invv = t1.inverse_transform_vector(vv);
            let zero_scale = S::t_eq(&s1, &S::i(0));
            let big = S::t_lt(&S::frac(1, 1_000_000), &num_traits::Float::abs(s1));
            if zero_scale == Tri::True {
                ck.truth("inverse_transform is None for scale 0", inv.is_none());
                ck.truth("inverse_transform_vector is None for scale 0", invv.is_none());
            }
            if big == Tri::True {
                ck.truth("inverse_transform is Some for |scale| > 1e-6", inv.is_some());
                ck.truth("inverse_transform_vector is Some for |scale| > 1e-6", invv.is_some());
                if let (Some(i), Some(iv)) = (inv, invv) {
                    ck.eqv("inv(t(p)) = p", $pa(i.transform_point(t1.transform_point(pp))), p);
                    ck.eqv("t(inv(p)) = p", $pa(t1.transform_point(i.transform_point(pp))), p);
                    ck.eqv("inv(t(v)) = v", $va(i.transform_vector(t1.transform_vector(vv))), v);
                    ck.eqv("inverse_transform_vector agrees", $va(iv), $va(i.transform_vector(vv)));
                    ck.eqv("concat(t,inv) = identity on p", $pa(t1.concat(&i).transform_point(pp)), p);
                    // matrix of the inverse is the inverse matrix
                    let mi: $Mat<S> = i.into();
                    let mt: $Mat<S> = t1.into();
                    ck.eqm("M(inv t) * M(t) = I", $ma(mi * mt), mident());
                    if let Some(mtinv) = mt.invert() {
                        ck.eqm("M(inv t) = M(t)^-1", $ma(mi), $ma(mtinv));
                    } else {
                        ck.truth("M(t) invertible when scale != 0", false);
                    }
                }
            }
            // conversion to a matrix commutes with apply and concat
            let m1: $Mat<S> = t1.into();
            let m2: $Mat<S> = t2.into();
            let mc: $Mat<S> = c.into();
            ck.eqv(
                "M(t) p = t(p)",
                $pa(Transform::<$P<S>>::transform_point(&m1, pp)),
                $pa(t1.transform_point(pp)),
            );
            ck.eqv(
                "M(t) v = t(v)",
                $va(Transform::<$P<S>>::transform_vector(&m1, vv)),
                $va(t1.transform_vector(vv)),
            );
            ck.eqm("M(concat(s,t)) = M(s) M(t)", $ma(mc), $ma(m1 * m2));
            // last row of the homogeneous matrix
            let mm = $ma(m1);
            for c in 0..$DIM - 1 {
                ck.eq("bottom row 0", mm[c][$DIM - 1], S::i(0));
            }
            ck.eq("bottom right 1", mm[$DIM - 1][$DIM - 1], S::i(1));
            ck.note("t1", &t1);
        }
    };
}

decomposed!(dec3_quat, 3, Point3, Vector3, Quaternion<S>, rd_quat, mk_p3, mk_v3, p3, v3, Matrix4, m4, 4);
decomposed!(dec3_basis, 3, Point3, Vector3, Basis3<S>, rd_basis3, mk_p3, mk_v3, p3, v3, Matrix4, m4, 4);
decomposed!(dec2_basis, 2, Point2, Vector2, Basis2<S>, rd_basis2, mk_p2, mk_v2, p2, v2, Matrix3, m3, 3);

// ---------------------------------------------------------------- matrices as transforms

/// class 0: affine; class 1: projective (Matrix4 only), w checked by the model
fn g_mat4(rng: &mut Rng, tier: Tier) -> Case {
    let mut c = Case::new();
    // class 0 affine; 1 generic projective; 2 projective without translation
    // (translation column 0,0,0,w); 3 bottom row (0,0,0,k) with k != 1
    c.class = match rng.below(8) {
        0..=2 => 0,
        3 => 1,
        4 => 2,
        5 => 3,
        _ => 4,
    };
    for _ in 0..2 {
        let mut m = gen::distinct_rats(rng, tier, 16);
        if c.class == 4 {
            // what the crate's own constructors produce (identity, scale, translation, viewport,
            // rotation with or without translation, projection-shaped, singular scale)
            m = gen::structured_matrix(rng, tier, 4).0;
        }
        match c.class {
            0 => {
                m[3] = Rat::int(0);
                m[7] = Rat::int(0);
                m[11] = Rat::int(0);
                m[15] = Rat::int(1);
            }
            2 => {
                m[12] = Rat::int(0);
                m[13] = Rat::int(0);
                m[14] = Rat::int(0);
            }
            3 => {
                m[3] = Rat::int(0);
                m[7] = Rat::int(0);
                m[11] = Rat::int(0);
            }
            _ => {}
        }
        c.push_r(&m);
    }
    c.push_r(&gen::distinct_rats(rng, tier, 3));
    c.push_r(&gen::distinct_rats(rng, tier, 3));
    c.nontrivial = true;
    c
}
fn mat4<S: Sc>(case: &Case, ck: &mut Ck<S>) {
    let mut rd = case.rd();
    let (a, b): (M<S, 4>, M<S, 4>) = (rd.mat(), rd.mat());
    let p: V<S, 3> = rd.arr();
    let v: V<S, 3> = rd.arr();
    let (ma, mb) = (mk_m4(a), mk_m4(b));
    let (pp, vv) = (mk_p3(p), mk_v3(v));
    let one = S::i(1);
    // model: homogeneous apply with divide
    let hom = |m: M<S, 4>, x: V<S, 3>| -> Option<V<S, 3>> {
        let r = mvec(m, [x[0], x[1], x[2], one]);
        if S::t_eq(&r[3], &S::i(0)) != Tri::False {
            return None;
        }
        Some([r[0] / r[3], r[1] / r[3], r[2] / r[3]])
    };
    let Some(bp) = hom(b, p) else { return ck.truth("w = 0 (skipped)", true) };
    let Some(abp) = hom(a, bp) else { return ck.truth("w = 0 (skipped)", true) };
    if hom(mmul(a, b), p).is_none() {
        return ck.truth("w = 0 (skipped)", true);
    }
    ck.eqv("transform_point vs model", p3(mb.transform_point(pp)), bp);
    let lin = |m: M<S, 4>, x: V<S, 3>| {
        let r = mvec(m, [x[0], x[1], x[2], S::i(0)]);
        [r[0], r[1], r[2]]
    };
    ck.eqv("transform_vector vs model", v3(mb.transform_vector(vv)), lin(b, v));
    let c = Transform::<Point3<S>>::concat(&ma, &mb);
    ck.eqv("concat(s,t)(p) = s(t(p))", p3(c.transform_point(pp)), abp);
    ck.eqv("concat(s,t)(p) via code", p3(c.transform_point(pp)), p3(ma.transform_point(mb.transform_point(pp))));
    let mut cs = ma;
    Transform::<Point3<S>>::concat_self(&mut cs, &mb);
    ck.eqm("concat_self = concat", m4(cs), m4(c));
    ck.eqm("concat = *", m4(c), mmul(a, b));
    if case.class == 0 {
        ck.eqv("concat(s,t)(v) = s(t(v))", v3(c.transform_vector(vv)), v3(ma.transform_vector(mb.transform_vector(vv))));
    }
    let id: Matrix4<S> = One::one();
    ck.eqv("one()(p)", p3(id.transform_point(pp)), p);
    ck.eqv("one()(v)", v3(id.transform_vector(vv)), v);
    // inverse
    let d = det(a);
    let inv = Transform::<Point3<S>>::inverse_transform(&ma);
    let invv = Transform::<Point3<S>>::inverse_transform_vector(&ma, vv);
    match S::t_eq(&d, &S::i(0)) {
        Tri::True => {
            ck.truth("inverse_transform None for det 0", inv.is_none());
            ck.truth("inverse_transform_vector None for det 0", invv.is_none());
        }
        Tri::False => {
            ck.truth("inverse_transform Some for det != 0", inv.is_some());
            if let (Some(i), Some(iv)) = (inv, invv) {
                if let Some(ap) = hom(a, p) {
                    ck.eqv("inv(t(p)) = p", p3(i.transform_point(mk_p3(ap))), p);
                }
                ck.eqv("inverse_transform_vector agrees", v3(iv), v3(i.transform_vector(vv)));
                if case.class == 0 {
                    ck.eqv("inv(t(v)) = v", v3(i.transform_vector(ma.transform_vector(vv))), v);
                }
            }
        }
        Tri::Unknown => {}
    }
}

fn g_mat3(rng: &mut Rng, tier: Tier) -> Case {
    let mut c = Case::new();
    // two affine 3x3 (for the 2-D reading) and two arbitrary 3x3 (3-D reading)
    // one case in four: structured matrices (scale, translation, viewport, rotation, ...)
    let structured = rng.chance(1, 4);
    for _ in 0..2 {
        let mut m = gen::distinct_rats(rng, tier, 9);
        m[2] = Rat::int(0);
        m[5] = Rat::int(0);
        m[8] = Rat::int(1);
        if structured {
            // kinds 0-5, 7, 8 are affine (last row 0 0 1); kind 6 is not
            loop {
                let (mm, _) = gen::structured_matrix(rng, tier, 3);
                // the 2-D reading is affine: last row exactly 0 0 1
                if mm[2].is_zero() && mm[5].is_zero() && mm[8].n == mm[8].d {
                    m = mm;
                    break;
                }
            }
        }
        c.push_r(&m);
    }
    for _ in 0..2 {
        if structured {
            c.push_r(&gen::structured_matrix(rng, tier, 3).0);
        } else {
            c.push_r(&gen::distinct_rats(rng, tier, 9));
        }
    }
    c.push_r(&gen::distinct_rats(rng, tier, 3));
    c.push_r(&gen::distinct_rats(rng, tier, 3));
    c.nontrivial = true;
    c
}
fn mat3<S: Sc>(case: &Case, ck: &mut Ck<S>) {
    let mut rd = case.rd();
    let (a2, b2): (M<S, 3>, M<S, 3>) = (rd.mat(), rd.mat());
    let (a3, b3): (M<S, 3>, M<S, 3>) = (rd.mat(), rd.mat());
    let p: V<S, 3> = rd.arr();
    let v: V<S, 3> = rd.arr();
    // 2-D affine reading
    {
        type P2<S> = Point2<S>;
        let (ma, mb) = (mk_m3(a2), mk_m3(b2));
        let (pp, vv) = (mk_p2([p[0], p[1]]), mk_v2([v[0], v[1]]));
        let ap = |m: M<S, 3>, x: [S; 2]| {
            let r = mvec(m, [x[0], x[1], S::i(1)]);
            [r[0], r[1]]
        };
        let av = |m: M<S, 3>, x: [S; 2]| {
            let r = mvec(m, [x[0], x[1], S::i(0)]);
            [r[0], r[1]]
        };
        ck.eqv("M3/2-D transform_point vs model", p2(Transform::<P2<S>>::transform_point(&mb, pp)), ap(b2, [p[0], p[1]]));
        ck.eqv("M3/2-D transform_vector vs model", v2(Transform::<P2<S>>::transform_vector(&mb, vv)), av(b2, [v[0], v[1]]));
        let c = Transform::<P2<S>>::concat(&ma, &mb);
        ck.eqv(
            "M3/2-D concat(s,t)(p) = s(t(p))",
            p2(Transform::<P2<S>>::transform_point(&c, pp)),
            ap(a2, ap(b2, [p[0], p[1]])),
        );
        ck.eqv(
            "M3/2-D concat(s,t)(v) = s(t(v))",
            v2(Transform::<P2<S>>::transform_vector(&c, vv)),
            av(a2, av(b2, [v[0], v[1]])),
        );
        let mut cs = ma;
        Transform::<P2<S>>::concat_self(&mut cs, &mb);
        ck.eqm("M3/2-D concat_self", m3(cs), mmul(a2, b2));
        let id: Matrix3<S> = One::one();
        ck.eqv("M3/2-D one()(p)", p2(Transform::<P2<S>>::transform_point(&id, pp)), [p[0], p[1]]);
        let d = det(a2);
        let inv = Transform::<P2<S>>::inverse_transform(&ma);
        let invv = Transform::<P2<S>>::inverse_transform_vector(&ma, vv);
        match S::t_eq(&d, &S::i(0)) {
            Tri::True => {
                ck.truth("M3/2-D inverse None for det 0", inv.is_none() && invv.is_none());
            }
            Tri::False => {
                ck.truth("M3/2-D inverse Some", inv.is_some() && invv.is_some());
                if let (Some(i), Some(iv)) = (inv, invv) {
                    let tp = Transform::<P2<S>>::transform_point(&ma, pp);
                    ck.eqv("M3/2-D inv(t(p)) = p", p2(Transform::<P2<S>>::transform_point(&i, tp)), [p[0], p[1]]);
                    let tv = Transform::<P2<S>>::transform_vector(&ma, vv);
                    ck.eqv("M3/2-D inv(t(v)) = v", v2(Transform::<P2<S>>::transform_vector(&i, tv)), [v[0], v[1]]);
                    ck.eqv("M3/2-D inverse_transform_vector agrees", v2(iv), v2(Transform::<P2<S>>::transform_vector(&i, vv)));
                }
            }
            Tri::Unknown => {}
        }
    }
    // 3-D linear reading
    {
        type P3<S> = Point3<S>;
        let (ma, mb) = (mk_m3(a3), mk_m3(b3));
        let (pp, vv) = (mk_p3(p), mk_v3(v));
        ck.eqv("M3/3-D transform_point vs model", p3(Transform::<P3<S>>::transform_point(&mb, pp)), mvec(b3, p));
        ck.eqv("M3/3-D transform_vector vs model", v3(Transform::<P3<S>>::transform_vector(&mb, vv)), mvec(b3, v));
        let c = Transform::<P3<S>>::concat(&ma, &mb);
        ck.eqv("M3/3-D concat(s,t)(p) = s(t(p))", p3(Transform::<P3<S>>::transform_point(&c, pp)), mvec(a3, mvec(b3, p)));
        ck.eqv("M3/3-D concat(s,t)(v) = s(t(v))", v3(Transform::<P3<S>>::transform_vector(&c, vv)), mvec(a3, mvec(b3, v)));
        let d = det(a3);
        let inv = Transform::<P3<S>>::inverse_transform(&ma);
        let invv = Transform::<P3<S>>::inverse_transform_vector(&ma, vv);
        match S::t_eq(&d, &S::i(0)) {
            Tri::True => ck.truth("M3/3-D inverse None for det 0", inv.is_none() && invv.is_none()),
            Tri::False => {
                ck.truth("M3/3-D inverse Some", inv.is_some() && invv.is_some());
                if let (Some(i), Some(iv)) = (inv, invv) {
                    let tp = Transform::<P3<S>>::transform_point(&ma, pp);
                    ck.eqv("M3/3-D inv(t(p)) = p", p3(Transform::<P3<S>>::transform_point(&i, tp)), p);
                    ck.eqv("M3/3-D inverse_transform_vector agrees", v3(iv), v3(Transform::<P3<S>>::transform_vector(&i, vv)));
                }
            }
            Tri::Unknown => {}
        }
    }
}

/// singular matrices used as transforms must refuse to invert
fn g_sing(rng: &mut Rng, tier: Tier) -> Case {
    let mut c = Case::new();
    // 4x4 with column 2 = 2*column 0 - column 1 ; 3x3 likewise
    let base = gen::distinct_rats(rng, tier, 16);
    let mut m = base.clone();
    for r in 0..4 {
        let (a, b) = (m[r], m[4 + r]);
        m[8 + r] = Rat::new(2 * a.n * b.d - b.n * a.d, a.d * b.d);
    }
    c.push_r(&m);
    let mut m3v = gen::distinct_rats(rng, tier, 9);
    for r in 0..3 {
        let (a, b) = (m3v[r], m3v[3 + r]);
        m3v[6 + r] = Rat::new(a.n * b.d + 3 * b.n * a.d, a.d * b.d);
    }
    c.push_r(&m3v);
    c.push_r(&gen::distinct_rats(rng, tier, 3));
    c.nontrivial = true;
    c
}
fn singular<S: Sc>(case: &Case, ck: &mut Ck<S>) {
    let mut rd = case.rd();
    let a: M<S, 4> = rd.mat();
    let b: M<S, 3> = rd.mat();
    let v: V<S, 3> = rd.arr();
    ck.eq("generator: det4 = 0", det(a), S::i(0));
    ck.eq("generator: det3 = 0", det(b), S::i(0));
    let (ma, mb) = (mk_m4(a), mk_m3(b));
    ck.truth("Matrix4 inverse_transform None", Transform::<Point3<S>>::inverse_transform(&ma).is_none());
    ck.truth("Matrix4 inverse_transform_vector None", Transform::<Point3<S>>::inverse_transform_vector(&ma, mk_v3(v)).is_none());
    ck.truth("Matrix3/3-D inverse_transform None", Transform::<Point3<S>>::inverse_transform(&mb).is_none());
    ck.truth("Matrix3/2-D inverse_transform None", Transform::<Point2<S>>::inverse_transform(&mb).is_none());
}

/// Similarity transforms in large and small units on the native types: a
/// rotation (normalised quaternion with short dyadic components) times a scale
/// 2^k with k over the whole window in which entries, determinant, cofactors
/// and inverse stay normal (|k| <= 30 for f32, <= 250 for f64), displacement of
/// the same order.  The determinant is 2^(3k) up to rounding, i.e. far from
/// zero, so inverse_transform must be Some and must undo the transform on
/// points and vectors; allowance 4096 eps of |p| (the unchanged code stays
/// below 20 eps).  A singularity test with an absolute threshold, or one whose
/// intermediates (det^2, products of column lengths) leave the range, reports
/// None for these perfectly conditioned matrices.
pub fn native_units(cfg: &cgv_core::fw::RunCfg, extra: &mut cgv_core::fw::Extra) {
    use cgmath::BaseFloat;
    use cgv_core::acc::Acc;
    use cgv_core::twin::short;
    use serde_json::json;
    fn run<T: BaseFloat>(tag: &str, q: [f64; 4], k: i32, t0: [f64; 3], p0: [f64; 3], eps: f64, acc: &mut Acc, inputs: &dyn Fn() -> serde_json::Value) {
        let f = |x: f64| T::from(x).unwrap();
        let g = |x: T| x.to_f64().unwrap();
        let s = (2.0f64).powi(k);
        let rot = Quaternion::new(f(q[0]), f(q[1]), f(q[2]), f(q[3])).normalize();
        let disp = Vector3::new(f(t0[0] * s), f(t0[1] * s), f(t0[2] * s));
        let p = Point3::new(f(p0[0]), f(p0[1]), f(p0[2]));
        let v = p.to_vec();
        let tol = 4096.0 * eps * (p0[0].abs() + p0[1].abs() + p0[2].abs() + t0[0].abs() + t0[1].abs() + t0[2].abs() + 1.0);
        let dec = Decomposed { scale: f(s), rot, disp };
        let m4: Matrix4<T> = dec.into();
        let m3: Matrix3<T> = Matrix3::from(rot) * f(s);
        let dec2: Decomposed<Vector2<T>, Basis2<T>> = Decomposed {
            scale: f(s),
            rot: Rotation2::from_angle(cgmath::Rad(f(q[0]))),
            disp: Vector2::new(disp.x, disp.y),
        };
        let m3_2d: Matrix3<T> = dec2.into();
        let p2 = Point2::new(p.x, p.y);
        let mut back3 = |name: &str, r: Option<Point3<T>>, want: Point3<T>| match r {
            None => acc.truth(&format!("{tag} {name}: inverse_transform is None at scale 2^{k} (determinant about 2^{})", 3 * k), false, inputs),
            Some(x) => {
                for i in 0..3 {
                    acc.check(&format!("{tag} {name} at scale 2^{k}: inverse(transform(p))[{i}]"), g(x[i]), g(want[i]), tol, inputs);
                }
            }
        };
        back3("Matrix4", Transform::<Point3<T>>::inverse_transform(&m4).map(|i| i.transform_point(m4.transform_point(p))), p);
        back3("Matrix3 (3-D)", Transform::<Point3<T>>::inverse_transform(&m3).map(|i| Transform::<Point3<T>>::transform_point(&i, Transform::<Point3<T>>::transform_point(&m3, p))), p);
        // Decomposed: the statement only demands an inverse for |scale| > 1e-6
        let demanded = s > 1.0e-6;
        if demanded {
            back3("Decomposed<Quaternion>", dec.inverse_transform().map(|i| i.transform_point(dec.transform_point(p))), p);
        }
        back3(
            "Matrix4 inverse_transform_vector",
            Transform::<Point3<T>>::inverse_transform_vector(&m4, m4.transform_vector(v)).map(Point3::from_vec),
            p,
        );
        back3(
            "Matrix3 (3-D) inverse_transform_vector",
            Transform::<Point3<T>>::inverse_transform_vector(&m3, Transform::<Point3<T>>::transform_vector(&m3, v)).map(Point3::from_vec),
            p,
        );
        let r2 = Transform::<Point2<T>>::inverse_transform(&m3_2d)
            .map(|i| Transform::<Point2<T>>::transform_point(&i, Transform::<Point2<T>>::transform_point(&m3_2d, p2)));
        back3("Matrix3 (2-D affine)", r2.map(|x| Point3::new(x.x, x.y, p.z)), p);
        let r2d = dec2.inverse_transform().map(|i| i.transform_point(dec2.transform_point(p2)));
        if demanded {
            back3("Decomposed<Basis2>", r2d.map(|x| Point3::new(x.x, x.y, p.z)), p);
        }
        // matrix and decomposed form agree on the image of p (relative to its size)
        let (a, b) = (m4.transform_point(p), dec.transform_point(p));
        for i in 0..3 {
            acc.check(&format!("{tag} Matrix4::from(Decomposed) vs Decomposed at scale 2^{k}: image[{i}]"), g(a[i]) / s, g(b[i]) / s, tol, inputs);
        }
    }
    let n = if cfg.tier == Tier::Quick { 2000 } else { 100_000 };
    let mut acc = Acc::new("c08_similarities_in_large_and_small_units");
    for i in 0..n {
        let mut rng = Rng::for_case(cfg.seed, "native_units", i);
        let q = [short(&mut rng, -2.0, 2.0), short(&mut rng, -2.0, 2.0), short(&mut rng, -2.0, 2.0), short(&mut rng, -2.0, 2.0)];
        if q.iter().map(|x| x * x).sum::<f64>() < 0.25 {
            continue;
        }
        let t0 = [short(&mut rng, -4.0, 4.0), short(&mut rng, -4.0, 4.0), short(&mut rng, -4.0, 4.0)];
        let p0 = [short(&mut rng, -4.0, 4.0), short(&mut rng, -4.0, 4.0), short(&mut rng, -4.0, 4.0)];
        let sign = if rng.chance(1, 4) { -1 } else { 1 };
        let (k64, k32) = (rng.range(-250, 250) as i32, rng.range(-30, 30) as i32);
        let _ = sign;
        acc.case("scale 2^k * rotation + displacement");
        let in64 = || json!({"quaternion_s_xyz": q, "scale_log2": k64, "disp_over_scale": t0, "p": p0, "type": "f64", "index": i});
        let in32 = || json!({"quaternion_s_xyz": q, "scale_log2": k32, "disp_over_scale": t0, "p": p0, "type": "f32", "index": i});
        match cgv_core::fw::catch(|| {
            let mut local = Acc::new("c08_similarities_in_large_and_small_units");
            run::<f64>("f64", q, k64, t0, p0, f64::EPSILON, &mut local, &in64);
            run::<f32>("f32", q, k32, t0, p0, f32::EPSILON as f64, &mut local, &in32);
            local
        }) {
            Ok(l) => {
                acc.checks += l.checks;
                acc.worst = acc.worst.max(l.worst);
                if acc.fail.is_none() {
                    acc.fail = l.fail;
                }
            }
            Err(p) => acc.truth(&format!("unexpected panic: {p}"), false, &in64),
        }
        if acc.failed() {
            break;
        }
    }
    acc.finish(extra, "inverse(transform(p)) = p on native f32/f64; allowance 4096 eps * (|p|+|disp/scale|+1)");
}

pub fn native(cfg: &cgv_core::fw::RunCfg, extra: &mut cgv_core::fw::Extra) {
    cgv_core::twins::c08(cfg, extra);
    native_units(cfg, extra);
}

const EP_D: &[&str] = &[
    "Transform::{transform_point,transform_vector,concat,concat_self,inverse_transform,inverse_transform_vector} for Decomposed",
    "Decomposed * Decomposed",
    "Matrix4::from(Decomposed)",
    "Matrix3::from(Decomposed)",
];
const EP_M: &[&str] = &[
    "Transform::{transform_point,transform_vector,concat,concat_self,inverse_transform,inverse_transform_vector} for Matrix3/Matrix4",
];

pub fn clauses() -> Vec<Clause> {
    vec![
        clause!("decomposed3_quaternion", EP_D, g_dec3, dec3_quat),
        clause!("decomposed3_basis3", EP_D, g_dec3, dec3_basis),
        clause!("decomposed2_basis2", EP_D, g_dec2, dec2_basis),
        clause!("matrix4", EP_M, g_mat4, mat4, weight = 1.0, classes = 5),
        clause!("matrix3", EP_M, g_mat3, mat3),
        clause!("singular", EP_M, g_sing, singular, weight = 0.25, classes = 0),
    ]
}

pub const RULE: &str = "Decomposed: two transforms (scale from small rationals incl. negatives, 0 and the ladder +-k*10^-1..-9 around 1e-6; rotation an exact rational unit quaternion / the Basis3 converted from it / a Basis2 built by look_at_stable from a Pythagorean direction; displacement with distinct non-zero components), one point, one vector. Matrices: affine 3x3 (2-D), arbitrary 3x3 (3-D), affine (class 0), generic projective (class 1), projective with zero translation column (class 2) and bottom-row (0,0,0,k) (class 3) 4x4 (cases where the model finds w = 0 are skipped), plus singular-by-construction matrices. Non-trivial = both scales outside {0,1} and rotations in general position; distinct = distinct input tuples.";
pub const ASSUME: &[&str] = &[
    "exact rational arithmetic; for 1e-6 >= |scale| > 0 nothing is demanded of inverse_transform (the property leaves that band open)",
    "Transform<Point2> for Matrix3 is only driven with affine matrices (it performs no perspective divide)",
];
