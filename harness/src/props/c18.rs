//! C18 — approximate equality and predicates test every component (DESIGN §C18).
//! Native f32/f64; the scalar impls of the `approx` crate are the oracle.

use approx::{AbsDiffEq, RelativeEq, UlpsEq};
use cgmath::prelude::*;
use cgmath::{
    Basis2, Basis3, Decomposed, Deg, Euler, Matrix2, Matrix3, Matrix4, Point1, Point2, Point3, Quaternion, Rad,
    Vector1, Vector2, Vector3, Vector4,
};
use serde_json::json;

use cgv_core::fw::{Clause, Extra, RunCfg};
use cgv_core::gen::{Rng, Tier};

pub trait Fl:
    cgmath::BaseFloat + std::fmt::Debug + serde::Serialize + serde::de::DeserializeOwned + 'static
{
    const NAME: &'static str;
    fn of(x: f64) -> Self;
    fn ulps_up(self, k: u32) -> Self;
    fn qnan() -> Self;
    fn inf() -> Self;
}
impl Fl for f32 {
    const NAME: &'static str = "f32";
    fn of(x: f64) -> f32 {
        x as f32
    }
    fn ulps_up(self, k: u32) -> f32 {
        // k representable steps away from zero
        f32::from_bits(self.to_bits() + k)
    }
    fn qnan() -> f32 {
        f32::NAN
    }
    fn inf() -> f32 {
        f32::INFINITY
    }
}
impl Fl for f64 {
    const NAME: &'static str = "f64";
    fn of(x: f64) -> f64 {
        x
    }
    fn ulps_up(self, k: u32) -> f64 {
        f64::from_bits(self.to_bits() + k as u64)
    }
    fn qnan() -> f64 {
        f64::NAN
    }
    fn inf() -> f64 {
        f64::INFINITY
    }
}

/// component access for every compound type (public fields where they exist)
pub trait Comp<T: Fl>: Sized + Clone + std::fmt::Debug {
    const N: usize;
    const NAME: &'static str;
    fn make(c: &[T]) -> Self;
    fn comps(&self) -> Vec<T>;
}
macro_rules! comp_fields {
    ($Ty:ident, $n:expr, ($($f:ident),+)) => {
        impl<T: Fl> Comp<T> for $Ty<T> {
            const N: usize = $n;
            const NAME: &'static str = stringify!($Ty);
            fn make(c: &[T]) -> Self { let mut i = 0; $Ty { $($f: { i += 1; c[i - 1] }),+ } }
            fn comps(&self) -> Vec<T> { vec![$(self.$f),+] }
        }
    };
}
comp_fields!(Vector1, 1, (x));
comp_fields!(Vector2, 2, (x, y));
comp_fields!(Vector3, 3, (x, y, z));
comp_fields!(Vector4, 4, (x, y, z, w));
comp_fields!(Point1, 1, (x));
comp_fields!(Point2, 2, (x, y));
comp_fields!(Point3, 3, (x, y, z));
impl<T: Fl> Comp<T> for Matrix2<T> {
    const N: usize = 4;
    const NAME: &'static str = "Matrix2";
    fn make(c: &[T]) -> Self {
        Matrix2::new(c[0], c[1], c[2], c[3])
    }
    fn comps(&self) -> Vec<T> {
        vec![self.x.x, self.x.y, self.y.x, self.y.y]
    }
}
impl<T: Fl> Comp<T> for Matrix3<T> {
    const N: usize = 9;
    const NAME: &'static str = "Matrix3";
    fn make(c: &[T]) -> Self {
        Matrix3::new(c[0], c[1], c[2], c[3], c[4], c[5], c[6], c[7], c[8])
    }
    fn comps(&self) -> Vec<T> {
        vec![self.x.x, self.x.y, self.x.z, self.y.x, self.y.y, self.y.z, self.z.x, self.z.y, self.z.z]
    }
}
impl<T: Fl> Comp<T> for Matrix4<T> {
    const N: usize = 16;
    const NAME: &'static str = "Matrix4";
    fn make(c: &[T]) -> Self {
        Matrix4::new(
            c[0], c[1], c[2], c[3], c[4], c[5], c[6], c[7], c[8], c[9], c[10], c[11], c[12], c[13], c[14], c[15],
        )
    }
    fn comps(&self) -> Vec<T> {
        let m = self;
        vec![
            m.x.x, m.x.y, m.x.z, m.x.w, m.y.x, m.y.y, m.y.z, m.y.w, m.z.x, m.z.y, m.z.z, m.z.w, m.w.x, m.w.y, m.w.z, m.w.w,
        ]
    }
}
impl<T: Fl> Comp<T> for Quaternion<T> {
    const N: usize = 4;
    const NAME: &'static str = "Quaternion";
    fn make(c: &[T]) -> Self {
        Quaternion::new(c[0], c[1], c[2], c[3])
    }
    fn comps(&self) -> Vec<T> {
        vec![self.s, self.v.x, self.v.y, self.v.z]
    }
}
impl<T: Fl> Comp<T> for Rad<T> {
    const N: usize = 1;
    const NAME: &'static str = "Rad";
    fn make(c: &[T]) -> Self {
        Rad(c[0])
    }
    fn comps(&self) -> Vec<T> {
        vec![self.0]
    }
}
impl<T: Fl> Comp<T> for Deg<T> {
    const N: usize = 1;
    const NAME: &'static str = "Deg";
    fn make(c: &[T]) -> Self {
        Deg(c[0])
    }
    fn comps(&self) -> Vec<T> {
        vec![self.0]
    }
}
impl<T: Fl> Comp<T> for Euler<Rad<T>> {
    const N: usize = 3;
    const NAME: &'static str = "Euler<Rad>";
    fn make(c: &[T]) -> Self {
        Euler::new(Rad(c[0]), Rad(c[1]), Rad(c[2]))
    }
    fn comps(&self) -> Vec<T> {
        vec![self.x.0, self.y.0, self.z.0]
    }
}
impl<T: Fl> Comp<T> for Euler<Deg<T>> {
    const N: usize = 3;
    const NAME: &'static str = "Euler<Deg>";
    fn make(c: &[T]) -> Self {
        Euler::new(Deg(c[0]), Deg(c[1]), Deg(c[2]))
    }
    fn comps(&self) -> Vec<T> {
        vec![self.x.0, self.y.0, self.z.0]
    }
}
// Basis2/Basis3 have a private field; arbitrary component values are installed
// through their public Deserialize impl (serde feature)
impl<T: Fl> Comp<T> for Basis2<T> {
    const N: usize = 4;
    const NAME: &'static str = "Basis2";
    fn make(c: &[T]) -> Self {
        serde_json::from_value(json!({"mat": Matrix2::new(c[0], c[1], c[2], c[3])})).expect("Basis2 from serde")
    }
    fn comps(&self) -> Vec<T> {
        let m: &Matrix2<T> = self.as_ref();
        <Matrix2<T> as Comp<T>>::comps(m)
    }
}
impl<T: Fl> Comp<T> for Basis3<T> {
    const N: usize = 9;
    const NAME: &'static str = "Basis3";
    fn make(c: &[T]) -> Self {
        serde_json::from_value(json!({"mat": Matrix3::new(c[0], c[1], c[2], c[3], c[4], c[5], c[6], c[7], c[8])}))
            .expect("Basis3 from serde")
    }
    fn comps(&self) -> Vec<T> {
        let m: &Matrix3<T> = self.as_ref();
        <Matrix3<T> as Comp<T>>::comps(m)
    }
}
impl<T: Fl> Comp<T> for Decomposed<Vector3<T>, Quaternion<T>> {
    const N: usize = 8;
    const NAME: &'static str = "Decomposed<Vector3,Quaternion>";
    fn make(c: &[T]) -> Self {
        Decomposed { scale: c[0], rot: Quaternion::make(&c[1..5]), disp: Vector3::make(&c[5..8]) }
    }
    fn comps(&self) -> Vec<T> {
        let mut v = vec![self.scale];
        v.extend(self.rot.comps());
        v.extend(self.disp.comps());
        v
    }
}
impl<T: Fl> Comp<T> for Decomposed<Vector3<T>, Basis3<T>> {
    const N: usize = 13;
    const NAME: &'static str = "Decomposed<Vector3,Basis3>";
    fn make(c: &[T]) -> Self {
        Decomposed { scale: c[0], rot: Basis3::make(&c[1..10]), disp: Vector3::make(&c[10..13]) }
    }
    fn comps(&self) -> Vec<T> {
        let mut v = vec![self.scale];
        v.extend(self.rot.comps());
        v.extend(self.disp.comps());
        v
    }
}
impl<T: Fl> Comp<T> for Decomposed<Vector2<T>, Basis2<T>> {
    const N: usize = 7;
    const NAME: &'static str = "Decomposed<Vector2,Basis2>";
    fn make(c: &[T]) -> Self {
        Decomposed { scale: c[0], rot: Basis2::make(&c[1..5]), disp: Vector2::make(&c[5..7]) }
    }
    fn comps(&self) -> Vec<T> {
        let mut v = vec![self.scale];
        v.extend(self.rot.comps());
        v.extend(self.disp.comps());
        v
    }
}

pub struct Rec {
    pub checks: u64,
    pub fail: Option<String>,
    pub positions: std::collections::BTreeSet<String>,
}
impl Rec {
    fn expect(&mut self, what: &str, got: bool, exp: bool, detail: impl Fn() -> String) {
        self.checks += 1;
        if got != exp && self.fail.is_none() {
            self.fail = Some(format!("{what}: compound comparison says {got}, conjunction of scalar comparisons says {exp}; {}", detail()));
        }
    }
}

fn base<T: Fl>(rng: &mut Rng, n: usize) -> Vec<T> {
    (0..n)
        .map(|_| {
            let m = rng.uniform(0.5, 8.0);
            T::of(if rng.bool() { m } else { -m })
        })
        .collect()
}

/// the per-position sweep for one compound type
fn sweep<T: Fl, C>(rec: &mut Rec, rng: &mut Rng)
where
    C: Comp<T> + AbsDiffEq<Epsilon = T> + RelativeEq + UlpsEq,
{
    let n = C::N;
    let x = base::<T>(rng, n);
    let cx = C::make(&x);
    rec.expect("round trip of components", cx.comps() == x, true, || format!("{} {:?}", C::NAME, x));
    // reflexive
    let eps = T::of(1e-3);
    rec.expect("abs_diff_eq reflexive", cx.abs_diff_eq(&cx, eps), true, || C::NAME.to_string());
    rec.expect("relative_eq reflexive", cx.relative_eq(&cx, T::of(0.0), eps), true, || C::NAME.to_string());
    rec.expect("ulps_eq reflexive", cx.ulps_eq(&cx, T::of(0.0), 4), true, || C::NAME.to_string());
    // pairs that differ in *every* component at once: the exact negation, a common offset, a common
    // factor -- and the negated relations (`*_ne`), which must be the complement of `*_eq`
    {
        let z = T::of(0.0);
        let tiny_eps = T::of(1e-30);
        let variants: Vec<(&str, Vec<T>)> = vec![
            ("negated", x.iter().map(|a| -*a).collect()),
            ("all + 1", x.iter().map(|a| *a + T::of(1.0)).collect()),
            ("all * (1 + eps/2)", x.iter().map(|a| *a + *a * eps / T::of(2.0)).collect()),
            ("all * 2", x.iter().map(|a| *a + *a).collect()),
            ("equal", x.clone()),
        ];
        for (kind, y) in variants {
            let cy = C::make(&y);
            let detail = || format!("{}<{}> x={:?} y={:?} ({kind})", C::NAME, T::NAME, x, y);
            let conj = |f: &dyn Fn(&T, &T) -> bool| x.iter().zip(y.iter()).all(|(a, b)| f(a, b));
            let e1 = conj(&|a, b| a.abs_diff_eq(b, eps));
            let e2 = conj(&|a, b| a.relative_eq(b, tiny_eps, eps));
            let e3 = conj(&|a, b| a.ulps_eq(b, z, 4));
            rec.expect("abs_diff_eq (all components differ)", cx.abs_diff_eq(&cy, eps), e1, &detail);
            rec.expect("relative_eq (all components differ)", cx.relative_eq(&cy, tiny_eps, eps), e2, &detail);
            rec.expect("relative_eq (all components differ, default tolerances)", cx.relative_eq(&cy, C::default_epsilon(), C::default_max_relative()),
                kind == "equal" || conj(&|a, b| a == b), &detail);
            rec.expect("ulps_eq (all components differ)", cx.ulps_eq(&cy, z, 4), e3, &detail);
            rec.expect("abs_diff_ne = !abs_diff_eq", cx.abs_diff_ne(&cy, eps), !e1, &detail);
            rec.expect("relative_ne = !relative_eq", cx.relative_ne(&cy, tiny_eps, eps), !e2, &detail);
            rec.expect("ulps_ne = !ulps_eq", cx.ulps_ne(&cy, z, 4), !e3, &detail);
        }
    }
    for i in 0..n {
        rec.positions.insert(format!("{}<{}>[{}]", C::NAME, T::NAME, i));
        // perturbations just inside / just outside / far outside / none, for each relation
        let tiny = 1.0 + 2f64.powi(-12);
        let kinds: Vec<(&str, T)> = vec![
            ("abs just inside", x[i] + eps / T::of(tiny)),
            ("abs just outside", x[i] + eps * T::of(tiny)),
            ("abs far", x[i] + T::of(1.0)),
            ("rel just inside", x[i] + x[i] * eps / T::of(tiny)),
            ("rel just outside", x[i] + x[i] * eps * T::of(tiny)),
            ("ulps inside", x[i].ulps_up(4)),
            ("ulps outside", x[i].ulps_up(5)),
            ("ulps one", x[i].ulps_up(1)),
            ("sign flip", -x[i]),
        ];
        for (kind, yi) in kinds {
            let mut y = x.clone();
            y[i] = yi;
            let cy = C::make(&y);
            let detail = || format!("{}<{}> component {} x={:?} y={:?} ({kind})", C::NAME, T::NAME, i, x[i], yi);
            // oracle: conjunction over all component pairs of the scalar relation
            let conj = |f: &dyn Fn(&T, &T) -> bool| x.iter().zip(y.iter()).all(|(a, b)| f(a, b));
            let z = T::of(0.0);
            let tiny_eps = T::of(1e-30);
            let exp = conj(&|a, b| a.abs_diff_eq(b, eps));
            rec.expect("abs_diff_eq", cx.abs_diff_eq(&cy, eps), exp, &detail);
            rec.expect("abs_diff_eq symmetric", cy.abs_diff_eq(&cx, eps), exp, &detail);
            rec.expect("abs_diff_ne = !abs_diff_eq", cx.abs_diff_ne(&cy, eps), !exp, &detail);
            let exp = conj(&|a, b| a.relative_eq(b, tiny_eps, eps));
            rec.expect("relative_eq", cx.relative_eq(&cy, tiny_eps, eps), exp, &detail);
            rec.expect("relative_ne = !relative_eq", cx.relative_ne(&cy, tiny_eps, eps), !exp, &detail);
            rec.expect("relative_eq symmetric", cy.relative_eq(&cx, tiny_eps, eps), exp, &detail);
            let exp = conj(&|a, b| a.relative_eq(b, eps, tiny_eps));
            rec.expect("relative_eq (epsilon path)", cx.relative_eq(&cy, eps, tiny_eps), exp, &detail);
            let exp = conj(&|a, b| a.ulps_eq(b, z, 4));
            rec.expect("ulps_eq", cx.ulps_eq(&cy, z, 4), exp, &detail);
            rec.expect("ulps_ne = !ulps_eq", cx.ulps_ne(&cy, z, 4), !exp, &detail);
            rec.expect("ulps_eq symmetric", cy.ulps_eq(&cx, z, 4), exp, &detail);
            let exp = conj(&|a, b| a.ulps_eq(b, eps, 0));
            rec.expect("ulps_eq (epsilon path)", cx.ulps_eq(&cy, eps, 0), exp, &detail);
            // beyond tolerance in a single component => unequal
            if kind == "abs far" {
                rec.expect("differs beyond every tolerance", cx.abs_diff_eq(&cy, eps) || cx.ulps_eq(&cy, z, 4), false, &detail);
            }
        }
    }
}

fn predicates<T: Fl>(rec: &mut Rec, rng: &mut Rng) {
    let z = T::of(0.0);
    let one = T::of(1.0);
    let seps = <T as AbsDiffEq>::default_epsilon();
    let sulps = <T as UlpsEq>::default_max_ulps();
    let sc_eq = |a: T, b: T| a.ulps_eq(&b, seps, sulps);
    // ---- is_finite: one non-finite value at every position
    macro_rules! finite {
        ($C:ty) => {{
            let n = <$C as Comp<T>>::N;
            let x = base::<T>(rng, n);
            let c = <$C as Comp<T>>::make(&x);
            rec.expect("is_finite (all finite)", c.is_finite(), true, || <$C as Comp<T>>::NAME.to_string());
            // finite values at the end of the range are finite too: all components large with one
            // sign, with alternating signs, and the smallest positive values
            let big = <T as num_traits::Float>::max_value();
            let tiny = <T as num_traits::Float>::min_positive_value();
            for (label, y) in [
                ("all MAX", vec![big; n]),
                ("all -MAX", vec![-big; n]),
                ("+-MAX alternating", (0..n).map(|i| if i % 2 == 0 { big } else { -big }).collect::<Vec<T>>()),
                ("0.6 MAX", vec![big * T::of(0.6); n]),
                ("MIN_POSITIVE", vec![tiny; n]),
            ] {
                let c = <$C as Comp<T>>::make(&y);
                rec.expect("is_finite (finite values at the end of the range)", c.is_finite(), true, || format!("{} with {label}", <$C as Comp<T>>::NAME));
            }
            for i in 0..n {
                for bad in [T::qnan(), T::inf(), -T::inf()] {
                    let mut y = x.clone();
                    y[i] = bad;
                    let c = <$C as Comp<T>>::make(&y);
                    rec.expect("is_finite", c.is_finite(), false, || format!("{} non-finite at component {i}", <$C as Comp<T>>::NAME));
                }
            }
        }};
    }
    finite!(Vector1<T>);
    finite!(Vector2<T>);
    finite!(Vector3<T>);
    finite!(Vector4<T>);
    finite!(Point1<T>);
    finite!(Point2<T>);
    finite!(Point3<T>);
    finite!(Matrix2<T>);
    finite!(Matrix3<T>);
    finite!(Matrix4<T>);
    finite!(Quaternion<T>);
    // ---- is_zero
    macro_rules! zero_exact {
        ($C:ty) => {{
            let n = <$C as Comp<T>>::N;
            let zeros = vec![z; n];
            rec.expect("is_zero(zero)", <$C as Comp<T>>::make(&zeros).is_zero(), true, || <$C as Comp<T>>::NAME.to_string());
            rec.expect("zero()", <$C>::zero().comps() == zeros, true, || <$C as Comp<T>>::NAME.to_string());
            for i in 0..n {
                for v in [T::of(1e-30), T::of(-1e-30), one, T::of(1e-12)] {
                    let mut y = zeros.clone();
                    y[i] = v;
                    rec.expect("is_zero (vectors: exact)", <$C as Comp<T>>::make(&y).is_zero(), false, || format!("{} component {i} = {v:?}", <$C as Comp<T>>::NAME));
                }
            }
        }};
    }
    zero_exact!(Vector1<T>);
    zero_exact!(Vector2<T>);
    zero_exact!(Vector3<T>);
    zero_exact!(Vector4<T>);
    macro_rules! zero_ulps {
        ($C:ty) => {{
            let n = <$C as Comp<T>>::N;
            let zeros = vec![z; n];
            let teps = <$C as AbsDiffEq>::default_epsilon();
            let tulps = <$C as UlpsEq>::default_max_ulps();
            rec.expect("is_zero(zero)", <$C as Comp<T>>::make(&zeros).is_zero(), true, || <$C as Comp<T>>::NAME.to_string());
            for i in 0..n {
                for f in [0.5, 0.999, 1.001, 2.0, 1e6, -0.5, -1.001] {
                    let v = teps * T::of(f);
                    let mut y = zeros.clone();
                    y[i] = v;
                    let exp = y.iter().all(|c| c.ulps_eq(&z, teps, tulps));
                    rec.expect("is_zero (ulps)", <$C as Comp<T>>::make(&y).is_zero(), exp, || format!("{} component {i} = {v:?}", <$C as Comp<T>>::NAME));
                }
            }
        }};
    }
    zero_ulps!(Matrix2<T>);
    zero_ulps!(Matrix3<T>);
    zero_ulps!(Matrix4<T>);
    zero_ulps!(Quaternion<T>);
    zero_ulps!(Rad<T>);
    zero_ulps!(Deg<T>);
    // ---- matrix predicates, one perturbed element at every position
    macro_rules! matrix_preds {
        ($M:ident, $n:expr) => {{
            const N: usize = $n;
            let teps = <$M<T> as AbsDiffEq>::default_epsilon();
            let tulps = <$M<T> as UlpsEq>::default_max_ulps();
            let ident: Vec<T> = (0..N * N).map(|i| if i / N == i % N { one } else { z }).collect();
            let diag: Vec<T> = {
                let d = base::<T>(rng, N);
                (0..N * N).map(|i| if i / N == i % N { d[i / N] } else { z }).collect()
            };
            let sym: Vec<T> = {
                let b = base::<T>(rng, N * N);
                (0..N * N).map(|i| { let (c, r) = (i / N, i % N); if c <= r { b[c * N + r] } else { b[r * N + c] } }).collect()
            };
            rec.expect("is_identity(identity)", $M::<T>::make(&ident).is_identity(), true, || stringify!($M).to_string());
            rec.expect("is_diagonal(diagonal)", $M::<T>::make(&diag).is_diagonal(), true, || stringify!($M).to_string());
            rec.expect("is_symmetric(symmetric)", $M::<T>::make(&sym).is_symmetric(), true, || stringify!($M).to_string());
            // structured non-symmetric matrices: skew-symmetric (with and without a diagonal), a
            // symmetric matrix with every upper element negated, a rotation-like pattern
            {
                let b = base::<T>(rng, N * N);
                let skew = |with_diag: bool| -> Vec<T> {
                    (0..N * N).map(|i| { let (c, r) = (i / N, i % N); if c == r { if with_diag { b[i] } else { z } } else if c < r { b[c * N + r] } else { -b[r * N + c] } }).collect()
                };
                for (label, y) in [("skew-symmetric", skew(false)), ("skew-symmetric plus diagonal", skew(true)), ("identity plus skew part", {
                    let mut y = skew(false);
                    for d in 0..N { y[d * N + d] = one; }
                    y
                })] {
                    let exp = (0..N * N).all(|j| { let (cc, rr) = (j / N, j % N); sc_eq(y[cc * N + rr], y[rr * N + cc]) });
                    rec.expect("is_symmetric (structured)", $M::<T>::make(&y).is_symmetric(), exp, || format!("{} {label}", stringify!($M)));
                    let expd = (0..N * N).all(|j| j / N == j % N || sc_eq(y[j], z));
                    rec.expect("is_diagonal (structured)", $M::<T>::make(&y).is_diagonal(), expd, || format!("{} {label}", stringify!($M)));
                }
            }
            for i in 0..N * N {
                let (c, r) = (i / N, i % N);
                for f in [0.5, 0.999, 1.001, 3.0, 1e7, -1.001] {
                    // identity: perturb by multiples of the type's own epsilon
                    let mut y = ident.clone();
                    y[i] = y[i] + teps * T::of(f);
                    let exp = y.iter().zip(ident.iter()).all(|(a, b)| a.ulps_eq(b, teps, tulps));
                    rec.expect("is_identity", $M::<T>::make(&y).is_identity(), exp, || format!("{} element [{c}][{r}] off by {f} eps", stringify!($M)));
                    // diagonal: perturb by multiples of the scalar epsilon
                    let mut y = diag.clone();
                    y[i] = y[i] + seps * T::of(f);
                    let exp = (0..N * N).all(|j| j / N == j % N || sc_eq(y[j], z));
                    rec.expect("is_diagonal", $M::<T>::make(&y).is_diagonal(), exp, || format!("{} element [{c}][{r}] off by {f} eps", stringify!($M)));
                    // symmetric: perturb one element relative to its mirror image
                    let mut y = sym.clone();
                    y[i] = y[i] + y[i] * seps * T::of(f * 8.0);
                    let exp = (0..N * N).all(|j| { let (cc, rr) = (j / N, j % N); sc_eq(y[cc * N + rr], y[rr * N + cc]) });
                    rec.expect("is_symmetric", $M::<T>::make(&y).is_symmetric(), exp, || format!("{} element [{c}][{r}] off by {f}*8 eps relative", stringify!($M)));
                }
            }
            // is_invertible == !(det ulps-equals 0), on singular, nearly singular and regular matrices
            for k in 0..6 {
                let mut b = base::<T>(rng, N * N);
                if k < 4 {
                    // last column = first column  (singular), then optionally nudge one element
                    for r in 0..N { b[(N - 1) * N + r] = b[r]; }
                    if k >= 1 {
                        let j = rng.below((N * N) as u64) as usize;
                        b[j] = b[j] + b[j] * seps * T::of([0.0, 0.5, 4.0, 1e4][k]);
                    }
                }
                if k == 5 {
                    for v in b.iter_mut() { *v = *v * T::of(1e-6); }
                }
                let m = $M::<T>::make(&b);
                let det = m.determinant();
                rec.expect("is_invertible", m.is_invertible(), !sc_eq(det, z), || format!("{} det = {det:?}", stringify!($M)));
            }
            let tiny = $M::<T>::from_value(T::of(1e-9));
            rec.expect("is_invertible (tiny scale)", tiny.is_invertible(), !sc_eq(tiny.determinant(), z), || format!("{} from_value(1e-9)", stringify!($M)));
        }};
    }
    matrix_preds!(Matrix2, 2);
    matrix_preds!(Matrix3, 3);
    matrix_preds!(Matrix4, 4);
    // ---- is_perpendicular
    macro_rules! perp {
        ($V:ident, $n:expr) => {{
            let a = base::<T>(rng, $n);
            let va = $V::<T>::make(&a);
            for k in 0..5 {
                let b: Vec<T> = match k {
                    0 => { // exactly perpendicular for n >= 2: rotate the first two components
                        let mut b = vec![z; $n];
                        if $n >= 2 { b[0] = -a[1 % $n]; b[1 % $n] = a[0]; }
                        b
                    }
                    1 => { let mut b = vec![z; $n]; if $n >= 2 { b[0] = -a[1 % $n]; b[1 % $n] = a[0] + a[0] * seps * T::of(0.5); } b }
                    2 => { let mut b = vec![z; $n]; if $n >= 2 { b[0] = -a[1 % $n]; b[1 % $n] = a[0] + a[0] * T::of(1e-3); } b }
                    3 => vec![z; $n],
                    _ => base::<T>(rng, $n),
                };
                let vb = $V::<T>::make(&b);
                let d = va.dot(vb);
                rec.expect("is_perpendicular", va.is_perpendicular(vb), sc_eq(d, z), || format!("{} dot = {d:?}", stringify!($V)));
            }
        }};
    }
    perp!(Vector1, 1);
    perp!(Vector2, 2);
    perp!(Vector3, 3);
    perp!(Vector4, 4);
    perp!(Quaternion, 4);
}

fn all<T: Fl>(rec: &mut Rec, rng: &mut Rng) {
    sweep::<T, Vector1<T>>(rec, rng);
    sweep::<T, Vector2<T>>(rec, rng);
    sweep::<T, Vector3<T>>(rec, rng);
    sweep::<T, Vector4<T>>(rec, rng);
    sweep::<T, Point1<T>>(rec, rng);
    sweep::<T, Point2<T>>(rec, rng);
    sweep::<T, Point3<T>>(rec, rng);
    sweep::<T, Matrix2<T>>(rec, rng);
    sweep::<T, Matrix3<T>>(rec, rng);
    sweep::<T, Matrix4<T>>(rec, rng);
    sweep::<T, Quaternion<T>>(rec, rng);
    sweep::<T, Rad<T>>(rec, rng);
    sweep::<T, Deg<T>>(rec, rng);
    sweep::<T, Euler<Rad<T>>>(rec, rng);
    sweep::<T, Euler<Deg<T>>>(rec, rng);
    sweep::<T, Basis2<T>>(rec, rng);
    sweep::<T, Basis3<T>>(rec, rng);
    sweep::<T, Decomposed<Vector3<T>, Quaternion<T>>>(rec, rng);
    sweep::<T, Decomposed<Vector3<T>, Basis3<T>>>(rec, rng);
    sweep::<T, Decomposed<Vector2<T>, Basis2<T>>>(rec, rng);
    predicates::<T>(rec, rng);
}

pub fn native(cfg: &RunCfg, extra: &mut Extra) {
    let n = if cfg.tier == Tier::Quick { 60 } else { 6000 };
    let mut rec = Rec { checks: 0, fail: None, positions: Default::default() };
    let mut rounds = 0u64;
    for i in 0..n {
        let mut rng = Rng::for_case(cfg.seed, "c18_native", i);
        rounds += 1;
        let r = cgv_core::fw::catch(|| {
            all::<f64>(&mut rec, &mut rng);
            all::<f32>(&mut rec, &mut rng);
        });
        if let Err(p) = r {
            if rec.fail.is_none() {
                rec.fail = Some(format!("unexpected panic: {p}"));
            }
        }
        if let Some(f) = &rec.fail {
            extra.violations.push(("native_positions".into(), f.clone(), json!({"index": i})));
            break;
        }
    }
    extra.evaluations += rec.checks;
    // every (type, scalar, position) swept with `rounds` independent base values
    extra.distinct_nontrivial += rec.positions.len() as u64 * rounds;
    extra.samples.push(json!({"clause": "native_positions", "example": "Matrix4<f32> element [2][3] moved by eps/(1+2^-12), eps*(1+2^-12), 1.0, relative analogues, 4/5/1 ulps, sign flip; abs_diff_eq/relative_eq/ulps_eq both argument orders vs conjunction of f32 comparisons"}));
    extra.sections.insert(
        "native_positions".into(),
        json!({"rounds": rounds, "component_positions_swept": rec.positions.len(), "comparisons": rec.checks,
               "positions_sample": rec.positions.iter().take(8).collect::<Vec<_>>()}),
    );
}

pub fn clauses() -> Vec<Clause> {
    vec![]
}

pub const RULE: &str = "for every compound type (Vector1-4, Point1-3, Matrix2-4, Quaternion, Rad, Deg, Euler<Rad>, Euler<Deg>, Basis2, Basis3 and three Decomposed instantiations) over f32 and f64 and every component position: a random base value with components of magnitude 0.5-8, perturbed in exactly that component by eps/(1+2^-12), eps*(1+2^-12), 1.0, the relative analogues, 4, 5 and 1 ulps and a sign flip; each of abs_diff_eq / relative_eq (both paths) / ulps_eq (both paths), in both argument orders, must equal the conjunction of the scalar relation over all component pairs. Predicates: a non-finite value, a sub- or super-threshold value at every position. distinct_nontrivial = (type, scalar, position) triples times independent rounds.";
pub const ASSUME: &[&str] = &[
    "the approx crate's f32/f64 impls are the oracle",
    "Basis2/Basis3 values with arbitrary components are installed through their public Deserialize impl",
    "is_zero / is_identity use the compound type's own default epsilon (1e-6 for matrices), is_diagonal / is_symmetric / is_invertible / is_perpendicular the scalar defaults, as the statement says",
];
