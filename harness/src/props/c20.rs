//! C20 — serde round trip and field structure (DESIGN §C20).  Native.
//!
//! The recorder is serde's own data model captured as a `serde_json::Value`
//! tree (`to_value` / `from_value` never go through text, floats travel as the
//! exact f64), plus JSON text as a second carrier for ordered maps (field
//! permutations, omissions, unknown fields).

use std::fmt::Debug;

use cgmath::{
    Basis2, Basis3, Decomposed, Deg, Euler, Matrix2, Matrix3, Matrix4, Ortho, Perspective, PerspectiveFov, PlanarFov,
    Point1, Point2, Point3, Quaternion, Rad, Rotation2, Rotation3, Vector1, Vector2, Vector3, Vector4,
};
use serde::de::DeserializeOwned;
use serde::Serialize;
use serde_json::{json, Value};

use cgv_core::fw::{Clause, Extra, RunCfg};
use cgv_core::gen::{Rng, Tier};

pub struct Rec {
    pub checks: u64,
    pub fail: Option<String>,
    pub types: std::collections::BTreeSet<String>,
    pub values: std::collections::HashSet<String>,
}
impl Rec {
    fn ok(&mut self, what: &str, cond: bool, detail: impl Fn() -> String) {
        self.checks += 1;
        if !cond && self.fail.is_none() {
            self.fail = Some(format!("{what}: {}", detail()));
        }
    }
}

pub trait Num: Copy + Debug + Serialize + DeserializeOwned + PartialEq + 'static {
    const NAME: &'static str;
    const IS_FLOAT: bool = false;
    fn val(rng: &mut Rng, slot: usize) -> Self;
    fn json(self) -> Value;
    /// a value whose JSON text round trip is exact
    fn texty(slot: usize) -> Self;
}
impl Num for f64 {
    const NAME: &'static str = "f64";
    const IS_FLOAT: bool = true;
    fn val(rng: &mut Rng, slot: usize) -> f64 {
        let specials = [-0.0, f64::MIN_POSITIVE / 8.0, -f64::MIN_POSITIVE / 1024.0, f64::MAX, f64::MIN, f64::EPSILON, 0.1, 1.0 / 3.0, f64::MIN_POSITIVE];
        match rng.below(4) {
            0 => specials[(rng.below(specials.len() as u64)) as usize],
            _ => f64::from_bits((rng.next() & !(0x7ffu64 << 52)) | ((rng.range(1, 2045) as u64) << 52)) * if slot % 2 == 0 { 1.0 } else { -1.0 },
        }
    }
    fn json(self) -> Value {
        Value::from(self)
    }
    fn texty(slot: usize) -> f64 {
        (slot as f64 + 1.0) * 1.25 - 3.0
    }
}
impl Num for f32 {
    const NAME: &'static str = "f32";
    const IS_FLOAT: bool = true;
    fn val(rng: &mut Rng, slot: usize) -> f32 {
        let specials = [-0.0f32, f32::MIN_POSITIVE / 8.0, -f32::MIN_POSITIVE / 64.0, f32::MAX, f32::MIN, f32::EPSILON, 0.1, 1.0 / 3.0];
        match rng.below(4) {
            0 => specials[(rng.below(specials.len() as u64)) as usize],
            _ => f32::from_bits(((rng.next() as u32) & !(0xffu32 << 23)) | ((rng.range(1, 253) as u32) << 23)) * if slot % 2 == 0 { 1.0 } else { -1.0 },
        }
    }
    fn json(self) -> Value {
        Value::from(self as f64)
    }
    fn texty(slot: usize) -> f32 {
        (slot as f32 + 1.0) * 0.75 - 2.0
    }
}
macro_rules! int_num {
    ($($T:ty),*) => {$(
        impl Num for $T {
            const NAME: &'static str = stringify!($T);
            fn val(rng: &mut Rng, _slot: usize) -> $T {
                match rng.below(5) { 0 => <$T>::MAX, 1 => <$T>::MIN, _ => rng.next() as $T }
            }
            fn json(self) -> Value { Value::from(self) }
            fn texty(slot: usize) -> $T { (slot as $T) + 3 }
        }
    )*};
}
int_num!(i32, u8, i64, u64, i16);

/// round trip through the recorded data model (bit exact: compared through the
/// shortest-round-trip Debug rendering, which distinguishes every finite bit pattern)
fn round_trip<T: Serialize + DeserializeOwned + Debug>(rec: &mut Rec, name: &str, x: &T, shape: Option<Value>) {
    rec.types.insert(name.to_string());
    rec.values.insert(format!("{name}:{x:?}"));
    let v = match serde_json::to_value(x) {
        Ok(v) => v,
        Err(e) => {
            rec.ok("serialize", false, || format!("{name}: {e}"));
            return;
        }
    };
    if let Some(shape) = shape {
        rec.ok("serialized structure names the public fields", v == shape, || format!("{name}: recorded {v}, expected {shape}"));
    }
    match serde_json::from_value::<T>(v.clone()) {
        Ok(back) => rec.ok("deserialize(serialize(x)) == x bit for bit", format!("{back:?}") == format!("{x:?}"), || {
            format!("{name}: {x:?} came back as {back:?}")
        }),
        Err(e) => rec.ok("deserialize(serialize(x))", false, || format!("{name}: {e} for {v}")),
    }
}

/// round trip through JSON text for values whose decimal form is exact
fn text_round_trip<T: Serialize + DeserializeOwned + Debug>(rec: &mut Rec, name: &str, x: &T) {
    let s = serde_json::to_string(x).unwrap_or_default();
    match serde_json::from_str::<T>(&s) {
        Ok(back) => rec.ok("JSON text round trip", format!("{back:?}") == format!("{x:?}"), || format!("{name}: {s} came back as {back:?}")),
        Err(e) => rec.ok("JSON text round trip", false, || format!("{name}: {e} for {s}")),
    }
}

fn v_shape<S: Num>(c: &[S]) -> Value {
    let names = ["x", "y", "z", "w"];
    let mut m = serde_json::Map::new();
    for (i, x) in c.iter().enumerate() {
        m.insert(names[i].to_string(), x.json());
    }
    Value::Object(m)
}
fn m_shape<S: Num>(c: &[S], n: usize) -> Value {
    let names = ["x", "y", "z", "w"];
    let mut m = serde_json::Map::new();
    for col in 0..n {
        m.insert(names[col].to_string(), v_shape(&c[col * n..(col + 1) * n]));
    }
    Value::Object(m)
}

fn plain_types<S: Num>(rec: &mut Rec, rng: &mut Rng, texty: bool) {
    let c: Vec<S> = (0..16).map(|i| if texty { S::texty(i) } else { S::val(rng, i) }).collect();
    let n = S::NAME;
    macro_rules! both {
        ($name:expr, $x:expr, $shape:expr) => {{
            let x = $x;
            if texty {
                text_round_trip(rec, &format!("{}<{}>", $name, n), &x);
            } else {
                round_trip(rec, &format!("{}<{}>", $name, n), &x, Some($shape));
            }
        }};
    }
    both!("Vector1", Vector1::new(c[0]), v_shape(&c[..1]));
    both!("Vector2", Vector2::new(c[0], c[1]), v_shape(&c[..2]));
    both!("Vector3", Vector3::new(c[0], c[1], c[2]), v_shape(&c[..3]));
    both!("Vector4", Vector4::new(c[0], c[1], c[2], c[3]), v_shape(&c[..4]));
    both!("Point1", Point1::new(c[0]), v_shape(&c[..1]));
    both!("Point2", Point2::new(c[0], c[1]), v_shape(&c[..2]));
    both!("Point3", Point3::new(c[0], c[1], c[2]), v_shape(&c[..3]));
    both!("Matrix2", Matrix2::new(c[0], c[1], c[2], c[3]), m_shape(&c, 2));
    both!("Matrix3", Matrix3::new(c[0], c[1], c[2], c[3], c[4], c[5], c[6], c[7], c[8]), m_shape(&c, 3));
    both!(
        "Matrix4",
        Matrix4::new(c[0], c[1], c[2], c[3], c[4], c[5], c[6], c[7], c[8], c[9], c[10], c[11], c[12], c[13], c[14], c[15]),
        m_shape(&c, 4)
    );
    both!("Quaternion", Quaternion::new(c[0], c[1], c[2], c[3]), json!({"v": v_shape(&c[1..4]), "s": c[0].json()}));
}

/// angles, Euler triples and projection descriptions (float-valued concepts)
fn angle_types<S: Num + cgmath::BaseFloat>(rec: &mut Rec, rng: &mut Rng, texty: bool) {
    let c: Vec<S> = (0..16).map(|i| if texty { S::texty(i) } else { S::val(rng, i) }).collect();
    let n = S::NAME;
    macro_rules! both {
        ($name:expr, $x:expr, $shape:expr) => {{
            let x = $x;
            if texty {
                text_round_trip(rec, &format!("{}<{}>", $name, n), &x);
            } else {
                round_trip(rec, &format!("{}<{}>", $name, n), &x, Some($shape));
            }
        }};
    }
    both!("Rad", Rad(c[0]), c[0].json());
    both!("Deg", Deg(c[1]), c[1].json());
    both!("Euler<Rad>", Euler::new(Rad(c[0]), Rad(c[1]), Rad(c[2])), v_shape(&c[..3]));
    both!("Euler<Deg>", Euler::new(Deg(c[0]), Deg(c[1]), Deg(c[2])), v_shape(&c[..3]));
    both!(
        "PerspectiveFov",
        PerspectiveFov { fovy: Rad(c[0]), aspect: c[1], near: c[2], far: c[3] },
        json!({"fovy": c[0].json(), "aspect": c[1].json(), "near": c[2].json(), "far": c[3].json()})
    );
    both!(
        "Perspective",
        Perspective { left: c[0], right: c[1], bottom: c[2], top: c[3], near: c[4], far: c[5] },
        json!({"left": c[0].json(), "right": c[1].json(), "bottom": c[2].json(), "top": c[3].json(), "near": c[4].json(), "far": c[5].json()})
    );
    both!(
        "Ortho",
        Ortho { left: c[0], right: c[1], bottom: c[2], top: c[3], near: c[4], far: c[5] },
        json!({"left": c[0].json(), "right": c[1].json(), "bottom": c[2].json(), "top": c[3].json(), "near": c[4].json(), "far": c[5].json()})
    );
    both!(
        "PlanarFov",
        PlanarFov { fovy: Rad(c[0]), aspect: c[1], height: c[2], near: c[3], far: c[4] },
        json!({"fovy": c[0].json(), "aspect": c[1].json(), "height": c[2].json(), "near": c[3].json(), "far": c[4].json()})
    );
}

fn float_only<S: Num + cgmath::BaseFloat>(rec: &mut Rec, rng: &mut Rng) {
    let n = S::NAME;
    let c: Vec<S> = (0..16).map(|i| S::val(rng, i)).collect();
    // bases are only constructible as rotations; their components are whatever the constructor produced
    let ang = Rad(S::from(0.7).unwrap());
    let b2: Basis2<S> = Rotation2::from_angle(ang);
    let b3: Basis3<S> = Rotation3::from_axis_angle(Vector3::new(S::from(0.6).unwrap(), S::from(0.0).unwrap(), S::from(0.8).unwrap()), ang);
    round_trip(rec, &format!("Basis2<{n}>"), &b2, None);
    round_trip(rec, &format!("Basis3<{n}>"), &b3, None);
    text_round_trip(rec, &format!("Basis2<{n}>"), &b2);
    // arbitrary component values through the Deserialize impl, then back out
    let raw = json!({"mat": m_shape(&c, 3)});
    match serde_json::from_value::<Basis3<S>>(raw.clone()) {
        Ok(b) => {
            let back = serde_json::to_value(&b).unwrap();
            let again: Basis3<S> = serde_json::from_value(back).unwrap();
            rec.ok("Basis3 arbitrary components round trip", format!("{again:?}") == format!("{b:?}"), || format!("{raw}"));
            let m: &Matrix3<S> = b.as_ref();
            rec.ok("Basis3 components in place", format!("{:?}", m) == format!("{:?}", Matrix3::new(c[0], c[1], c[2], c[3], c[4], c[5], c[6], c[7], c[8])), || format!("{raw}"));
        }
        Err(e) => rec.ok("Basis3 from recorded structure", false, || format!("{e}")),
    }
    // Decomposed: three instantiations
    let dq = Decomposed { scale: c[0], rot: Quaternion::new(c[1], c[2], c[3], c[4]), disp: Vector3::new(c[5], c[6], c[7]) };
    round_trip(
        rec,
        &format!("Decomposed<Vector3,Quaternion><{n}>"),
        &dq,
        Some(json!({"scale": c[0].json(), "rot": {"v": v_shape(&c[2..5]), "s": c[1].json()}, "disp": v_shape(&c[5..8])})),
    );
    let db = Decomposed { scale: c[0], rot: b3, disp: Vector3::new(c[5], c[6], c[7]) };
    round_trip(rec, &format!("Decomposed<Vector3,Basis3><{n}>"), &db, None);
    let d2 = Decomposed { scale: c[0], rot: b2, disp: Vector2::new(c[5], c[6]) };
    round_trip(rec, &format!("Decomposed<Vector2,Basis2><{n}>"), &d2, None);
    let v = serde_json::to_value(&db).unwrap();
    rec.ok(
        "Decomposed field names",
        v.as_object().map(|o| o.keys().cloned().collect::<Vec<_>>()) == Some(vec!["disp".to_string(), "rot".to_string(), "scale".to_string()]),
        || format!("{v}"),
    );

    // field order, omissions, unknown fields: text carrier with exact decimals
    let parts: [(&str, String); 3] = [
        ("scale", "2.5".to_string()),
        ("rot", r#"{"v":{"x":0.5,"y":-0.25,"z":0.125},"s":0.75}"#.to_string()),
        ("disp", r#"{"x":1.5,"y":-2.0,"z":3.25}"#.to_string()),
    ];
    type DQ<S> = Decomposed<Vector3<S>, Quaternion<S>>;
    let expected: DQ<S> = Decomposed {
        scale: S::from(2.5).unwrap(),
        rot: Quaternion::new(S::from(0.75).unwrap(), S::from(0.5).unwrap(), S::from(-0.25).unwrap(), S::from(0.125).unwrap()),
        disp: Vector3::new(S::from(1.5).unwrap(), S::from(-2.0).unwrap(), S::from(3.25).unwrap()),
    };
    let orders = [[0, 1, 2], [0, 2, 1], [1, 0, 2], [1, 2, 0], [2, 0, 1], [2, 1, 0]];
    for o in orders {
        let text = format!("{{{}}}", o.iter().map(|&i| format!("\"{}\":{}", parts[i].0, parts[i].1)).collect::<Vec<_>>().join(","));
        match serde_json::from_str::<DQ<S>>(&text) {
            Ok(d) => rec.ok("Decomposed accepted in any field order with the same value", d == expected, || format!("{text} -> {d:?}")),
            Err(e) => rec.ok("Decomposed accepted in any field order", false, || format!("{text}: {e}")),
        }
        // the same document through the other entry points of the same format: a reader (keys
        // arrive as transient, non-borrowed strings), a byte slice, and keys written with JSON escapes
        match serde_json::from_reader::<_, DQ<S>>(std::io::Cursor::new(text.as_bytes().to_vec())) {
            Ok(d) => rec.ok("Decomposed read from a reader: same value", d == expected, || format!("{text} -> {d:?}")),
            Err(e) => rec.ok("Decomposed read from a reader is accepted", false, || format!("{text}: {e}")),
        }
        match serde_json::from_slice::<DQ<S>>(text.as_bytes()) {
            Ok(d) => rec.ok("Decomposed read from a byte slice: same value", d == expected, || format!("{text} -> {d:?}")),
            Err(e) => rec.ok("Decomposed read from a byte slice is accepted", false, || format!("{text}: {e}")),
        }
        let escaped = text.replace("\"scale\"", "\"sc\\u0061le\"").replace("\"rot\"", "\"r\\u006ft\"").replace("\"disp\"", "\"d\\u0069sp\"");
        match serde_json::from_str::<DQ<S>>(&escaped) {
            Ok(d) => rec.ok("Decomposed with JSON-escaped keys: same value", d == expected, || format!("{escaped} -> {d:?}")),
            Err(e) => rec.ok("Decomposed with JSON-escaped keys is accepted", false, || format!("{escaped}: {e}")),
        }
    }
    // own output through a reader, as a program loading a saved scene does
    {
        let text = serde_json::to_string(&expected).unwrap();
        let r = serde_json::from_reader::<_, DQ<S>>(std::io::Cursor::new(text.clone().into_bytes()));
        rec.ok("Decomposed: to_string output read back through a reader", r.as_ref().map(|d| *d == expected).unwrap_or(false), || format!("{text}: {:?}", r.as_ref().err()));
    }
    for skip in 0..3 {
        for o in [[0usize, 1, 2], [2, 1, 0]] {
            let text = format!(
                "{{{}}}",
                o.iter().filter(|&&i| i != skip).map(|&i| format!("\"{}\":{}", parts[i].0, parts[i].1)).collect::<Vec<_>>().join(",")
            );
            let r = serde_json::from_str::<DQ<S>>(&text);
            rec.ok("Decomposed with a missing field is rejected", r.is_err(), || format!("{text} -> {:?}", r.as_ref().ok()));
        }
        // the same omission through the recorded data model
        let mut v = serde_json::to_value(&expected).unwrap();
        v.as_object_mut().unwrap().remove(parts[skip].0);
        let r = serde_json::from_value::<DQ<S>>(v.clone());
        rec.ok("Decomposed with a missing field is rejected (data model)", r.is_err(), || format!("{v} -> {:?}", r.as_ref().ok()));
    }
    // unknown names include near misses of the real ones (field names are exact, case included)
    let strangers = [
        "\"shear\":1.0".to_string(),
        "\"Scale\":2.5".to_string(),
        "\"SCALE\":1.0".to_string(),
        format!("\"DISP\":{}", parts[2].1),
        format!("\"Rot\":{}", parts[1].1),
        "\"scale \":2.5".to_string(),
        "\"x\":0.0".to_string(),
        "\"\":0.0".to_string(),
        // plausible aliases and annotation keys, each with a value of the shape of the field it
        // might be taken for (so that a type mismatch cannot be what rejects it)
        format!("\"rotation\":{}", parts[1].1),
        format!("\"translation\":{}", parts[2].1),
        format!("\"displacement\":{}", parts[2].1),
        format!("\"position\":{}", parts[2].1),
        format!("\"orientation\":{}", parts[1].1),
        "\"s\":2.5".to_string(),
        "\"$schema\":\"https://example.org/decomposed.json\"".to_string(),
        "\"$comment\":\"saved by the editor\"".to_string(),
        "\"_comment\":\"x\"".to_string(),
        "\"type\":\"Decomposed\"".to_string(),
        "\"version\":1".to_string(),
        "\"id\":7".to_string(),
    ];
    for (k, extra_field) in strangers.iter().enumerate() {
        for pos in 0..4 {
            let mut fields: Vec<String> = (0..3).map(|i| format!("\"{}\":{}", parts[i].0, parts[i].1)).collect();
            fields.insert(pos, extra_field.clone());
            let text = format!("{{{}}}", fields.join(","));
            let r = serde_json::from_str::<DQ<S>>(&text);
            rec.ok("Decomposed with an unknown field is rejected", r.is_err(), || format!("{text} -> {:?}", r.as_ref().ok()));
        }
        // a near miss or an alias does not stand in for the real field either
        if (1..5).contains(&k) || (8..14).contains(&k) {
            let replaced = match k { 1 | 2 | 13 => 0, 3 | 9 | 10 | 11 => 2, _ => 1 };
            let fields: Vec<String> = (0..3).map(|i| if i == replaced { extra_field.clone() } else { format!("\"{}\":{}", parts[i].0, parts[i].1) }).collect();
            let text = format!("{{{}}}", fields.join(","));
            let r = serde_json::from_str::<DQ<S>>(&text);
            rec.ok("Decomposed with a misspelt field (hence a missing one) is rejected", r.is_err(), || format!("{text} -> {:?}", r.as_ref().ok()));
        }
    }
    // same for the 2-D instantiation (missing fields only; Basis2 text from a real value)
    let b2s = serde_json::to_string(&b2).unwrap();
    let parts2: [(&str, String); 3] = [("scale", "2.5".to_string()), ("rot", b2s), ("disp", r#"{"x":1.5,"y":-2.0}"#.to_string())];
    type D2<S> = Decomposed<Vector2<S>, Basis2<S>>;
    for o in orders {
        let text = format!("{{{}}}", o.iter().map(|&i| format!("\"{}\":{}", parts2[i].0, parts2[i].1)).collect::<Vec<_>>().join(","));
        let r = serde_json::from_str::<D2<S>>(&text);
        rec.ok("Decomposed<Vector2,Basis2> accepted in any field order", r.is_ok(), || format!("{text}: {:?}", r.as_ref().err()));
        if let Ok(d) = r {
            rec.ok("Decomposed<Vector2,Basis2> value", d.scale == S::from(2.5).unwrap() && d.disp == Vector2::new(S::from(1.5).unwrap(), S::from(-2.0).unwrap()), || text.clone());
        }
    }
    for skip in 0..3 {
        let text = format!(
            "{{{}}}",
            (0..3).filter(|&i| i != skip).map(|i| format!("\"{}\":{}", parts2[i].0, parts2[i].1)).collect::<Vec<_>>().join(",")
        );
        rec.ok("Decomposed<Vector2,Basis2> with a missing field is rejected", serde_json::from_str::<D2<S>>(&text).is_err(), || text.clone());
    }
}

pub fn native(cfg: &RunCfg, extra: &mut Extra) {
    let rounds = if cfg.tier == Tier::Quick { 200 } else { 20_000 };
    let mut rec = Rec { checks: 0, fail: None, types: Default::default(), values: Default::default() };
    for i in 0..rounds {
        let mut rng = Rng::for_case(cfg.seed, "c20_native", i);
        let r = cgv_core::fw::catch(|| {
            plain_types::<f64>(&mut rec, &mut rng, false);
            plain_types::<f32>(&mut rec, &mut rng, false);
            angle_types::<f64>(&mut rec, &mut rng, false);
            angle_types::<f32>(&mut rec, &mut rng, false);
            plain_types::<i32>(&mut rec, &mut rng, false);
            plain_types::<u8>(&mut rec, &mut rng, false);
            plain_types::<i64>(&mut rec, &mut rng, false);
            plain_types::<u64>(&mut rec, &mut rng, false);
            plain_types::<i16>(&mut rec, &mut rng, false);
            if i < 3 {
                plain_types::<f64>(&mut rec, &mut rng, true);
                plain_types::<f32>(&mut rec, &mut rng, true);
                angle_types::<f64>(&mut rec, &mut rng, true);
                angle_types::<f32>(&mut rec, &mut rng, true);
                plain_types::<i32>(&mut rec, &mut rng, true);
            }
            float_only::<f64>(&mut rec, &mut rng);
            float_only::<f32>(&mut rec, &mut rng);
        });
        if let Err(p) = r {
            if rec.fail.is_none() {
                rec.fail = Some(format!("unexpected panic: {p}"));
            }
        }
        if let Some(f) = &rec.fail {
            extra.violations.push(("native_serde".into(), f.clone(), json!({"index": i})));
            break;
        }
    }
    extra.evaluations += rec.checks;
    extra.distinct_nontrivial += rec.values.len() as u64;
    extra.samples.push(json!({"clause": "native_serde", "recorded": serde_json::to_value(Decomposed { scale: 2.5f32, rot: Quaternion::new(0.75f32, 0.5, -0.25, 0.125), disp: Vector3::new(-0.0f32, f32::MIN_POSITIVE / 8.0, f32::MAX) }).unwrap()}));
    extra.sections.insert(
        "native_serde".into(),
        json!({"rounds": rounds, "checks": rec.checks, "serializable_types_driven": rec.types.len(), "distinct_values": rec.values.len(),
               "types_sample": rec.types.iter().take(10).collect::<Vec<_>>()}),
    );
}

pub fn clauses() -> Vec<Clause> {
    vec![]
}

pub const RULE: &str = "every serializable type (Vector1-4, Point1-3, Matrix2-4, Quaternion, Rad, Deg, Euler<Rad>, Euler<Deg>, PerspectiveFov, Perspective, Ortho, PlanarFov over f64, f32, i32, u8, i64, u64, i16; Basis2, Basis3 and three Decomposed instantiations over f32, f64) with random finite bit patterns and the special values -0.0, subnormals, MAX, MIN, MIN_POSITIVE, EPSILON, 0.1, 1/3 mixed in; each value is recorded as serde's data-model tree, compared with the structure the statement prescribes, replayed into Deserialize and compared bit for bit; Decomposed additionally in all 6 field orders, with each single field omitted (text and data-model carriers, two orders) and with an unknown field at every position. distinct_nontrivial = number of distinct (type, value) pairs driven.";
pub const ASSUME: &[&str] = &[
    "serde_json::Value is used as the recorder of serde's data model (no text involved, floats carried as exact f64); JSON text is used only for field order / omission / unknown-field events on exactly representable decimals",
    "bit equality is decided on the shortest-round-trip Debug rendering of the value (distinguishes every finite float, including -0.0)",
];
