//! Precision-doubling consistency ("twin runs"): the same generic cgmath code
//! is run natively at f32 and at f64 on *identical* inputs (values exactly
//! representable in f32).  For well-conditioned computations the two results
//! differ by a modest multiple of f32 rounding; a formula that is
//! algebraically right but numerically unsound (cancellation, a cached
//! reciprocal of a tiny number, acos near 1, ...) shows up as a disagreement
//! orders of magnitude larger.  The tolerance is relative to the scale of the
//! outputs and is reported next to the worst disagreement actually observed.

use serde_json::json;

use crate::fw::Extra;
use crate::gen::Rng;

/// a value with at most 12 fractional bits and magnitude below 16: exact in f32
pub fn short(rng: &mut Rng, lo: f64, hi: f64) -> f64 {
    let x = rng.uniform(lo, hi);
    (x * 4096.0).round() / 4096.0
}

pub struct Twin {
    pub name: &'static str,
    pub cases: u64,
    pub worst: f64,
    pub tol: f64,
    pub fail: Option<(String, serde_json::Value)>,
}

impl Twin {
    pub fn new(name: &'static str, tol: f64) -> Twin {
        Twin { name, cases: 0, worst: 0.0, tol, fail: None }
    }
    /// compare one case's outputs; `what` names the outputs, `inputs` is recorded on failure
    pub fn compare(&mut self, what: &str, lo: &[f32], hi: &[f64], inputs: &dyn Fn() -> serde_json::Value) {
        self.cases += 1;
        if self.fail.is_some() {
            return;
        }
        if lo.len() != hi.len() {
            self.fail = Some((format!("{what}: f32 and f64 runs produced {} vs {} outputs", lo.len(), hi.len()), inputs()));
            return;
        }
        let scale = hi.iter().fold(1.0f64, |m, x| m.max(x.abs()));
        for (i, (a, b)) in lo.iter().zip(hi.iter()).enumerate() {
            let d = ((*a as f64) - b).abs() / scale;
            if d.is_nan() || !(a.is_finite()) || !(b.is_finite()) {
                self.fail = Some((format!("{what}: output #{i} is not finite (f32 {a:?}, f64 {b:?})"), inputs()));
                return;
            }
            if d > self.worst {
                self.worst = d;
            }
            if d > self.tol {
                self.fail = Some((
                    format!("{what}: output #{i} differs between the f32 and the f64 run of the same code on identical inputs by {d:e} of the output scale (f32 {a:?}, f64 {b:?}; tolerance {:e})", self.tol),
                    inputs(),
                ));
                return;
            }
        }
    }
    pub fn finish(self, extra: &mut Extra) {
        extra.evaluations += self.cases;
        extra.sections.insert(
            format!("twin_{}", self.name),
            json!({"cases": self.cases, "worst_relative_disagreement_f32_vs_f64": self.worst, "tolerance": self.tol}),
        );
        if let Some((msg, payload)) = self.fail {
            extra.violations.push((format!("native_twin_{}", self.name), msg, payload));
        }
    }
}
