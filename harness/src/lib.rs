//! cgv_core — shared machinery of the cgmath runtime monitors (see /verif/DESIGN.md):
//! shadow scalars, clause runner, generators, reference model, evidence.

pub mod acc;
pub mod bits;
pub mod conv;
pub mod dd;
pub mod fw;
pub mod gen;
pub mod iv;
pub mod model;
pub mod q;
pub mod sc;
pub mod twin;
pub mod twins;
pub mod selftest;

use std::time::Instant;

use fw::{Extra, PropertyReport, RunCfg};
use gen::Tier;

pub fn verif_root() -> String {
    std::env::var("VERIF_ROOT").unwrap_or_else(|_| "/verif".to_string())
}

pub struct Prop {
    pub id: &'static str,
    pub clauses: fn() -> Vec<fw::Clause>,
    pub extra: fn(&RunCfg, &mut Extra),
    pub rule: &'static str,
    pub assume: &'static [&'static str],
}

pub fn no_extra(_: &RunCfg, _: &mut Extra) {}

fn usage() -> ! {
    eprintln!("usage: cgv-<id> [--tier quick|thorough] [--seed N] [--threads N] [--replay FILE] [--merge-json FILE] [--cases N]");
    std::process::exit(2);
}

/// main of every per-property binary
pub fn main_for(p: Prop) -> ! {
    let args: Vec<String> = std::env::args().collect();
    let mut tier = match std::env::var("VERIF_TIER").as_deref() {
        Ok("thorough") => Tier::Thorough,
        _ => Tier::Quick,
    };
    let mut seed: u64 = std::env::var("VERIF_SEED").ok().and_then(|s| s.parse().ok()).unwrap_or(1);
    let mut threads = std::thread::available_parallelism().map(|n| n.get()).unwrap_or(1);
    let mut replay: Option<String> = None;
    let mut merge: Vec<String> = vec![];
    let mut cases: Option<u64> = None;
    let mut i = 1;
    while i < args.len() {
        match args[i].as_str() {
            "--tier" => { i += 1; tier = if args[i] == "thorough" { Tier::Thorough } else { Tier::Quick }; }
            "--seed" => { i += 1; seed = args[i].parse().unwrap_or(1); }
            "--threads" => { i += 1; threads = args[i].parse().unwrap_or(1); }
            "--replay" => { i += 1; replay = Some(args[i].clone()); }
            "--merge-json" => { i += 1; merge.push(args[i].clone()); }
            "--cases" => { i += 1; cases = args[i].parse().ok(); }
            "--selftest" => {}
            _ => usage(),
        }
        i += 1;
    }
    fw::install_panic_hook();
    if args.iter().any(|a| a == "--selftest") {
        std::process::exit(selftest::run());
    }
    if let Some(path) = replay {
        let txt = std::fs::read_to_string(&path).expect("replay file");
        let v: serde_json::Value = serde_json::from_str(&txt).expect("replay json");
        let clause = v["clause"].as_str().unwrap_or("");
        let rseed = v["seed"].as_u64().unwrap_or(seed);
        let rtier = if v["tier"].as_str() == Some("thorough") { Tier::Thorough } else { Tier::Quick };
        if let Some(idx) = v["index"].as_u64() {
            match fw::replay_clause(&(p.clauses)(), clause, rseed, idx, rtier) {
                Some(true) => {
                    println!("VIOLATION property={} replay={}", p.id, path);
                    std::process::exit(1);
                }
                Some(false) => {
                    println!("replay: case holds now");
                    std::process::exit(0);
                }
                None => {}
            }
        }
        // native (non-clause) monitors: re-run the whole property at the recorded seed/tier
        seed = rseed;
        tier = rtier;
    }

    let start = Instant::now();
    let base = cases.unwrap_or(if tier == Tier::Quick { 5000 } else { 100_000 });
    let cfg = RunCfg { property: p.id, tier, seed, threads: if tier == Tier::Quick { threads.min(8) } else { threads }, base_cases: base };
    if selftest::run() != 0 {
        println!("INCONCLUSIVE property={} monitor self-test failed", p.id);
        std::process::exit(2);
    }
    let mut extra = Extra::default();
    (p.extra)(&cfg, &mut extra);
    for m in &merge {
        if let Ok(txt) = std::fs::read_to_string(m) {
            if let Ok(v) = serde_json::from_str::<serde_json::Value>(&txt) {
                fw::merge_external(&mut extra, v);
            }
        }
    }
    let PropertyReport { exit, evidence } = fw::run_property(&cfg, &(p.clauses)(), extra, p.rule, p.assume, start);
    let dir = format!("{}/evidence", verif_root());
    let _ = std::fs::create_dir_all(&dir);
    std::fs::write(format!("{dir}/{}.json", p.id), serde_json::to_string_pretty(&evidence).unwrap()).expect("write evidence");
    println!(
        "property={} tier={:?} seed={} evaluations={} distinct_nontrivial={} violations={} exit={} wall={:.1}s",
        p.id, tier, seed, evidence["coverage"]["evaluations"], evidence["coverage"]["distinct_nontrivial"], evidence["violations"], exit, start.elapsed().as_secs_f64()
    );
    std::process::exit(exit)
}
