//! Native accuracy monitors with an explicit error budget: a native f32/f64
//! result of cgmath is compared with a reference value (double-double model,
//! exact integer model, or the mathematically known answer) and the observed
//! error is reported as a fraction of the allowed one.  The allowance is always
//! chosen >= 100x the error the unchanged code shows (the evidence file prints
//! the worst ratio seen), so that only results that are wrong by orders of
//! magnitude -- catastrophic cancellation, a guard that swallows valid inputs,
//! an intermediate that leaves the floating-point range -- are reported.

use serde_json::{json, Value};

use crate::fw::Extra;

pub struct Acc {
    pub name: &'static str,
    pub cases: u64,
    pub checks: u64,
    /// worst observed error / allowed error
    pub worst: f64,
    pub fail: Option<(String, Value)>,
    pub classes: std::collections::BTreeMap<String, u64>,
}

impl Acc {
    pub fn new(name: &'static str) -> Acc {
        Acc { name, cases: 0, checks: 0, worst: 0.0, fail: None, classes: Default::default() }
    }
    pub fn case(&mut self, class: &str) {
        self.cases += 1;
        *self.classes.entry(class.to_string()).or_insert(0) += 1;
    }
    pub fn failed(&self) -> bool {
        self.fail.is_some()
    }
    pub fn check(&mut self, what: &str, got: f64, want: f64, allowed: f64, inputs: &dyn Fn() -> Value) {
        self.checks += 1;
        if self.fail.is_some() {
            return;
        }
        if !want.is_finite() || !allowed.is_finite() {
            // the reference itself left the range: nothing can be demanded
            return;
        }
        let err = (got - want).abs();
        if !got.is_finite() || err.is_nan() {
            self.fail = Some((format!("{what}: result {got:?} is not finite, reference {want:e}"), inputs()));
            return;
        }
        let ratio = if allowed > 0.0 { err / allowed } else if err == 0.0 { 0.0 } else { f64::INFINITY };
        if ratio > self.worst && ratio.is_finite() {
            self.worst = ratio;
        }
        if ratio > 1.0 {
            self.fail = Some((
                format!("{what}: result {got:e}, reference {want:e}, error {err:e} exceeds the allowance {allowed:e} ({ratio:.3e} times)"),
                inputs(),
            ));
        }
    }
    pub fn truth(&mut self, what: &str, ok: bool, inputs: &dyn Fn() -> Value) {
        self.checks += 1;
        if self.fail.is_none() && !ok {
            self.fail = Some((what.to_string(), inputs()));
        }
    }
    pub fn finish(self, extra: &mut Extra, oracle: &str) {
        extra.evaluations += self.cases;
        extra.sections.insert(
            format!("accuracy_{}", self.name),
            json!({"cases": self.cases, "comparisons": self.checks, "classes": self.classes,
                   "worst_error_over_allowance": self.worst, "oracle": oracle}),
        );
        if let Some((msg, payload)) = self.fail {
            extra.violations.push((format!("native_accuracy_{}", self.name), msg, payload));
        }
    }
}
