//! The scalar abstraction shared by the three engines (exact `Q`, interval
//! `Iv`, native `f64`), the exact input type `Rat`, and the per-case oracle
//! context `Ck`.

use std::cmp::Ordering;
use std::fmt::Debug;
use std::marker::PhantomData;

use crate::iv::{Iv, Tri};
use crate::q::Q;

#[derive(Clone, Copy, Debug, PartialEq, Eq, Hash)]
pub struct Rat {
    pub n: i64,
    pub d: i64,
}
impl Rat {
    pub fn new(n: i64, d: i64) -> Rat {
        assert!(d != 0);
        let g = gcd(n.unsigned_abs(), d.unsigned_abs()) as i64;
        let (mut n, mut d) = (n / g.max(1), d / g.max(1));
        if d < 0 {
            n = -n;
            d = -d;
        }
        Rat { n, d }
    }
    pub fn int(n: i64) -> Rat {
        Rat { n, d: 1 }
    }
    pub fn is_zero(&self) -> bool {
        self.n == 0
    }
    pub fn approx(&self) -> f64 {
        self.n as f64 / self.d as f64
    }
    pub fn show(&self) -> String {
        if self.d == 1 {
            format!("{}", self.n)
        } else {
            format!("{}/{}", self.n, self.d)
        }
    }
}
fn gcd(mut a: u64, mut b: u64) -> u64 {
    while b != 0 {
        let t = a % b;
        a = b;
        b = t;
    }
    a
}

#[derive(Clone, Copy, PartialEq, Eq, Debug)]
pub enum Engine {
    Q,
    Iv,
    Native,
}

pub trait Sc: cgmath::BaseFloat + Debug + 'static {
    const ENGINE: Engine;
    /// exact rational input
    fn rat(r: Rat) -> Self;
    /// exact f64 (dyadic) input
    fn f(x: f64) -> Self;
    fn i(n: i64) -> Self {
        Self::rat(Rat::int(n))
    }
    /// n/d
    fn frac(n: i64, d: i64) -> Self {
        Self::rat(Rat::new(n, d))
    }
    /// the real number pi (enclosure at Iv; poisons Q; rounded at f64)
    fn pi() -> Self;
    /// f64 enclosure of the value
    fn enc(&self) -> (f64, f64);
    fn t_eq(a: &Self, b: &Self) -> Tri;
    fn t_le(a: &Self, b: &Self) -> Tri;
    fn t_lt(a: &Self, b: &Self) -> Tri;
    fn show(&self) -> String;
    /// is the value an integer?
    fn is_int(&self) -> Tri;
    /// x*x (tight at Iv: never negative)
    fn sq(self) -> Self {
        self * self
    }
    /// widen by k ulps (identity for exact engines)
    fn widen(self, _k: u32) -> Self {
        self
    }
}

impl Sc for Q {
    const ENGINE: Engine = Engine::Q;
    fn rat(r: Rat) -> Q {
        Q::new(r.n as i128, r.d as i128)
    }
    fn f(x: f64) -> Q {
        match Q::from_f64_exact(x) {
            Some(q) => q,
            None => {
                crate::q::poison(crate::q::P_OVERFLOW);
                Q::ZERO
            }
        }
    }
    fn pi() -> Q {
        crate::q::poison(crate::q::P_INEXACT);
        Q::from_f64_exact(std::f64::consts::PI).unwrap()
    }
    fn enc(&self) -> (f64, f64) {
        self.enclose()
    }
    fn t_eq(a: &Q, b: &Q) -> Tri {
        if crate::q::cmp_quiet(a, b) == Ordering::Equal {
            Tri::True
        } else {
            Tri::False
        }
    }
    fn t_le(a: &Q, b: &Q) -> Tri {
        if crate::q::cmp_quiet(a, b) != Ordering::Greater {
            Tri::True
        } else {
            Tri::False
        }
    }
    fn t_lt(a: &Q, b: &Q) -> Tri {
        if crate::q::cmp_quiet(a, b) == Ordering::Less {
            Tri::True
        } else {
            Tri::False
        }
    }
    fn show(&self) -> String {
        format!("{:?}", self)
    }
    fn is_int(&self) -> Tri {
        if self.is_integer() { Tri::True } else { Tri::False }
    }
}

impl Sc for Iv {
    const ENGINE: Engine = Engine::Iv;
    fn rat(r: Rat) -> Iv {
        fn enc_i(x: i64) -> Iv {
            let f = x as f64;
            if x.unsigned_abs() < (1u64 << 53) {
                Iv::pt(f)
            } else {
                Iv::new(crate::q::next_down(f), crate::q::next_up(f))
            }
        }
        if r.d == 1 {
            return enc_i(r.n);
        }
        enc_i(r.n) / enc_i(r.d)
    }
    fn f(x: f64) -> Iv {
        Iv::pt(x)
    }
    fn pi() -> Iv {
        Iv::pi()
    }
    fn enc(&self) -> (f64, f64) {
        (self.lo, self.hi)
    }
    fn t_eq(a: &Iv, b: &Iv) -> Tri {
        a.tri_eq(b)
    }
    fn t_le(a: &Iv, b: &Iv) -> Tri {
        a.tri_le(b)
    }
    fn t_lt(a: &Iv, b: &Iv) -> Tri {
        a.tri_lt(b)
    }
    fn show(&self) -> String {
        format!("{:?}", self)
    }
    fn widen(self, k: u32) -> Iv {
        Iv::widen(self, k)
    }
    fn sq(self) -> Iv {
        self.sqr()
    }
    fn is_int(&self) -> Tri {
        if self.is_point() {
            return if self.lo.fract() == 0.0 { Tri::True } else { Tri::False };
        }
        // does [lo, hi] contain an integer?
        if self.lo.ceil() <= self.hi { Tri::Unknown } else { Tri::False }
    }
}

impl Sc for f64 {
    const ENGINE: Engine = Engine::Native;
    fn rat(r: Rat) -> f64 {
        r.n as f64 / r.d as f64
    }
    fn f(x: f64) -> f64 {
        x
    }
    fn pi() -> f64 {
        std::f64::consts::PI
    }
    fn enc(&self) -> (f64, f64) {
        (*self, *self)
    }
    // real comparisons so that bodies can branch on the native run; the
    // oracles themselves never judge the native engine (see Ck)
    fn t_eq(a: &f64, b: &f64) -> Tri {
        if a == b { Tri::True } else { Tri::False }
    }
    fn t_le(a: &f64, b: &f64) -> Tri {
        if a <= b { Tri::True } else { Tri::False }
    }
    fn t_lt(a: &f64, b: &f64) -> Tri {
        if a < b { Tri::True } else { Tri::False }
    }
    fn is_int(&self) -> Tri {
        if self.fract() == 0.0 { Tri::True } else { Tri::False }
    }
    fn show(&self) -> String {
        format!("{:?}", self)
    }
}

/// Oracle context of one case on one engine.
pub struct Ck<S: Sc> {
    pub fail: Option<String>,
    pub checks: u32,
    /// enclosure of every code-side value handed to an oracle, in order
    pub trace: Vec<(f64, f64)>,
    pub notes: Vec<String>,
    pub verbose: bool,
    _p: PhantomData<S>,
}

impl<S: Sc> Ck<S> {
    pub fn new(verbose: bool) -> Self {
        Ck {
            fail: None,
            checks: 0,
            trace: Vec::new(),
            notes: Vec::new(),
            verbose,
            _p: PhantomData,
        }
    }
    pub fn native(&self) -> bool {
        S::ENGINE == Engine::Native
    }
    fn violated(&mut self, msg: String) {
        if self.verbose {
            eprintln!("  VIOLATED {msg}");
        }
        if self.fail.is_none() {
            self.fail = Some(msg);
        }
    }
    /// remember an output for the evidence samples
    pub fn note(&mut self, what: &str, v: &dyn Debug) {
        if self.notes.len() < 6 {
            self.notes.push(format!("{what}={v:?}"));
        }
        if self.verbose {
            eprintln!("  {what} = {v:?}");
        }
    }
    /// code-side value must equal the spec-side value (exactly at Q; the two
    /// enclosures must intersect at Iv).
    pub fn eq(&mut self, what: &str, code: S, spec: S) {
        self.checks += 1;
        self.trace.push(code.enc());
        if S::ENGINE == Engine::Native {
            return;
        }
        if S::t_eq(&code, &spec) == Tri::False {
            self.violated(format!("{what}: code={} spec={}", code.show(), spec.show()));
        } else if self.verbose {
            eprintln!("  ok {what}: code={} spec={}", code.show(), spec.show());
        }
    }
    pub fn eqv<const N: usize>(&mut self, what: &str, code: [S; N], spec: [S; N]) {
        for i in 0..N {
            if self.fail.is_some() && !self.verbose {
                self.trace.push(code[i].enc());
                continue;
            }
            self.eq(&format!("{what}[{i}]"), code[i], spec[i]);
        }
    }
    pub fn eqm<const N: usize>(&mut self, what: &str, code: [[S; N]; N], spec: [[S; N]; N]) {
        for c in 0..N {
            for r in 0..N {
                if self.fail.is_some() && !self.verbose {
                    self.trace.push(code[c][r].enc());
                    continue;
                }
                self.eq(&format!("{what}[c{c}][r{r}]"), code[c][r], spec[c][r]);
            }
        }
    }
    /// a <= b must hold (violated only if certainly a > b)
    pub fn le(&mut self, what: &str, a: S, b: S) {
        self.checks += 1;
        self.trace.push(a.enc());
        if S::ENGINE != Engine::Native && S::t_le(&a, &b) == Tri::False {
            self.violated(format!("{what}: {} <= {} is false", a.show(), b.show()));
        }
    }
    /// a < b must hold (violated only if certainly a >= b)
    pub fn lt(&mut self, what: &str, a: S, b: S) {
        self.checks += 1;
        self.trace.push(a.enc());
        if S::ENGINE != Engine::Native && S::t_lt(&a, &b) == Tri::False {
            self.violated(format!("{what}: {} < {} is false", a.show(), b.show()));
        }
    }
    /// |a - b| <= tol must hold
    pub fn within(&mut self, what: &str, a: S, b: S, tol: S) {
        let d = num_traits::Float::abs(a - b);
        self.le(what, d, tol);
    }
    /// an exactly computed boolean fact (not judged on the native engine,
    /// where rounding may legitimately flip it)
    pub fn truth(&mut self, what: &str, b: bool) {
        self.checks += 1;
        if !b && S::ENGINE != Engine::Native {
            self.violated(format!("{what}: expected true"));
        }
    }
    /// a fact judged on every engine, the native one included
    pub fn always(&mut self, what: &str, b: bool) {
        self.checks += 1;
        if !b {
            self.violated(format!("{what}: expected true"));
        }
    }
    /// `got` must be `q` or `-q` (component-wise, one common sign)
    pub fn eq_pm<const N: usize>(&mut self, what: &str, got: [S; N], q: [S; N]) {
        let mut plus = true;
        let mut minus = true;
        for i in 0..N {
            self.trace.push(got[i].enc());
            if S::t_eq(&got[i], &q[i]) == Tri::False {
                plus = false;
            }
            if S::t_eq(&got[i], &(-q[i])) == Tri::False {
                minus = false;
            }
        }
        self.checks += 1;
        if S::ENGINE != Engine::Native && !(plus || minus) {
            let g: Vec<String> = got.iter().map(|x| x.show()).collect();
            let e: Vec<String> = q.iter().map(|x| x.show()).collect();
            self.violated(format!("{what}: got {g:?}, expected +-{e:?}"));
        }
    }
    /// a != b must hold (violated only if certainly equal)
    pub fn ne(&mut self, what: &str, a: S, b: S) {
        self.checks += 1;
        if S::ENGINE != Engine::Native && S::t_eq(&a, &b) == Tri::True {
            self.violated(format!("{what}: {} != {} is false", a.show(), b.show()));
        }
    }
}
